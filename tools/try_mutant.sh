#!/bin/sh
# usage: tools/try_mutant.sh <patch.diff> <ID> [<ID>...]   - apply to /repo, run quick checks, undo.
patch="$1"; shift
cd /verif || exit 2
if [ -n "$(git -C /repo status --porcelain)" ]; then echo "/repo not clean"; exit 2; fi
git -C /repo apply "$patch" || { echo "patch does not apply"; exit 2; }
for id in "$@"; do
  out=$(./check "$id" --tier quick 2>/dev/null | grep -v '^KNOWN' | tail -4 | cut -c1-260)
  rc=$?
  echo "== $id: $(echo "$out" | grep -c '^VIOLATION') violation keys"; echo "$out" | head -3
done
git -C /repo checkout -- .
git -C /repo status --porcelain
