#!/usr/bin/env python3
"""Confirm a seeded change in a scratch worktree and store it under /verif/seeded/<id>/.

usage: confirm_mutant.py <seed-id> <property> <patch.diff> <demo.py> "<needs-to-manifest>" [--skip-tests]

Steps (all in /tmp/cw/<seed-id>, removed afterwards):
  1. worktree of /repo HEAD; demo must PASS (exit 0) on the unmodified tree
  2. apply patch; demo must FAIL (exit != 0)
  3. repository test suite with the patch: the set of passing tests must contain BASELINE.stable_pass
"""
import json
import os
import shutil
import subprocess
import sys
import xml.etree.ElementTree as ET
from pathlib import Path

VERIF = Path("/verif")


def sh(cmd, cwd, env=None, timeout=3000):
    e = dict(os.environ)
    e.update(env or {})
    p = subprocess.run(cmd, cwd=cwd, env=e, shell=True, capture_output=True, text=True, timeout=timeout)
    return p.returncode, (p.stdout + p.stderr)[-1500:]


def main():
    sid, prop, patch, demo, needs = sys.argv[1:6]
    skip_tests = "--skip-tests" in sys.argv
    wt = Path("/tmp/cw") / sid
    wt.parent.mkdir(parents=True, exist_ok=True)
    if wt.exists():
        subprocess.run(["git", "-C", "/repo", "worktree", "remove", "--force", str(wt)])
    subprocess.run(["git", "-C", "/repo", "worktree", "add", "--detach", str(wt), "HEAD", "-q"], check=True)
    env = {"PYTHONPATH": str(wt), "PYTHONHASHSEED": "0"}
    meta = {"seed_id": sid, "property": prop, "needs_to_manifest": needs, "base_commit":
            subprocess.check_output(["git", "-C", "/repo", "rev-parse", "--short", "HEAD"]).decode().strip()}
    try:
        shutil.copy(demo, wt / "_demo.py")
        rc0, out0 = sh("/venv/bin/python _demo.py", wt, env)
        meta["demo_without_change"] = {"exit": rc0}
        rc, out = sh(f"git apply {patch}", wt)
        if rc != 0:
            meta["error"] = "patch does not apply: " + out
            print(json.dumps(meta, indent=1)); return 1
        rc1, out1 = sh("/venv/bin/python _demo.py", wt, env)
        meta["demo_with_change"] = {"exit": rc1, "tail": out1[-400:]}
        if not skip_tests:
            junit = wt / "_junit.xml"
            sh(f"/venv/bin/python -m pytest -q -p no:cacheprovider --timeout=900 --continue-on-collection-errors --junitxml={junit}", wt, env)
            passed = set()
            for tc in ET.parse(junit).getroot().iter("testcase"):
                if not any(ch.tag in ("failure", "error", "skipped") for ch in tc):
                    passed.add(f"{tc.get('classname')}::{tc.get('name')}")
            base = set(json.load(open("/root/.vp/BASELINE.json"))["stable_pass"])
            missing = sorted(base - passed)
            meta["tests_with_change"] = {"baseline_stable_pass": len(base), "still_passing": len(base & passed), "newly_failing": missing[:10]}
        ok = rc0 == 0 and rc1 != 0 and (skip_tests or not meta["tests_with_change"]["newly_failing"])
        meta["confirmed"] = ok
        out_dir = VERIF / "seeded" / sid
        out_dir.mkdir(parents=True, exist_ok=True)
        shutil.copy(patch, out_dir / "patch.diff")
        shutil.copy(demo, out_dir / "demo.py")
        old = {}
        if (out_dir / "meta.json").exists():
            old = json.load(open(out_dir / "meta.json"))
        old.update(meta)
        json.dump(old, open(out_dir / "meta.json", "w"), indent=1)
        print(sid, "confirmed" if ok else "NOT CONFIRMED", json.dumps({k: meta[k] for k in meta if k.startswith(("demo", "tests"))}))
        return 0 if ok else 1
    finally:
        subprocess.run(["git", "-C", "/repo", "worktree", "remove", "--force", str(wt)])


if __name__ == "__main__":
    sys.exit(main())
