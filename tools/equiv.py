#!/usr/bin/env python3
"""False-alarm control: run ALL registered quick checks against behaviour-preserving refactors of pfhedge.

usage: tools/equiv.py [-j N] <diff> [<diff> ...]
Each diff is applied to a scratch worktree of /repo under /tmp/eq; every check must exit 0 (any VIOLATION on an
equivalent rewrite is a false alarm of the machinery - or evidence that the rewrite is not equivalent after all).
"""
import os, re, shutil, subprocess, sys
from concurrent.futures import ThreadPoolExecutor
from pathlib import Path

VERIF = Path("/verif")
IDS = [f"C{i:02d}" for i in range(1, 21)]


def run(cmd, **kw):
    return subprocess.run(cmd, shell=True, capture_output=True, text=True, **kw)


def one(diff):
    name = Path(diff).parent.name + "_" + Path(diff).stem
    wt, scratch = Path("/tmp/eq") / name, Path("/tmp/eq") / (name + ".out")
    run(f"git -C /repo worktree remove --force {wt}")
    shutil.rmtree(wt, ignore_errors=True); shutil.rmtree(scratch, ignore_errors=True)
    if run(f"git -C /repo worktree add -q --detach {wt} HEAD").returncode:
        return name, "WORKTREE FAILED"
    try:
        if run(f"git -C {wt} apply {diff}").returncode:
            return name, "PATCH DOES NOT APPLY"
        scratch.mkdir(parents=True, exist_ok=True)
        env = dict(os.environ, VERIF_REPO=str(wt), VERIF_SCRATCH=str(scratch))
        bad = {}
        for c in IDS:
            out = run(f"./check {c} --tier quick", cwd=VERIF, env=env)
            if out.returncode != 0:
                keys = re.findall(r"^VIOLATION property=\S+ replay=\S+\s+\[([^\]]+)\]", out.stdout, flags=re.M)
                bad[c] = (out.returncode, keys[:4] or out.stdout[-300:])
        return name, ("silent on all 20 checks" if not bad else f"ALARMS {bad}")
    finally:
        run(f"git -C /repo worktree remove --force {wt}")
        shutil.rmtree(wt, ignore_errors=True); shutil.rmtree(scratch, ignore_errors=True)


def main():
    args = sys.argv[1:]
    jobs = 3
    if args[:1] == ["-j"]:
        jobs = int(args[1]); args = args[2:]
    Path("/tmp/eq").mkdir(exist_ok=True)
    with ThreadPoolExecutor(jobs) as ex:
        for name, msg in ex.map(one, args):
            print(name, msg, flush=True)


if __name__ == "__main__":
    main()
