#!/bin/sh
# usage: tools/sweep.sh <seed> [tier]  - runs every registered check once, prints one line per check
seed=$1; tier=${2:-quick}
cd "$(dirname "$0")/.." || exit 2
for id in C01 C02 C03 C04 C05 C06 C07 C08 C09 C10 C11 C12 C13 C14 C15 C16 C17 C18 C19 C20; do
  s=$(date +%s)
  out=$(VERIF_SEED=$seed ./check $id --tier $tier 2>&1 | grep -v 'Warning\|"""\|KNOWN' | tail -2 | cut -c1-220)
  rc=$?
  e=$(date +%s)
  echo "seed=$seed $id $((e-s))s :: $(echo "$out" | tail -1)"
  echo "$out" | grep -q VIOLATION && echo "$out" | grep VIOLATION
done
