#!/usr/bin/env python3
"""Run the repository's pinned baseline on /repo (or $1) and report every stable-pass test that no longer passes."""
import json, subprocess, sys, tempfile, os, xml.etree.ElementTree as ET
repo = sys.argv[1] if len(sys.argv) > 1 else "/repo"
base = json.load(open("/root/.vp/BASELINE.json"))
with tempfile.TemporaryDirectory() as d:
    out = os.path.join(d, "j.xml")
    subprocess.run(["/venv/bin/python", "-m", "pytest", "-q", "-p", "no:cacheprovider", "--timeout=900", "--continue-on-collection-errors", "-n", "8", f"--junitxml={out}"] if False else
                   ["/venv/bin/python", "-m", "pytest", "-q", "-p", "no:cacheprovider", "--timeout=900", "--continue-on-collection-errors", f"--junitxml={out}"],
                   cwd=repo, stdout=subprocess.DEVNULL, stderr=subprocess.DEVNULL)
    passed = set()
    for tc in ET.parse(out).getroot().iter("testcase"):
        if not any(c.tag in ("failure", "error", "skipped") for c in tc):
            passed.add(f"{tc.get('classname')}::{tc.get('name')}")
missing = [t for t in base["stable_pass"] if t not in passed]
print(f"stable_pass={len(base['stable_pass'])} passed_now={len(passed)} missing={len(missing)}")
for t in missing[:40]:
    print("  MISSING", t)
sys.exit(1 if missing else 0)
