#!/usr/bin/env python3
"""Run the registered quick checks against every seeded change and record which check detects it.

usage: tools/matrix.py [-j N] [seed-id ...]
Each seeded/<id>/patch.diff is applied to a scratch worktree of /repo under /tmp/mx (never to /repo itself); the checks run
with VERIF_REPO pointing at it and VERIF_SCRATCH keeping their evidence/replays apart; the worktree is removed afterwards.
"""
import json
import re
import subprocess
import sys
from pathlib import Path

VERIF = Path("/verif")
FIXREV = {
    "fixrev-log-inplace": ("C16", ["C16", "C01"], "reverse of the fix: log-spot features apply log_() in place on the spot buffer"),
    "fixrev-default-cash": ("C06", ["C06"], "reverse of the fix: default HedgeLoss.cash on constant / multi-column samples"),
    "fixrev-steps-ceil": ("C13", ["C13"], "reverse of the fix: ceil(time_horizon/dt + 1) off by one when the float quotient lands above the integer"),
    "fixrev-start-index": ("C12", ["C12", "C13"], "reverse of the fix: forward-start index floor(start/dt) off by one"),
    "fixrev-clamp-option": ("C20", ["C20"], "reverse of the fix: Clamp/LeakyClamp modules ignore inverted_output"),
    "fixrev-inplace-overwrite": ("C15", ["C15", "C14"], "reverse of the fix: compute_hedge overwrites the model output in place (backward fails for Tanh/ReLU outputs)"),
    "fixrev-lookback-nan": ("C18", ["C18"], "reverse of the fix: bs_lookback_price NaN at t=0 / v=0"),
    "fixrev-american-delta-nan": ("C18", ["C18"], "reverse of the fix: bs_american_binary_delta NaN at t=0 / v=0"),
    "fixrev-vasicek": ("C10", ["C10", "C11"], "reverse of the fix: generate_vasicek infinite recursion / theta ignored"),
    "fixrev-cast-state": ("C11", ["C11"], "reverse of the fix: scalar initial states rounded through float32"),
    "fixrev-binary-gamma": ("C08", ["C08"], "reverse of the fix: European binary gamma/vega/theta at any time to maturity other than 1"),
    "fixrev-parse-spot-strike": ("C08", ["C08"], "reverse of the fix: automatic Greeks with a Python-float strike rounded through float32"),
    "fixrev-pl-cost-dtype": ("C01", ["C01"], "reverse of the fix: cost rates rounded through float32 in a float64 P&L"),
    "fixrev-clamp-bound-dtype": ("C20", ["C20"], "reverse of the fix: Python-number clamp bounds rounded through float32 on float64 inputs"),
    "fixrev-model-at-maturity": ("C14", ["C14"], "reverse of the fix: model evaluated at maturity in the all-steps branch (nan gradient through BlackScholes)"),
    "fixrev-negative-zero": ("C18", ["C18"], "reverse of the fix: time_to_maturity / volatility = -0.0 gives infinities of the wrong sign (negative European price at maturity)"),
    "fixrev-setattr-shadow": ("C12", ["C12"], "reverse of the fix: derivative.<name> = primary leaves a plain attribute that shadows the registry and goes stale"),
    "fixrev-cash-precision": ("C06", ["C06"], "reverse of the fix: default cash search in single precision at levels >= 16 runs into the iteration limit (RuntimeError)"),
    "fixrev-lazy-hedge-list": ("C15", ["C15"], "reverse of the fix: fit(hedge=[a, b]) with a lazy model and an optimiser class raises (placeholder forward on the default hedge)"),
    "fixrev-kou-default-dtype": ("C11", ["C11"], "reverse of the fix: generate_kou_jump returns float64 under the float32 default for a double-precision scalar initial state"),
    "fixrev-ww-zero-cost": ("C20", ["C20"], "reverse of the fix: Whalley-Wilmott with zero cost is nan where gamma is infinite (0 * inf)"),
    "fixrev-numpy-step": ("C03", ["C03"], "reverse of the fix: spot / volatility / variance features return all steps for a NumPy-integer step"),
    "fixrev-moduleoutput-of": ("C16", ["C16"], "reverse of the fix: ModuleOutput.of binds in place, an earlier handle follows the last binding"),
    "fixrev-cir-zero-variance": ("C11", ["C11"], "reverse of the fix: generate_cir / CIRRate NaN when the step has no variance (sigma = 0)"),
}
EXTRA = {"C03-B-stale-prev-output": ["C03", "C16"], "C16-B-prev-output-not-rezeroed": ["C16", "C03"], "C04-A-es-ties-at-quantile": ["C04", "C05"],
         "C05-B-qcvar-bracket-sign": ["C05", "C04"], "C04-B-erm-small-a-expansion": ["C04", "C05"], "C05-A-erm-global-shift": ["C05", "C04"],
         "C08-B-american-binary-delta-mask": ["C08", "C18"], "C10-B-cir-variance-parentheses": ["C10", "C11"], "C02-A-reshape-not-transpose": ["C02", "C03"]}


def run(cmd, **kw):
    return subprocess.run(cmd, shell=True, capture_output=True, text=True, **kw)


def one(sid):
    import os, shutil
    d = VERIF / "seeded" / sid
    meta = json.loads((d / "meta.json").read_text()) if (d / "meta.json").exists() else {"seed_id": sid}
    if sid in FIXREV:
        prop, checks, what = FIXREV[sid]
        meta.update({"property": prop, "kind": "reverse of a fix: commit (regression)", "needs_to_manifest": what})
    else:
        prop = meta["property"]
        checks = EXTRA.get(sid, [prop])
    wt = Path("/tmp/mx") / sid
    scratch = Path("/tmp/mx") / (sid + ".out")
    run(f"git -C /repo worktree remove --force {wt}")
    shutil.rmtree(wt, ignore_errors=True); shutil.rmtree(scratch, ignore_errors=True)
    r = run(f"git -C /repo worktree add -q --detach {wt} HEAD")
    if r.returncode != 0:
        return sid, "WORKTREE FAILED " + r.stderr[-200:]
    try:
        r = run(f"git -C {wt} apply {d / 'patch.diff'}")
        merged = False
        if r.returncode != 0:
            # the patch was written against the tree before a later `fix:` commit: merge it (three-way, the base blobs are in
            # the object database); a conflict means the change and the fix touch the same lines - port it by hand
            r = run(f"git -C {wt} apply --3way {d / 'patch.diff'}")
            merged = r.returncode == 0 and "<<<<<<<" not in run(f"git -C {wt} diff HEAD").stdout
            if not merged:
                r.returncode = 1
                run(f"git -C {wt} checkout -q -- . ; git -C {wt} reset -q --hard HEAD")
        if merged:
            meta["applied_by"] = "three-way merge onto the current tree (the patch predates a fix: commit)"
        else:
            meta.pop("applied_by", None)
        if r.returncode != 0:
            meta["detected_by"] = {"error": "patch does not apply to the current tree"}
            meta["detected"] = False
            msg = "PATCH DOES NOT APPLY"
        else:
            det = {}
            env = dict(os.environ, VERIF_REPO=str(wt), VERIF_SCRATCH=str(scratch))
            scratch.mkdir(parents=True, exist_ok=True)
            for c in checks:
                out = run(f"./check {c} --tier quick", cwd=VERIF, env=env)
                keys = re.findall(r"^VIOLATION property=\S+ replay=\S+\s+\[([^\]]+)\]", out.stdout, flags=re.M)
                det[c] = {"exit": out.returncode, "violation_keys": keys[:6]}
            meta["detected_by"] = det
            meta["detected"] = any(v["exit"] == 1 for v in det.values())
            msg = ("DETECTED " if meta["detected"] else "missed ") + str({c: (v["exit"], v["violation_keys"][:2]) for c, v in det.items()})
    finally:
        run(f"git -C /repo worktree remove --force {wt}")
        shutil.rmtree(wt, ignore_errors=True); shutil.rmtree(scratch, ignore_errors=True)
    meta["what_was_run"] = ("tools/confirm_mutant.py (demo with/without the change, repository test suite with the change) and tools/matrix.py "
                            "(quick checks against a scratch worktree of /repo with the change applied)")
    (d / "meta.json").write_text(json.dumps(meta, indent=1) + "\n")
    return sid, msg


def main():
    from concurrent.futures import ThreadPoolExecutor
    args = sys.argv[1:]
    jobs = 4
    if args[:1] == ["-j"]:
        jobs = int(args[1]); args = args[2:]
    ids = args or sorted(p.name for p in (VERIF / "seeded").iterdir() if (p / "patch.diff").exists() and not json.loads((p / "meta.json").read_text()).get("superseded"))
    Path("/tmp/mx").mkdir(exist_ok=True)
    with ThreadPoolExecutor(jobs) as ex:
        for sid, msg in ex.map(one, ids):
            print(sid, msg, flush=True)
    return 0


if __name__ == "__main__":
    sys.exit(main())
