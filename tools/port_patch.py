#!/usr/bin/env python3
"""Re-express a seeded patch on the current tree when it no longer applies because a later `fix:` commit changed neighbouring
lines: every change group of the patch (consecutive removed/added lines) is located in the current file by its REMOVED lines
(or, for a pure insertion, by the nearest context line before it) and replaced by its added lines.  Fails - and says where -
if a group cannot be located uniquely; nothing is guessed.

usage: tools/port_patch.py <patch.diff> <worktree>      (edits files in the worktree; exit 0 on success)
"""
import re
import sys
from pathlib import Path


def groups_of(hunk_lines):
    """Yield (context_before, removed, added) for each change group of one hunk."""
    ctx, rem, add = [], [], []
    for ln in hunk_lines + [" <end>"]:
        tag, body = ln[:1], ln[1:]
        if tag in "-+":
            (rem if tag == "-" else add).append(body)
        else:
            if rem or add:
                yield list(ctx), rem, add
                rem, add = [], []
            ctx.append(body)


def locate(lines, block, hint):
    n = len(block)
    hits = [i for i in range(len(lines) - n + 1) if lines[i:i + n] == block]
    if not hits:
        return None
    return min(hits, key=lambda i: abs(i - hint))


def main() -> int:
    patch, wt = Path(sys.argv[1]).read_text().split("\n"), Path(sys.argv[2])
    files, cur = {}, None
    for ln in patch:
        m = re.match(r"^\+\+\+ b/(.*)$", ln)
        if m:
            cur = m.group(1)
            files[cur] = []
        elif ln.startswith("@@") and cur:
            start = int(re.match(r"^@@ -(\d+)", ln).group(1))
            files[cur].append((start, []))
        elif cur and files[cur] and ln[:1] in " -+" and not ln.startswith("---"):
            files[cur][-1][1].append(ln)
    for rel, hunks in files.items():
        path = wt / rel
        lines = path.read_text().split("\n")
        shift = 0
        for start, hl in hunks:
            pos = start - 1
            for ctx, rem, add in groups_of(hl):
                if rem:
                    at = locate(lines, rem, pos + shift)
                    if at is None:
                        print(f"cannot locate removed block in {rel}: {rem[:2]}")
                        return 1
                    lines[at:at + len(rem)] = add
                    shift += len(add) - len(rem)
                else:
                    anchor = next((c for c in reversed(ctx) if c.strip()), None)
                    at = locate(lines, [anchor], pos + shift) if anchor is not None else None
                    if at is None:
                        print(f"cannot locate insertion point in {rel} after {anchor!r}")
                        return 1
                    # blank context lines between the anchor and the insertion are kept in front of it
                    k = at + 1
                    trailing = 0
                    for c in reversed(ctx):
                        if c.strip():
                            break
                        trailing += 1
                    k += trailing
                    lines[k:k] = add
                    shift += len(add)
        path.write_text("\n".join(lines))
    return 0


if __name__ == "__main__":
    sys.exit(main())
