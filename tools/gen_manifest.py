#!/usr/bin/env python3
"""Generates /verif/MANIFEST.json from the table below (single source of truth for the interface)."""
import json
import os
from pathlib import Path

VERIF = Path(__file__).resolve().parent.parent

MC = "model_checking"
CLAIMS = {
    "C01": dict(
        engine="PnL.tla + Hedge.tla / TLC -> replay",
        technique="TLA+ account machine (PnL.tla) vs vectorised formula checked by TLC; every terminal state replayed into pl()/terminal_value()/Hedger",
        category=MC, design_ref="DESIGN.md 3 C01",
        text="TLC exhaustively checks that the self-financing account (Trade/Settle actions) ends with the wealth the formula of pl() "
             "prescribes for all inputs of the bounded lattices, and every one of those behaviours is replayed into the real "
             "pl()/terminal_value() (bitwise, float32/64, power-of-two rescalings) and, through Hedge.tla, into a real Hedger "
             "(compute_hedge/compute_portfolio/compute_pl). Exhaustive within the bounds; unbounded values reached only through exact rescaling.",
        note="Trusted: TLC, torch arithmetic on dyadic numbers, the harness' construction of instruments with injected buffers. "
             "Bounds: T<=3 (thorough 4), H<=2 (thorough 3), prices/positions/costs on small-integer lattices."),
    "C02": dict(
        engine="Hedge.tla + HedgePairs.tla / TLC -> replay",
        technique="2-safety by self-composition in TLA+ (HedgePairs.tla), TLC-enumerated perturbation pairs replayed into the real Hedger, bitwise prefix comparison",
        category=MC, design_ref="DESIGN.md 3 C02",
        text="TLC checks non-anticipation as a self-composed invariant over all pairs of lattice paths agreeing up to a cut, the structural "
             "read-set invariant and NoTradeAtMaturity; every emitted pair is run on the real Hedger (both branches, every built-in feature, "
             "linear/ReLU models) and on opaque built-in models over all derivative x underlier types, comparing position prefixes bitwise.",
        note="Trusted: TLC, determinism of torch kernels for equal inputs at equal positions. Bounds: T<=3 (thorough 4), lattice-valued perturbations."),
    "C03": dict(
        engine="Hedge.tla / TLC -> replay + model-input trace",
        technique="TLA+ hedger machine with both evaluation branches and prev_output state checked by TLC; behaviours replayed; recorded model-input trace validated against the machine's rows",
        category=MC, design_ref="DESIGN.md 3 C03",
        text="TLC checks AtEqualsAll, BranchesAgree and PrevIsLastOutput on every (path, configuration) of the bounded model; the real features are "
             "compared form against form, the real Hedger branch against branch (hedge, portfolio, P&L, two criteria), and the inputs recorded by the model "
             "double are validated step by step against the specification's rows (prev_hedge = previous output, zeros of width H first).",
        note="Trusted: TLC, torch. time_to_maturity compared with absolute tolerance 4*eps*(T-1)*dt; everything else bitwise."),

    "C04": dict(
        engine="Risk.tla / TLC -> value replay + axiom replay",
        technique="TLA+ exact-rational definitions with every axiom as a TLC invariant over all lattice samples and pairs; value conformance and axiom replay on the implementation",
        category=MC, design_ref="DESIGN.md 3 C04",
        text="TLC checks monotonicity, cash invariance, convexity, ES homogeneity/monotonicity in p, ERM monotonicity in a and all bounds as invariants over all "
             "integer samples and sample pairs of the lattice in exact arithmetic; the implementation is bound by exact value conformance on every lattice "
             "sample and by evaluating each axiom on the TLC-emitted pairs under rescalings to 1e-6..1e6, large cash shifts and two mixing weights.",
        note="Trusted: TLC, torch. Bounds: N<=4 (thorough 6), lattice {-2,-1,0,1,3}; convexity at weights 1/2 and 1/4; QCVaR within its documented bisection precision. "
             "Known finding: quadratic CVaR on concentrated samples (known_findings.json)."),
    "C05": dict(
        engine="Risk.tla / TLC -> value replay",
        technique="TLA+ exact-rational definitions of every criterion evaluated by TLC on all lattice samples; replay into functional forms (all dims/layouts) and modules",
        category=MC, design_ref="DESIGN.md 3 C05",
        text="Every criterion is defined in Risk.tla from the property text (sorted-sample ES, order-statistic VaR, active-set QCVaR cross-checked against a grid of w, "
             "base-2 entropic quantities, isoelastic on squares, OCE), TLC evaluates them on all lattice samples, and the harness replays each sample in up to six "
             "tensor layouts / dim arguments, with and without target, float64 and float32.",
        note="Trusted: TLC, one log2/exp in the harness. VaR between prescribed points only required monotone. Known finding: quadratic CVaR on concentrated samples."),
    "C06": dict(
        engine="Risk.tla + PriceFlow.tla / TLC -> replay",
        technique="TLA+ certainty equivalents (Risk.tla) and price/loss dataflow machine over fresh draws (PriceFlow.tla) checked by TLC; behaviours replayed into cash() and a real Hedger on scripted markets",
        category=MC, design_ref="DESIGN.md 3 C06",
        text="TLC checks CEBounds and the cash-invariance invariants on all lattice samples and PriceShift/PriceIsLoss/OneDrawPerTime/FreshBuffers on every behaviour of the "
             "price machine; cash() of every criterion (closed forms and the default search, incl. user subclasses, constants, multi-column, target) is compared with the exact "
             "certainty equivalent and with the property's own relations; Hedger.price/compute_loss are compared with the machine's exact price on scripted draws.",
        note="Trusted: TLC, torch, ScriptedPrimary double. Default-search amounts within the documented precision 1e-6."),
    "C07": dict(
        engine="BSModule.tla + BSAlgebra.tla / TLC -> replay into modules and functional forms",
        technique="TLA+ dataflow machine of one pricing-module call (build, acquire inputs in code order, call the formula) checked by TLC against an order-free reference; symbolic homogeneity of the price forms; all terminal states and lattice obligations replayed into the real modules / functional forms",
        category=MC, design_ref="DESIGN.md 3 C07, 4",
        text="PARTIAL: decides the second sentence of the property and the strike scaling. BSModule.tla models, for 4 products x 3 ways of building x 6 methods x every subset of caller-given inputs, where each "
             "formula argument comes from (caller wins, rest from the derivative's simulated state, error without derivative) and which attributes (strike, call flag) reach the formula; TLC checks OutcomeIsReference, "
             "ExplicitWins, NoPartialValue, PassesWhatIsNeeded; every terminal state is replayed on a scripted market and the module's value compared with this product's functional form at the resolved inputs for the "
             "derivative's own strike and flag. BSAlgebra.tla derives the homogeneity degree of every price/Greek from the forms; on the lattice, scaling the strike by 2^j at fixed log-moneyness must scale the value by "
             "2^(j deg). Every module method is compared with the functional form on the whole lattice. NOT decided: equality of the closed forms with the risk-neutral expectation (an integral against the lognormal / "
             "running-maximum law has no exact finite model); C18 decides the same formulas on the t=0 / sigma=0 boundary and C08 the pricing equation through theta/vega/gamma.",
        note="Trusted: TLC, torch. A change of a formula that keeps its homogeneity, its boundary values (C18), its Greeks relations (C08) and its no-arbitrage relations (C09) is not detected by C07."),
    "C08": dict(
        engine="AutoGreek.tla + BSAlgebra.tla / TLC -> replay with generated pricers; lattice obligations on closed forms",
        technique="TLA+ dataflow machine of pfhedge.autogreek with second-order rational jets of polynomial pricers, checked by TLC against exact central differences and replayed; Greek obligations (which derivative, order, sign) enumerated by TLC over a dyadic lattice and evaluated on the closed forms against autograd of the code's own price",
        category=MC, design_ref="DESIGN.md 3 C08, 4",
        text="AutoGreek.tla models which spelling is the differentiation leaf, which dependent spellings are recomputed from it and which arguments reach the pricer, per Greek, "
             "and evaluates polynomial pricers over exact second-order jets; TLC checks PricerCallable, TotalDerivative and JetEqualsCentralDifference for all pricer signatures x caller spellings x points; real pricers with those "
             "signatures are generated and autogreek.delta/gamma/vega/theta and the BSModuleMixin defaults compared with the jets, also with junk lower-priority spellings. "
             "Closed forms: BSAlgebra.tla enumerates, for 4 products x call/put x delta/gamma/vega/theta x every lattice point and running maximum, the obligation 'Greek = sign * d^order price / d var'; each is evaluated "
             "on the functional forms and on the modules against torch.autograd of the code's own price (spot as the leaf, running maximum fixed), relative tolerance 1e-7. On the lattice only; between lattice points nothing is decided.",
        note="Trusted: TLC, torch.autograd (polynomials exactly; erf/exp/log kernels for the closed forms). log-moneyness pricers evaluated at S=K only. The European-binary gamma/vega/theta defect named in the property was found by this check and repaired (fix: fa9ca73)."),
    "C09": dict(
        engine="BSAlgebra.tla / TLC -> lattice obligations evaluated on the functional forms",
        technique="TLA+ symbolic linear forms of the price formulas over opaque atoms (parity, complement, homogeneity, branch continuity checked by TLC as identities); relation obligations enumerated by TLC over a dyadic lattice and evaluated on the real code",
        category="exploration", design_ref="DESIGN.md 3 C09, 4",
        text="PARTIAL: BSAlgebra.tla transcribes the price formulas term by term as integer linear forms over atoms N(d1), N(d2), ...; TLC checks that the implementation-shaped forms (put = call + K - S, binary put = 1 - call, "
             "where() by max < strike) equal the definitions and satisfy put-call parity, the binary complement, homogeneity, equality of the lookback branches at max = strike and American binary = 1 at spot = max = strike. "
             "Every relation C09 names (parity, complement, Greeks of the parity relations, call/put bounds, [0,1], increasing and convex in spot, non-decreasing in volatility and time, lookback >= European and >= locked-in payoff, "
             "American >= European binary and exactly one once reached, continuity at the branch) is enumerated over the lattice and evaluated on pfhedge.nn.functional in float64. Inequalities are decided on the lattice only.",
        note="Trusted: TLC, torch. The machine cannot evaluate erf/exp: relations between lattice points are decided by evaluating the code, not by the model; nothing is claimed between lattice points."),
    "C10": dict(
        engine="Sim.tla + CIR.tla + Heston.tla + Jump.tla / TLC -> path-wise replay with supplied normals; one-step moments on quadrature nodes",
        technique="TLA+ scheme machines (one Step(z) per time step, exact coefficient/rational domains) checked by TLC against closed forms for every sequence of supplied normals; CIR moment machine (tower law) checked against the closed-form mean-reverting mean and variance; real generators replayed on exactly those normals / on Gauss-Hermite and Gauss-Laguerre nodes",
        category=MC, design_ref="DESIGN.md 3 C10, 4",
        text="PARTIAL: decides the path-wise half of the property and the CIR/Heston variance moments. Sim.tla models Brownian, geometric Brownian, Merton (with supplied jump counts), Vasicek (exact OU transition) and local-volatility Euler "
             "schemes; TLC checks BrownianClosedForm, OUClosedForm, EulerMartingale, JumpFreeReduction for all normal sequences of the bounded model; the real generators are run on those normals "
             "(engine argument, or randn_like / Poisson.sample replaced for one call) and whole paths compared; Merton and Kou at zero intensity must equal the diffusion on the same normals. "
             "CIR.tla: exact rational conditional moments m(v), s2(v), psi and the branch of the quadratic-exponential scheme with exp(-kappa dt) as a rational parameter; TLC checks that propagating them by the tower law gives the "
             "closed-form mean-reverting mean and variance from any starting value (MeanClosedForm, VarClosedForm) and that the exponential mixture reproduces m and psi m^2 (ExpBranchMatches); one real step of generate_cir and "
             "generate_heston from each lattice value is run on quadrature nodes (3 Gauss-Hermite normals: V' is quadratic in Z; 2 Gauss-Laguerre nodes mapped to uniforms; probes around the atom at zero) and its exact "
             "conditional mean and variance compared with m and s2 at 1e-9. Heston.tla: the log-price step derived from the SDE vs the coefficients k0..k4 (ImplementationIsDerivation, ReturnFollowsVarianceWithSignOfRho, "
             "ZeroRhoDecouples), replayed into generate_heston / HestonStock on supplied normals. Jump.tla: mean and variance of one Merton / Kou step conditional on the jump count (Kou: also on the number of upward jumps, mixed by BinomialMixing), propagated by the tower law with Poisson moments to the documented log-variance (sigma^2 + lambda E[J^2]) t (LogVarianceDocumented, MeanExcessDocumented, JumpFreeIsDiffusion); the real generators are run with supplied jump counts on Gauss-Hermite / Gauss-Laguerre nodes (sizes scaled by the mean the generator's own Exponential declares, directions decided around the documented up-probability, Poisson rate = lambda dt) and the exact conditional moments compared at 1e-11. Sample-estimate statements (price means of Heston / rough Bergomi, Heston correlation size, rough-Bergomi forward variance) are NOT decided.",
        note="Trusted: TLC, torch; public torch functions (randn_like, rand_like, Poisson.sample) replaced for one call. dt is handed to the CIR generators as a float64 tensor because Python-float parameters pass through float32 inside them."),
    "C11": dict(
        engine="Market.tla / TLC -> replay on real primaries and generators",
        technique="TLA+ buffer-replacement machine and contract table of the eight primary kinds explored by TLC; histories replayed on real instruments with projection after every simulate(); generator contract sweep",
        category=MC, design_ref="DESIGN.md 3 C11",
        text="TLC checks UniformShape, NothingSurvives and SimulateReplacesAll on every history of repeated simulate(n_paths, steps, default/custom initial state) per primary kind; each history is executed on the "
             "real primary in several parameter regimes (incl. high vol-of-vol / low variance) and dtypes, projecting shape, dtype, first column, finiteness, sign class, volatility^2=variance and replacement after "
             "every call; the nine generators are checked against the same contract. Finiteness/sign are judged on seeded random draws (exploration level for that part).",
        note="Trusted: TLC, torch. Known findings: generate_rough_bergomi / RoughBergomiStock with a single time point raise."),
    "C12": dict(
        engine="Payoff.tla + Grid.tla / TLC -> replay",
        technique="TLA+ contractual payoffs and clause-pipeline machine checked by TLC (orderings, registration-order fold); every terminal state replayed into payoff functions and derivative classes",
        category=MC, design_ref="DESIGN.md 3 C12",
        text="Contracts are written in Payoff.tla from the property text; TLC checks the ordering relations and that the clause machine (OrderedDict replacement semantics) "
             "equals the left fold in registration order, over all lattice paths (T=1..4), strikes at/between/outside lattice points, call/put, start indices and 15 clause "
             "sequences; each terminal state is replayed into the functional payoffs and the derivative classes over injected buffers; start indices over Grid.tla's menu. "
             "Registry.tla (clauses / underliers / listing with the implementation's name validation) is checked on its whole finite state space and its histories are replayed into a real derivative "
             "after every operation; every payoff computed in the repository's own tests is judged by the contracts (suite oracle).",
        note="Trusted: TLC, torch. Prices on {1,2,4} (powers of two make ratios and log-returns exact); variance swap through ln(2)^2."),
    "C13": dict(
        engine="Grid.tla / TLC -> replay",
        technique="TLA+ exact-rational time grid (Steps, TTM, start index) checked by TLC over a (dt, k, fraction) menu; replayed into all primaries and option types with float spellings of M and dt",
        category=MC, design_ref="DESIGN.md 3 C13",
        text="Grid.tla defines ceil(M/dt)+1, (T-1-i)dt modulo T and floor(start/dt) over rationals and TLC checks the grid invariants for M=(k+f)dt, k=1..60 (thorough ..260 and large), "
             "10 step sizes, 5 fractions; the harness passes the floats a user would type to the real instruments and compares buffer shapes, time_to_maturity(i|None), hedge and payoff shapes.",
        note="Trusted: TLC, torch. time to maturity within 4*eps*(T-1)*dt, exact zero at the end; BrownianStock on all cases, the other 7 primaries on every 11th."),
    "C14": dict(
        engine="Grad.tla / TLC -> exact gradient replay + finite differences",
        technique="TLA+ forward-mode dual-number evaluation of the specified hedging loss (exact rationals) enumerated by TLC; real loss and back-propagated gradient compared exactly; grad-mode protocol; finite differences for non-rational criteria",
        category=MC, design_ref="DESIGN.md 3 C14",
        text="Grad.tla differentiates the specification's own loss (features, linear/ReLU model with recurrent prev_hedge, positions, costs, P&L, ES / mean / MSE / OCE criteria) with respect to all "
             "parameters in exact dual-number arithmetic for every generic lattice market; the real Hedger's loss and torch.autograd gradient must be equal to it component by component in both "
             "evaluation branches and in train/eval module mode; price()/compute_loss(enable_grad=False) must carry no graph; entropic risk, quadratic CVaR, entropic loss, OCE(exp), MSE are "
             "compared with central differences on the same paths for MLP models, H in {1,2}, costs 0 and positive.",
        note="Trusted: TLC, torch forward arithmetic. Models of the exact part are integer-weight linear/ReLU; non-generic points excluded; finite differences at relative 2e-4."),
    "C15": dict(
        engine="Fit.tla + FitTrace.tla / TLC -> trace validation + reference loop",
        technique="TLA+ protocol automaton of fit() model-checked for every configuration; real fit() runs with recording doubles validated event by event by TLC (FitTrace.tla); final parameters/history compared with an explicit reference loop",
        category=MC, design_ref="DESIGN.md 3 C15",
        text="TLC checks StepsEqualEpochs, ExactlyKSteps, NoAccumulation, ParamsChangeOnlyInStep, mode/grad invariants, HistoryLength, SimulationCount and termination over all 384 configurations; "
             "the real fit() is run for every configuration with a recording optimiser/model/primary and FitTrace.tla accepts the trace only if every event with its arguments, flags and observed "
             "parameter version is explained; parameters and history must equal, bitwise, an explicit simulate/loss/backward/step loop on the same draws (scripted) and under the same seed (real primaries, Adam, MLP).",
        note="Trusted: TLC, torch, the doubles (public extension points only). Backward is inferred (no observable event). Parametrised criteria are not trained by the constructed optimiser: modelled as the code behaves."),
    "C16": dict(
        engine="Session.tla + SessionTrace.tla / TLC -> replay + trace validation + fresh-market oracle",
        technique="TLA+ session machine with versions of buffers, parameters, clauses, listings, contract terms and cost rates and a result memo; TLC interleavings replayed on real objects with content hashes, compared with a fresh hedger and with a freshly built market; recorded sessions validated by TLC (SessionTrace.tla)",
        category=MC, design_ref="DESIGN.md 3 C16",
        text="TLC checks Purity, Locality, FreshOnSimulate, ParamsChangeOnlyInFit and HistoryIndependent over all interleavings of the public operations (simulate, payoff, features, listed price, "
             "compute_hedge/portfolio/pl, compute_loss, price, fit, add_clause, re-listing, re-striking, changing the cost rate) to bounded depth; the interleavings are executed on real "
             "instruments with nine hedger kinds, hashing every buffer after every operation and comparing every read-only result bitwise with a fresh hedger holding the same parameters AND with "
             "the same operation in a freshly built market of the current configuration carrying copies of the current series; seeded random sessions recorded at public entry points are "
             "accepted by SessionTrace.tla only if every line (versions, result ids) is explained; re-configured objects against fresh ones; one feature object bound to several derivatives; "
             "long-lived hedgers through dtype histories (Dtype.tla behaviours); an argument-purity sweep over the public API; purity of the repository's own tests through a recorder plugin.",
        note="Trusted: TLC, SHA-1 content hashes, torch determinism for equal inputs. Depth 3 exhaustive (sampled for replay) + simulated depth 10. Black-Scholes / Whalley-Wilmott models copy the strike of the derivative they are built from: re-striking that derivative ends the judged part of an interleaving for those kinds."),
    "C17": dict(
        engine="Dtype.tla + DtypeTrace.tla / TLC -> replay + trace validation",
        technique="TLA+ dtype state machine explored exhaustively (full reachable graph); all bounded histories replayed on real instruments with the state compared after every operation; recorded traces validated by TLC (DtypeTrace.tla)",
        category=MC, design_ref="DESIGN.md 3 C17",
        text="TLC explores the complete reachable graph of the dtype machine (1066 states, 84k transitions) with Contract and four action properties; every history of length 3 (thorough 4) and simulated "
             "histories of length 7 over the full alphabet are executed on real BrownianStock/HestonStock/EuropeanOption objects with the projected state compared after every call and the dtype of "
             "payoff/features/listed price/hedge/P&L/loss/cash compared at the end; seeded random real runs are validated line by line by DtypeTrace.tla.",
        note="Trusted: TLC, torch. CPU only (device modelled, not exercised). Half-precision backend gaps end the judged part of a history."),
    "C18": dict(
        engine="BSCases.tla / TLC -> replay on representatives",
        technique="TLA+ abstract machine over IEEE special values x exact linear forms, formula DAGs of the bs_* functions transcribed and evaluated by TLC for every boundary case; replay on concrete representatives; hedger finiteness",
        category=MC, design_ref="DESIGN.md 3 C18",
        text="TLC evaluates the transcribed DAGs (d1/d2 guards, 0/0 guards, where-selection) over nan/inf/sign classes and linear forms in S, K, M for all 24 boundary cases and checks NoNaN, "
             "PriceIsIntrinsic and DeltaLimit; every case is replayed on concrete representatives (3 strikes, |log-moneyness| 0.1..50, exact and tiny zeros, mixed tensors) into 19 functional/module "
             "entry points against the exact limit; negative arguments must raise ValueError; BlackScholes and WhalleyWilmott hedgers must be finite on 4 option types x 2 underliers incl. paths ending at the strike.",
        note="Trusted: TLC, the transcription of the formula DAGs (updated together with the two fix: commits). Known finding: bs_lookback_delta (an automatic derivative) is NaN at t=0/v=0."),
    "C19": dict(
        engine="Bisect.tla (PlusCal) / TLC -> exact trajectory replay",
        technique="PlusCal algorithm of bisect() model-checked over all monotone tables on a grid (safety + termination); every behaviour replayed with the evaluation-point trajectory compared exactly; postcondition on continuous families and implied volatility",
        category=MC, design_ref="DESIGN.md 3 C19",
        text="TLC explores every behaviour of the bisection algorithm (bracket check, direction test with reflection, midpoint with round-half-even at float resolution, "
             "element-wise update, max_iter abort) for all monotone tables/targets/precisions of the bounded grid and checks Bracketed, WithinPrecision, IterationCount, "
             "AbortOnlyWhenStuck, ElementwiseIndependent and Termination; the real bisect() must produce exactly the same evaluation points, result and error class; the "
             "postcondition is then evaluated on 7 continuous monotone families with known inverses and on implied-volatility round trips of all four option types.",
        note="Trusted: TLC/PlusCal translator, torch. Grid of 9 (thorough 17) points, E<=2 (3) elements. Ill-conditioned implied-vol cases (price change below 1e3 ulp) skipped and counted."),
    "C20": dict(
        engine="Clamp.tla + WW.tla / TLC -> replay",
        technique="TLA+ case analysis vs max/min/where pipeline (Clamp.tla), band step and exact cube-relation tuples, helper formulas on exact lattices (WW.tla), checked by TLC and replayed bitwise into functions and modules",
        category=MC, design_ref="DESIGN.md 3 C20",
        text="TLC checks PipelineIsCases/ClampCases/SlopeLimits over all lattice inputs, bounds (absent, tied, inverted), slopes and both modes, and the band/width/bilerp properties; all cases are replayed "
             "into clamp, leaky_clamp, Clamp, LeakyClamp (scalar and tensor bounds, float32/64), WhalleyWilmott with a scripted Black-Scholes stub and with the real one, ww_width, svi_variance/SVIVariance, bilerp, box_muller, realized_volatility.",
        note="Trusted: TLC, torch. The helpers are single pure functions: the specification is an exact independent transcription on lattices where the result is exactly representable."),
}

NOT_APPLICABLE = []


# What rounds 9-10 added to the replay side of each check (DESIGN.md 7), appended to the level note.
ADDED = {
    "C01": "one call on 2e7 price points against chunks; one long-lived hedger through re-strike / clause / cost change / re-simulation / an aborted call / replaced inputs.",
    "C02": "hedging instruments with a shorter series than the underlier; quotes that start at or below zero; a model without a finite hedge ratio at some steps.",
    "C03": "interrupted stepping of one bound feature; time features at a non-dyadic step in double precision; stepping by hand through get_input.",
    "C04": "axioms on the criterion modules with re-assigned parameters; batch independence over columns of very different spreads.",
    "C06": "entropic-risk cash far beyond the exp range; OCE on the default search; single-precision samples of level >= 16 (defect repaired); amounts independent of gradient recording.",
    "C07": "broadcasting incl. 1-D strikes; Python-number strikes on the whole lattice; modules against the state read off raw series; BlackScholes(d) rebuilt after re-configuration.",
    "C08": "Greek obligations on a second lattice (short-dated, low-priced); all modules of a product alive at once; broadcasting and Python-number strikes for the Greeks.",
    "C09": "broadcasting and Python-number strikes on the lattice; modules rebuilt after re-configuration.",
    "C10": "Jump.tla moments on quadrature nodes; the antithetic engine on supplied normals.",
    "C11": "horizons between grid points (Market.tla in half steps); half precision for every kind and generator; no dtype requested with double-precision scalar initial states; sigma(t) surfaces.",
    "C12": "attribute reads of underlier names in Registry.tla (defect repaired); prices one unit in the last place from the strike.",
    "C13": "time features incl. negative steps; the grid after hedging with a listed option of another maturity.",
    "C14": "updates of optimiser-owned parameters outside the model; Dropout with a re-seeded stream; failed evaluations restore the grad mode.",
    "C15": "non-finite criterion values; lazy models with a hedge list (defect repaired); one stateful optimiser shared by two hedgers; the hedger called directly before fit().",
    "C16": "Abort as an action of Session.tla; held series never written into; series shared by two instruments; models of another dtype than the series.",
    "C17": "long-lived hedgers evaluated for all steps at once across casts; constructors with non-floating dtypes.",
    "C18": "negative zero (defect repaired) and next-to-the-strike representatives; negative arguments rejected after failed calls.",
    "C19": "implied volatility with an unreachable precision must stop (watchdog); targets of another dtype than the bracket.",
    "C20": "inputs far outside the interval; Whalley-Wilmott at the gamma singularity with and without cost (defect repaired); helper modules re-configured after use.",
}


def main() -> None:
    checks = []
    for pid, c in sorted(CLAIMS.items()):
        checks.append({
            "property_id": pid,
            "quick_cmd": f"./check {pid} --tier quick",
            "thorough_cmd": f"./check {pid} --tier thorough",
            "evidence_file": f"/verif/evidence/{pid}.json",
            "replay_cmd_template": f"./check {pid} --replay {{path}}",
            "engine": c["engine"],
            "level_claimed": {"category": c["category"], "text": c["text"], "design_ref": c["design_ref"]},
            "level_note": c["note"] + (" Added in rounds 9-10: " + ADDED[pid] if pid in ADDED else ""),
            "technique": c["technique"],
        })
    claimed = set(CLAIMS)
    na = list(NOT_APPLICABLE)
    for i in range(1, 21):
        pid = f"C{i:02d}"
        if pid not in claimed and not any(n["property_id"] == pid for n in na):
            na.append({"property_id": pid, "reason": "check not built yet in this round (planned, see DESIGN.md 3); not claimed until its minimum viable version exists"})
    manifest = {
        "version": 1,
        "setup_cmd": "./setup.sh",
        "hooks": {
            "guard": "PFHEDGE_VERIF",
            "enable": "no source hooks in /repo: observation uses public extension points (BasePrimary/Module/Optimizer subclasses) and a /verif-side recorder enabled by PFHEDGE_VERIF=1",
            "baseline_off_cmd": "cd /repo && /venv/bin/python -m pytest -ra -q -p no:cacheprovider --timeout=900 --continue-on-collection-errors",
            "source_commits": [],
            "add_only": True,
        },
        "engines": [
            {"name": "tlc", "path": "/verif/lib/tlc.py", "serves_properties": sorted(claimed),
             "kind_free_text": "TLC 1.8 explicit-state model checking of the TLA+ modules in /verif/spec (exhaustive configs, -simulate, trace validation)"},
            {"name": "replay", "path": "/verif/checks", "serves_properties": sorted(claimed),
             "kind_free_text": "conformance harness: TLC-emitted behaviours replayed into the real pfhedge code / recorded traces validated by TLC"},
        ],
        "checks": checks,
        "not_applicable": sorted(na, key=lambda n: n["property_id"]),
        "notes": "Model-based verification with an explicit TLA+ specification (spec/), bound to the implementation by replay and trace validation. "
                 "Known findings: known_findings.json. Seeded regressions: seeded/.",
    }
    (VERIF / "MANIFEST.json").write_text(json.dumps(manifest, indent=1) + "\n")
    print("MANIFEST.json:", len(checks), "checks,", len(na), "not applicable")


if __name__ == "__main__":
    main()
