#!/bin/sh
# usage: tools/ingest.sh <PID> <round-suffix> <letterA> <nameA> <needsA> <letterB> <nameB> <needsB>
# Copies a sub-agent's deliverables out of its worktree, confirms both variants, runs the matrix on them, removes the worktree.
pid=$1; r=$2; la=$3; na=$4; wa=$5; lb=$6; nb=$7; wb=$8
src=/tmp/wt/${pid}${r}/_out; dst=/tmp/mut/${pid}${r}
mkdir -p "$dst"; cp -r "$src"/* "$dst"/ 2>/dev/null
cd /verif || exit 2
python3 tools/confirm_mutant.py "${pid}-${la}-${na}" "$pid" "$dst/A.diff" "$dst/demo_A.py" "$wa" 2>&1 | cut -c1-160
python3 tools/confirm_mutant.py "${pid}-${lb}-${nb}" "$pid" "$dst/B.diff" "$dst/demo_B.py" "$wb" 2>&1 | cut -c1-160
python3 tools/matrix.py -j 2 "${pid}-${la}-${na}" "${pid}-${lb}-${nb}" 2>&1 | cut -c1-400
git -C /repo worktree remove --force /tmp/wt/${pid}${r} 2>/dev/null
