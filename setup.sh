#!/bin/sh
# Offline setup: parse every specification module with SANY, translate PlusCal, byte-compile the harness.
cd "$(dirname "$0")" || exit 2
set -e
CP=/opt/veriftools/tla/tla2tools.jar:/opt/veriftools/tla/CommunityModules-deps.jar
cd spec
for f in *.tla; do
  if grep -q -- '--algorithm\|--fair algorithm' "$f" && ! grep -q 'BEGIN TRANSLATION' "$f"; then
    java -cp $CP pcal.trans -nocfg "$f" >/dev/null
  fi
done
fail=0
for f in MC_*.tla *Trace.tla; do
  [ -f "$f" ] || continue
  out=$(java -cp $CP tla2sany.SANY "$f" 2>&1) || true
  if echo "$out" | grep -q 'Semantic errors\|Parse Error\|Fatal errors\|Could not find module'; then
    echo "SANY rejects $f"; echo "$out" | tail -20; fail=1
  fi
done
cd ..
/venv/bin/python -m compileall -q lib checks tools >/dev/null
mkdir -p evidence .work
[ $fail -eq 0 ] && echo "setup ok"
exit $fail
