SPECIFICATION Spec
CONSTANTS
  PlainNames <- Plain
  AttrNames <- Attrs
  Fns <- F2
  Prims <- P2
  MaxDepth <- Unbounded
INVARIANT TypeOK
INVARIANT NamesUnique
INVARIANT FirstUnderlierStays
INVARIANT ListingConsistent
INVARIANT ClauseNamesStayUsable
INVARIANT AttributeReadsRegistry
PROPERTY SetAttrIsRegister
PROPERTY RejectedIsNoop
PROPERTY KeepsPlace
PROPERTY Separate
CHECK_DEADLOCK FALSE
VIEW state
