----------------------------- MODULE Features -----------------------------
(* Built-in input features of pfhedge, defined twice and on purpose in two  *)
(* different ways:                                                          *)
(*   At(f, i, m, prev)  the value the feature has when it is asked for the  *)
(*                      single time step i (0-based), written so that only  *)
(*                      columns 0..i of the simulated buffers are mentioned *)
(*   All(f, m)          the value for all steps at once, written the way a  *)
(*                      vectorised implementation computes it (running      *)
(*                      maxima, differences of a time axis)                 *)
(* Reads(f, i) is the set of <<buffer, column>> pairs At(f, i) may depend   *)
(* on.  A market m is ONE simulated path: m.spot, m.var are sequences of    *)
(* length T (1-based in TLA+, column j = time step j-1).                    *)
(* Values are exact rationals (Rat.tla).  Logarithmic features are given in *)
(* units of ln 2: the lattices for them are powers of two, so log2 is an    *)
(* integer and the harness multiplies by ln 2 (one elementary function).    *)
EXTENDS Rat, FiniteSets

CONSTANTS T,        \* number of time points
          K,        \* strike of the hedged option (a power of two)
          DtNum, DtDen,   \* step size dt = DtNum / DtDen
          H         \* number of hedging instruments (width of prev_hedge)

Dt == Q(DtNum, DtDen)

ISqrt(v)  == CHOOSE r \in 0..8 : r * r = v
IsPow2(q) == \E k \in 0..8 : q = <<IPow(2, k), 1>> \/ q = <<1, IPow(2, k)>>
Log2(q)   == IF q[2] = 1 THEN CHOOSE k \in 0..8 : IPow(2, k) = q[1]
                         ELSE -(CHOOSE k \in 0..8 : IPow(2, k) = q[2])

FeatureNames == {"moneyness", "log_moneyness", "max_moneyness", "max_log_moneyness",
                 "time_to_maturity", "expiry_time", "volatility", "variance",
                 "underlier_spot", "underlier_log_spot", "spot", "log_spot", "zeros", "ones",
                 "barrier_up_2", "barrier_up_3", "barrier_dn_2", "barrier_dn_3",
                 "prev_hedge", "module_a", "module_prev"}

LogFeatures == {"log_moneyness", "max_log_moneyness", "underlier_log_spot", "log_spot"}

Width(f)      == IF f = "prev_hedge" THEN H ELSE 1
StateDep(f)   == f \in {"prev_hedge", "module_prev"}
StateDepList(fs) == \E k \in 1..Len(fs) : StateDep(fs[k])

\* ------------------------------------------------------------------ market accessors
Mny(m, j)     == Q(m.spot[j], K)
Listed(m, j)  == 4 * m.spot[j]          \* price of the (listed) derivative itself: pricer = 4 * underlier spot
BarrierTh(f)  == IF f \in {"barrier_up_2", "barrier_dn_2"} THEN 2 ELSE 3
BarrierUp(f)  == f \in {"barrier_up_2", "barrier_up_3"}

\* prefix extrema, written with sets (single-step form)
PrefixMax(m, j) == CHOOSE x \in {m.spot[k] : k \in 1..j} : \A y \in {m.spot[k] : k \in 1..j} : y <= x
PrefixMin(m, j) == CHOOSE x \in {m.spot[k] : k \in 1..j} : \A y \in {m.spot[k] : k \in 1..j} : x <= y
\* running extrema, written as a scan (all-steps form)
RECURSIVE RunMax(_, _)
RunMax(m, j) == IF j = 1 THEN m.spot[1] ELSE IMax(RunMax(m, j - 1), m.spot[j])
RECURSIVE RunMin(_, _)
RunMin(m, j) == IF j = 1 THEN m.spot[1] ELSE IMin(RunMin(m, j - 1), m.spot[j])

\* the two fixed ModuleOutput features: Linear(2, 1) over (moneyness, time_to_maturity) with
\* weight (2, -1), bias 1; Linear(H + 1, 1) over (prev_hedge, variance) with weights 1 and bias 0
ModA(mny, ttm)  == RAdd(RAdd(RMul(R(2), mny), RNeg(ttm)), R(1))
ModPrev(prev, v) == RAdd(RSum(prev), R(v))

\* ------------------------------------------------------------------ single-step form
\* i is the 0-based time step; j = i + 1 the 1-based column
At(f, i, m, prev) ==
  LET j == i + 1 IN
  CASE f = "moneyness"          -> <<Mny(m, j)>>
    [] f = "log_moneyness"      -> <<R(Log2(Mny(m, j)))>>
    [] f = "max_moneyness"      -> <<Q(PrefixMax(m, j), K)>>
    [] f = "max_log_moneyness"  -> <<R(Log2(Q(PrefixMax(m, j), K)))>>
    [] f = "time_to_maturity"   -> <<RMul(R(T - 1 - i), Dt)>>
    [] f = "expiry_time"        -> <<RMul(R(T - 1 - i), Dt)>>
    [] f = "volatility"         -> <<R(ISqrt(m.var[j]))>>
    [] f = "variance"           -> <<R(m.var[j])>>
    [] f = "underlier_spot"     -> <<R(m.spot[j])>>
    [] f = "underlier_log_spot" -> <<R(Log2(R(m.spot[j])))>>
    [] f = "spot"               -> <<R(Listed(m, j))>>
    [] f = "log_spot"           -> <<R(Log2(R(Listed(m, j))))>>
    [] f = "zeros"              -> <<RZero>>
    [] f = "ones"               -> <<ROne>>
    [] f \in {"barrier_up_2", "barrier_up_3"} -> <<IF PrefixMax(m, j) >= BarrierTh(f) THEN ROne ELSE RZero>>
    [] f \in {"barrier_dn_2", "barrier_dn_3"} -> <<IF PrefixMin(m, j) <= BarrierTh(f) THEN ROne ELSE RZero>>
    [] f = "prev_hedge"         -> prev
    [] f = "module_a"           -> <<ModA(Mny(m, j), RMul(R(T - 1 - i), Dt))>>
    [] f = "module_prev"        -> <<ModPrev(prev, m.var[j])>>

\* ------------------------------------------------------------------ all-steps form
TimeAxis(j) == RMul(R(j - 1), Dt)                  \* arange(T) * dt
AllCol(f, m, j) ==
  CASE f = "moneyness"          -> Mny(m, j)
    [] f = "log_moneyness"      -> R(Log2(Mny(m, j)))
    [] f = "max_moneyness"      -> Q(RunMax(m, j), K)
    [] f = "max_log_moneyness"  -> R(Log2(Q(RunMax(m, j), K)))
    [] f = "time_to_maturity"   -> RSub(TimeAxis(T), TimeAxis(j))
    [] f = "expiry_time"        -> RSub(TimeAxis(T), TimeAxis(j))
    [] f = "volatility"         -> R(ISqrt(m.var[j]))
    [] f = "variance"           -> R(m.var[j])
    [] f = "underlier_spot"     -> R(m.spot[j])
    [] f = "underlier_log_spot" -> R(Log2(R(m.spot[j])))
    [] f = "spot"               -> R(Listed(m, j))
    [] f = "log_spot"           -> R(Log2(R(Listed(m, j))))
    [] f = "zeros"              -> RZero
    [] f = "ones"               -> ROne
    [] f \in {"barrier_up_2", "barrier_up_3"} -> IF RunMax(m, j) >= BarrierTh(f) THEN ROne ELSE RZero
    [] f \in {"barrier_dn_2", "barrier_dn_3"} -> IF RunMin(m, j) <= BarrierTh(f) THEN ROne ELSE RZero
    [] f = "module_a"           -> ModA(Mny(m, j), RSub(TimeAxis(T), TimeAxis(j)))
All(f, m) == [j \in 1..T |-> AllCol(f, m, j)]

\* ------------------------------------------------------------------ read sets
Reads(f, i) ==
  LET j == i + 1 IN
  CASE f \in {"moneyness", "log_moneyness", "underlier_spot", "underlier_log_spot", "spot", "log_spot"}
                                  -> {<<"spot", j>>}
    [] f \in {"max_moneyness", "max_log_moneyness", "barrier_up_2", "barrier_up_3", "barrier_dn_2", "barrier_dn_3"}
                                  -> {<<"spot", k>> : k \in 1..j}
    [] f \in {"volatility", "variance"} -> {<<"var", j>>}
    [] f = "module_a"             -> {<<"spot", j>>}
    [] f = "module_prev"          -> {<<"var", j>>}
    [] OTHER                      -> {}

AgreeOn(mA, mB, rs) == \A r \in rs : IF r[1] = "spot" THEN mA.spot[r[2]] = mB.spot[r[2]]
                                                      ELSE mA.var[r[2]] = mB.var[r[2]]
=============================================================================
