----------------------------- MODULE MC_Registry -----------------------------
EXTENDS Registry
Plain     == {"c1", "c2", "underlier"}       \* "underlier" is the name the constructor registers
Attrs     == {"strike", "payoff"}            \* an instance attribute and a method of the object
F2        == {[id |-> "f1", a |-> 2, b |-> 1], [id |-> "f2", a |-> 3, b |-> 0]}
P2        == {"p1", "p2"}
Unbounded == 1000000
=============================================================================
