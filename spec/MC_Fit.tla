------------------------------- MODULE MC_Fit -------------------------------
EXTENDS Fit
AllConfigs == [k : 0..3, n : {2, 3}, ntimes : 1..3, validation : BOOLEAN, optclass : BOOLEAN, lazy : BOOLEAN, init : {"default", "custom"}, pre_eval : BOOLEAN, extra : {FALSE}, stale : BOOLEAN]
AllConfigsT == [k : 0..6, n : {1, 2, 3}, ntimes : 1..3, validation : BOOLEAN, optclass : BOOLEAN, lazy : BOOLEAN, init : {"default", "custom"}, pre_eval : BOOLEAN, extra : {FALSE}, stale : BOOLEAN]
=============================================================================
