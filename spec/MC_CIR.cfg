SPECIFICATION Spec
CONSTANTS
  Thetas <- ThetasA
  Kappas <- KappasA
  Sig2s <- Sig2sA
  V0s <- V0sA
  Es <- EsA
  N = 2
INVARIANT MeanClosedForm
INVARIANT VarClosedForm
INVARIANT QuadraticSolvable
INVARIANT ExponentialAdmissible
INVARIANT ExpBranchMatches
INVARIANT Emit
PROPERTY MeanMovesTowardsTheta
PROPERTY Terminates
CHECK_DEADLOCK FALSE
