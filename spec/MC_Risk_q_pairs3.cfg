SPECIFICATION Spec
CONSTANTS
  N = 3
  Lattice <- LatA
  PSeq <- PFew
  LamSeq <- LamFew
  Mode = "pairs"
  EmitMod = 97
  EmitRes = 0
CHECK_DEADLOCK FALSE
INVARIANT Emit
INVARIANT ESMonotone
INVARIANT ESConvex
INVARIANT QMonotone
INVARIANT QConvexHalf
INVARIANT ERMMonotone
INVARIANT ERMConvex
INVARIANT ELossMonotone
INVARIANT ELossConvex
