-------------------------- MODULE MC_HedgePairs --------------------------
EXTENDS HedgePairs
Cfg(feats, kind, W, B, cost, call) ==
  [feats |-> feats, kind |-> kind, W |-> W, B |-> B, cost |-> cost, call |-> call]
SingleNames == FeatureNames \ {"prev_hedge", "module_prev"}
Singles1 == {Cfg(<<f>>, "linear", << <<2>> >>, <<1>>, <<1>>, TRUE) : f \in SingleNames}
VarSingles == {Cfg(<<f>>, "linear", << <<2>> >>, <<1>>, <<1>>, TRUE) : f \in {"volatility", "variance"}}
NoVarSingles == Singles1 \ VarSingles
PairCombos1 == {
  Cfg(<<"moneyness", "time_to_maturity", "volatility", "prev_hedge">>, "linear", << <<1, 2, -1, 1>> >>, <<0>>, <<1>>, TRUE),
  Cfg(<<"max_moneyness", "barrier_up_3", "module_prev">>, "relu", << <<2, 3, -1>> >>, <<0>>, <<1>>, TRUE),
  Cfg(<<"max_log_moneyness", "barrier_dn_2", "underlier_log_spot">>, "linear", << <<1, -2, 1>> >>, <<1>>, <<>>, FALSE)
}
AllPairs1 == Singles1 \cup PairCombos1
PairCombos2 == {
  Cfg(<<"moneyness", "variance">>, "linear", << <<1, 2>>, <<-1, 1>> >>, <<0, 1>>, <<1, 2>>, TRUE),
  Cfg(<<"max_moneyness", "volatility">>, "relu", << <<2, -1>>, <<-1, 3>> >>, <<0, -1>>, <<2, 0>>, FALSE),
  Cfg(<<"moneyness", "variance", "prev_hedge">>, "linear", << <<1, 2, 1, 0>>, <<-1, 1, 1, -1>> >>, <<0, 1>>, <<1, 2>>, TRUE)
}
=============================================================================
