SPECIFICATION Spec
CONSTANTS
  Prims <- P2
  Derivs <- D3
  UL <- UL3
  Hedgers <- H1
  StateDep <- SD1
  Paths = {2,3}
  MaxDepth = 4
INVARIANT HistoryIndependent
INVARIANT CarriedStateIsOwn
INVARIANT Emit
PROPERTY Purity
PROPERTY AbortLeavesNothing
PROPERTY CompletedOverwritesAborted
PROPERTY Locality
PROPERTY FreshOnSimulate
PROPERTY ParamsChangeOnlyInFit
CHECK_DEADLOCK FALSE
