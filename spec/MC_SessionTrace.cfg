SPECIFICATION TSpec
CONSTANTS
  Prims <- P2
  Derivs <- D3
  UL <- UL3
  Hedgers <- H2
  StateDep <- SD2
  Paths = {2, 3}
  MaxDepth <- Unbounded
INVARIANT HistoryIndependent
CONSTRAINT Progress
POSTCONDITION Accepted
CHECK_DEADLOCK FALSE
