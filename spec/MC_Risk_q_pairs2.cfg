SPECIFICATION Spec
CONSTANTS
  N = 2
  Lattice <- LatA
  PSeq <- PAll
  LamSeq <- LamAll
  Mode = "pairs"
  EmitMod = 7
  EmitRes = 0
CHECK_DEADLOCK FALSE
INVARIANT Emit
INVARIANT ESMonotone
INVARIANT ESConvex
INVARIANT QMonotone
INVARIANT QConvexHalf
INVARIANT ERMMonotone
INVARIANT ERMConvex
INVARIANT ELossMonotone
INVARIANT ELossConvex
