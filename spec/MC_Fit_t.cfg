SPECIFICATION Spec
CONSTANTS
  Configs <- AllConfigsT
INVARIANT StepsEqualEpochs
INVARIANT ExactlyKSteps
INVARIANT NoAccumulation
INVARIANT TrainForwardInTrainMode
INVARIANT ValidationInEvalMode
INVARIANT HistoryLength
INVARIANT SimulationCount
PROPERTY ParamsChangeOnlyInStep
PROPERTY Terminates
CHECK_DEADLOCK FALSE
