SPECIFICATION Spec
CONSTANTS
  T = 4
  H = 1
  K = 2
  DtNum = 1
  DtDen = 4
  Spots = {1,2,4}
  Vars = {1,4}
  Spots2 = {1}
  Configs <- Combos1
  EmitMod = 1
  EmitRes = 0
INVARIANT HedgeIsRef
INVARIANT BranchesAgree
INVARIANT NoTradeAtMaturity
INVARIANT AtEqualsAll
INVARIANT PrevIsLastOutput
INVARIANT ReadsArePast
INVARIANT Emit
PROPERTY Terminates
CHECK_DEADLOCK FALSE
