------------------------------- MODULE MC_Sim -------------------------------
EXTENDS Sim
ZsA == {-1, 0, 1, 2}
ZsB == {-1, 1}
NsZero == {0}
NsJump == {0, 1, 4}
Diffusions == {"brownian", "gbm", "vasicek", "localvol_const", "localvol_lin"}
Merton == {"merton"}
=============================================================================
