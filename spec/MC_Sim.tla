------------------------------- MODULE MC_Sim -------------------------------
EXTENDS Sim
ZsA == {-3, -1, 0, 1, 2}        \* -3: the Euler step of the local-volatility scheme goes negative (1 + z/2 < 0)
ZsB == {-1, 1}
NsZero == {0}
NsJump == {0, 1, 4}
Diffusions == {"brownian", "gbm", "vasicek", "localvol_const", "localvol_lin"}
Merton == {"merton"}
Kou == {"kou"}
NsKou == {0, 1, 3, 9}      \* 9: more jumps in one step than any plausible work-array bound
=============================================================================
