------------------------------- MODULE Clamp -------------------------------
(* C20 - clamp and leaky clamp.  Reference layer: the case analysis of the  *)
(* property text.  Implementation-shaped layer: the max/min/where pipeline  *)
(* of pfhedge.nn.functional.leaky_clamp.  A bound may be absent (None),     *)
(* encoded as <<>>.  One state per case.                                    *)
EXTENDS Rat, TLC, Json

CONSTANTS Xs, Bounds, Slopes, Modes      \* Bounds: rationals and <<>> (absent)

VARIABLES x, lo, hi, slope, mode
vars == <<x, lo, hi, slope, mode>>

Absent(b) == b = <<>>

\* ---------------------------------------------------------------- reference: by cases
Leaky(xx, l, h, s, md) ==
  IF ~Absent(l) /\ ~Absent(h) /\ RLt(h, l)
  THEN IF md = "mean" THEN RDiv(RAdd(l, h), R(2)) ELSE h          \* inverted bounds
  ELSE IF ~Absent(l) /\ RLt(xx, l) THEN RAdd(l, RMul(s, RSub(xx, l)))       \* below: leak with the slope
  ELSE IF ~Absent(h) /\ RLt(h, xx) THEN RAdd(h, RMul(s, RSub(xx, h)))       \* above
  ELSE xx                                                                   \* inside (ties included)
ClampRef(xx, l, h, md) == Leaky(xx, l, h, RZero, md)

\* ---------------------------------------------------------------- implementation-shaped pipeline
Pipeline(xx, l, h, s, md) ==
  LET a == IF Absent(l) THEN xx ELSE RMax(xx, RAdd(l, RMul(s, RSub(xx, l))))
      b == IF Absent(h) THEN a  ELSE RMin(a, RAdd(h, RMul(s, RSub(a, h))))
  IN  IF ~Absent(l) /\ ~Absent(h)
      THEN IF RLe(l, h) THEN b ELSE (IF md = "mean" THEN RDiv(RAdd(l, h), R(2)) ELSE h)
      ELSE b

Init == x \in Xs /\ lo \in Bounds /\ hi \in Bounds /\ slope \in Slopes /\ mode \in Modes
Next == UNCHANGED vars
Spec == Init /\ [][Next]_vars

\* for slopes in [0, 1] the pipeline equals the case analysis
PipelineIsCases == Pipeline(x, lo, hi, slope, mode) = Leaky(x, lo, hi, slope, mode)
\* clamp: inside -> input, outside -> nearer bound
ClampCases == (~Absent(lo) /\ ~Absent(hi) /\ RLe(lo, hi)) =>
                LET y == ClampRef(x, lo, hi, mode) IN
                /\ RLe(lo, y) /\ RLe(y, hi)
                /\ (RLe(lo, x) /\ RLe(x, hi) => y = x)
                /\ (RLt(x, lo) => y = lo) /\ (RLt(hi, x) => y = hi)
\* with slope 0 the leaky clamp is the clamp; with slope 1 it is the identity on ordered bounds
SlopeLimits == /\ Leaky(x, lo, hi, RZero, mode) = ClampRef(x, lo, hi, mode)
               /\ ((Absent(lo) \/ Absent(hi) \/ RLe(lo, hi)) => Leaky(x, lo, hi, ROne, mode) = x)

Emit == PrintT(ToJson([x |-> x, lo |-> lo, hi |-> hi, slope |-> slope, mode |-> mode,
                       leaky |-> Leaky(x, lo, hi, slope, mode), clamp |-> ClampRef(x, lo, hi, mode)]))
=============================================================================
