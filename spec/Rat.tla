------------------------------- MODULE Rat -------------------------------
(* Exact rational arithmetic for the pfhedge specifications.                *)
(* A rational is a pair <<n, d>> with d > 0, kept in lowest terms by Norm.  *)
(* TLC integers are 32 bit and TLC raises on overflow, so the lattices used *)
(* by the models are small integers and dyadic numbers.                     *)
EXTENDS Integers, Sequences

IAbs(x) == IF x < 0 THEN -x ELSE x
IMax(a, b) == IF a < b THEN b ELSE a
IMin(a, b) == IF a < b THEN a ELSE b

RECURSIVE Gcd(_, _)
Gcd(a, b) == IF b = 0 THEN a ELSE Gcd(b, a % b)

Norm(q) == LET n == q[1]
               d == q[2]
               s == IF d < 0 THEN -1 ELSE 1
               g == Gcd(IAbs(n), IAbs(d))
           IN  IF n = 0 THEN <<0, 1>> ELSE <<(s * n) \div g, (s * d) \div g>>

R(n)        == <<n, 1>>
Q(n, d)     == Norm(<<n, d>>)
RZero       == <<0, 1>>
ROne        == <<1, 1>>
RAdd(p, q)  == Norm(<<p[1] * q[2] + q[1] * p[2], p[2] * q[2]>>)
RNeg(p)     == <<-p[1], p[2]>>
RSub(p, q)  == RAdd(p, RNeg(q))
RMul(p, q)  == Norm(<<p[1] * q[1], p[2] * q[2]>>)
RInv(p)     == IF p[1] < 0 THEN <<-p[2], -p[1]>> ELSE <<p[2], p[1]>>
RDiv(p, q)  == RMul(p, RInv(q))
RLt(p, q)   == p[1] * q[2] < q[1] * p[2]
RLe(p, q)   == p[1] * q[2] <= q[1] * p[2]
REq(p, q)   == p[1] * q[2] = q[1] * p[2]
RSgn(p)     == IF p[1] > 0 THEN 1 ELSE IF p[1] < 0 THEN -1 ELSE 0
RAbs(p)     == IF p[1] < 0 THEN RNeg(p) ELSE p
RMax(p, q)  == IF RLt(p, q) THEN q ELSE p
RMin(p, q)  == IF RLt(p, q) THEN p ELSE q
RRelu(p)    == IF p[1] < 0 THEN RZero ELSE p
RSq(p)      == RMul(p, p)
\* floor and ceiling of a rational (d > 0); \div in TLA+ rounds towards minus infinity
RFloor(p)   == p[1] \div p[2]
RCeil(p)    == -((-p[1]) \div p[2])
IsInt(p)    == p[2] = 1

\* sums / extrema over sequences of rationals
RECURSIVE RSumTo(_, _)
RSumTo(s, k) == IF k = 0 THEN RZero ELSE RAdd(RSumTo(s, k - 1), s[k])
RSum(s)      == RSumTo(s, Len(s))
RMean(s)     == RDiv(RSum(s), R(Len(s)))
RECURSIVE RMaxTo(_, _)
RMaxTo(s, k) == IF k = 1 THEN s[1] ELSE RMax(RMaxTo(s, k - 1), s[k])
RMaxSeq(s)   == RMaxTo(s, Len(s))
RECURSIVE RMinTo(_, _)
RMinTo(s, k) == IF k = 1 THEN s[1] ELSE RMin(RMinTo(s, k - 1), s[k])
RMinSeq(s)   == RMinTo(s, Len(s))

\* integer sequence helpers
RECURSIVE ISumTo(_, _)
ISumTo(s, k) == IF k = 0 THEN 0 ELSE ISumTo(s, k - 1) + s[k]
ISum(s)      == ISumTo(s, Len(s))
RECURSIVE IMaxTo(_, _)
IMaxTo(s, k) == IF k = 1 THEN s[1] ELSE IMax(IMaxTo(s, k - 1), s[k])
RECURSIVE IMinTo(_, _)
IMinTo(s, k) == IF k = 1 THEN s[1] ELSE IMin(IMinTo(s, k - 1), s[k])

\* integer power
RECURSIVE IPow(_, _)
IPow(b, e) == IF e = 0 THEN 1 ELSE b * IPow(b, e - 1)
RPow(p, e) == <<IPow(p[1], e), IPow(p[2], e)>>
\* rational arithmetic that cancels common factors BEFORE multiplying (TLC integers are 32 bit)
LAdd(p, q) == LET g == Gcd(p[2], q[2]) IN Norm(<<p[1] * (q[2] \div g) + q[1] * (p[2] \div g), (p[2] \div g) * q[2]>>)
LSub(p, q) == LAdd(p, RNeg(q))
LMul(p, q) == LET g1 == IF p[1] = 0 THEN 1 ELSE Gcd(IAbs(p[1]), q[2])
                  g2 == IF q[1] = 0 THEN 1 ELSE Gcd(IAbs(q[1]), p[2])
              IN  Norm(<<(p[1] \div g1) * (q[1] \div g2), (p[2] \div g2) * (q[2] \div g1)>>)
LDiv(p, q) == LMul(p, RInv(q))
LSq(p)     == LMul(p, p)
RECURSIVE LPow(_, _)
LPow(q, k) == IF k = 0 THEN ROne ELSE LMul(q, LPow(q, k - 1))
=============================================================================
