SPECIFICATION Spec
CONSTANTS
  Only <- Kinds
  NSpot = 3
  NTime = 2
  NVol = 2
  NStrike = 1
  NMax = 1
INVARIANT ImplementationIsDefinition
INVARIANT PutCallParity
INVARIANT BinaryComplement
INVARIANT PricesHomogeneous
INVARIANT LookbackContinuousAtStrike
INVARIANT AmericanOneAtBarrier
INVARIANT AllKindsPresent
INVARIANT FormsJustifyObligations
CHECK_DEADLOCK FALSE
