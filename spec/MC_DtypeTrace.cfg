SPECIFICATION TSpec
CONSTANTS
  Prims <- P2
  BufNames <- Bufs2
  Floats <- F4
  Defaults <- D2
  InitDefaults <- D2
  InitDeclared <- AllDecl
  Hows <- HowsAll
  Vias <- ViasAll
  MaxDepth <- Unbounded
INVARIANT Contract
CONSTRAINT Progress
POSTCONDITION Accepted
CHECK_DEADLOCK FALSE
