------------------------------ MODULE FitTrace ------------------------------
(* Trace validation of real Hedger.fit() runs against Fit.tla.  The recorder *)
(* (doubles only: optimiser, model, primary) logs one event per protocol     *)
(* step in program order; consecutive forward calls of one evaluation are    *)
(* one Forward event.  Every event carries the hash-renamed parameter        *)
(* version observed at that moment; parameters may change only in Step.      *)
EXTENDS Fit, IOUtils, TLCExt

Traces == JsonDeserialize(IOEnv.TRACE_FILE)
VARIABLES tid, l
tvars == <<vars, tid, l>>
Tr == Traces[tid].events
Ev == Tr[l]

TInit == /\ tid \in 1..Len(Traces)
         /\ cfg = Traces[tid].cfg
         /\ pc = "configure" /\ epoch = 0 /\ mode = "initial" /\ steps = 0 /\ pver = 0
         /\ zeroed = ~cfg.stale /\ contrib = (IF cfg.stale THEN {0} ELSE {}) /\ batch = 0 /\ fresh = FALSE /\ hlen = 0 /\ vdone = 0 /\ sims = 0 /\ out = "running"
         /\ l = 1 /\ TLCSet(tid, 1)

Consume(A) == l <= Len(Tr) /\ A /\ pver' = Ev.pver /\ l' = l + 1 /\ tid' = tid
\* internal steps of the automaton that have no observable event
Silent(A)  == A /\ l' = l /\ tid' = tid

\* Observable events: Simulate (arguments, and whether every gradient the optimiser owns was clear at that moment),
\* Forward (mode and grad flags), OptStep, FitEnd.  train()/eval()/zero_grad()/backward() are inferred (silent): what the
\* property constrains is their EFFECT at the observable events, not the way the code brings it about.
TNext ==
  \/ Silent(Configure) \/ Silent(Train) \/ Silent(ZeroGrad) \/ Silent(Eval)
  \/ Silent(Backward /\ l <= Len(Tr) /\ Ev.op = "OptStep") \/ Silent(AppendHistory) \/ Silent(EndEpoch)
  \/ Consume(Ev.op = "Simulate" /\ (MaterialiseSim(Ev.n, Ev.init) \/ (Simulate(Ev.n, Ev.init) /\ Ev.clear) \/ VSimulate(Ev.n, Ev.init)))
  \/ Consume(Ev.op = "Forward" /\ (MaterialiseFwd \/ Forward(Ev.mode, Ev.grad) \/ VForward(Ev.mode, Ev.grad)))
  \/ Consume(Ev.op = "OptStep" /\ Step)
  \/ Consume(Ev.op = "FitEnd" /\ Finish(Ev.hist))
TSpec == TInit /\ [][TNext]_tvars

Progress == TLCSet(tid, IF TLCGet(tid) < l THEN l ELSE TLCGet(tid))
Accepted == \A i \in 1..Len(Traces) : PrintT(<<"TRACE", i, TLCGet(i), Len(Traces[i].events) + 1>>)
=============================================================================
