SPECIFICATION Spec
CONSTANTS
  T = 2
  H = 1
  K = 2
  DtNum = 1
  DtDen = 4
  Spots = {1,4}
  NPaths = 2
  NTimes = 2
  Configs <- PConfigs
  Shifts <- ShiftsB
  Crits <- CritsB
INVARIANT PriceShift
INVARIANT PriceIsLoss
INVARIANT OneDrawPerTime
INVARIANT FreshBuffers
INVARIANT Emit
PROPERTY Terminates
CHECK_DEADLOCK FALSE
