SPECIFICATION Spec
CONSTANTS
  E = 2
  W = 4
  Tables <- Mono4
  Targets = {0,1,2}
  Precisions = {1,2}
  MaxIters = {20}
INVARIANT Bracketed
INVARIANT WithinPrecision
INVARIANT IterationCount
INVARIANT NoSilentFailure
INVARIANT AbortOnlyWhenStuck
INVARIANT ElementwiseIndependent
INVARIANT Emit
PROPERTY Termination
CHECK_DEADLOCK FALSE
