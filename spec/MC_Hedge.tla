----------------------------- MODULE MC_Hedge -----------------------------
(* Model-checking wrapper for Hedge.tla: configuration menus.               *)
EXTENDS Hedge

Cfg(feats, kind, W, B, cost, call) ==
  [feats |-> feats, kind |-> kind, W |-> W, B |-> B, cost |-> cost, call |-> call]

SingleNames == FeatureNames \ {"prev_hedge", "module_prev"}
\* H = 1 -------------------------------------------------------------------
Singles1 == {Cfg(<<f>>, "linear", << <<2>> >>, <<1>>, <<1>>, TRUE) : f \in SingleNames}
Combos1 == {
  Cfg(<<"moneyness", "time_to_maturity", "volatility">>, "linear", << <<1, 2, -1>> >>, <<1>>, <<1>>, TRUE),
  Cfg(<<"moneyness", "time_to_maturity", "volatility">>, "relu",   << <<1, -4, -1>> >>, <<0>>, <<2>>, FALSE),
  Cfg(<<"moneyness", "time_to_maturity", "volatility", "prev_hedge">>, "linear", << <<1, 2, -1, 1>> >>, <<0>>, <<1>>, TRUE),
  Cfg(<<"moneyness", "time_to_maturity", "volatility", "prev_hedge">>, "linear", << <<1, 2, -1, 0>> >>, <<1>>, <<1>>, TRUE),
  Cfg(<<"prev_hedge", "log_moneyness", "variance">>, "relu", << <<-1, 2, 1>> >>, <<-2>>, <<>>, TRUE),
  Cfg(<<"prev_hedge">>, "linear", << <<2>> >>, <<1>>, <<0>>, TRUE),
  Cfg(<<"max_moneyness", "barrier_up_3", "prev_hedge">>, "linear", << <<2, 3, -1>> >>, <<0>>, <<1>>, TRUE),
  Cfg(<<"max_log_moneyness", "barrier_dn_2", "underlier_log_spot">>, "linear", << <<1, -2, 1>> >>, <<1>>, <<>>, FALSE),
  Cfg(<<"module_prev", "moneyness">>, "linear", << <<1, 2>> >>, <<0>>, <<1>>, TRUE),
  Cfg(<<"module_a", "variance">>, "linear", << <<1, -1>> >>, <<2>>, <<0>>, TRUE),
  Cfg(<<"module_a", "module_prev", "prev_hedge">>, "relu", << <<1, -1, 1>> >>, <<3>>, <<1>>, FALSE),
  Cfg(<<"spot", "log_spot", "expiry_time">>, "linear", << <<1, -3, 2>> >>, <<0>>, <<1>>, TRUE),
  Cfg(<<"zeros", "ones", "underlier_spot">>, "linear", << <<5, 3, -1>> >>, <<0>>, <<2>>, TRUE),
  \* a negative proportional rate (a rebate): "any proportional cost rates"
  Cfg(<<"moneyness", "volatility">>, "linear", << <<2, -1>> >>, <<1>>, <<-1>>, TRUE)
}
\* configurations whose derivative carries a clause (payoff -> 2 * payoff + 1)
WithClause(c) == c @@ [clause |-> "double_plus_one"]
Clause1 == { WithClause(Cfg(<<"moneyness", "time_to_maturity", "volatility">>, "linear", << <<1, 2, -1>> >>, <<1>>, <<1>>, TRUE)),
             WithClause(Cfg(<<"moneyness", "prev_hedge">>, "relu", << <<2, -1>> >>, <<0>>, <<2>>, FALSE)) }
Long1 == {
  Cfg(<<"moneyness", "time_to_maturity", "volatility", "prev_hedge">>, "linear", << <<1, 2, -1, 1>> >>, <<0>>, <<1>>, TRUE),
  Cfg(<<"max_moneyness", "barrier_up_3", "barrier_dn_2", "max_log_moneyness">>, "linear", << <<2, 3, -1, 1>> >>, <<0>>, <<1>>, TRUE),
  Cfg(<<"time_to_maturity", "expiry_time", "module_a">>, "linear", << <<4, -1, 1>> >>, <<0>>, <<>>, FALSE),
  Cfg(<<"module_prev", "variance", "volatility">>, "relu", << <<1, -1, 2>> >>, <<-1>>, <<2>>, TRUE),
  Cfg(<<"log_moneyness", "underlier_log_spot", "log_spot", "spot">>, "linear", << <<1, 2, -1, 1>> >>, <<0>>, <<0>>, TRUE)
}
Combos1c == Combos1 \cup Clause1
AllH1 == Singles1 \cup Combos1 \cup Clause1
\* H = 2 -------------------------------------------------------------------
Combos2 == {
  Cfg(<<"moneyness", "variance">>, "linear", << <<1, 2>>, <<-1, 1>> >>, <<0, 1>>, <<1, 2>>, TRUE),
  Cfg(<<"moneyness", "variance">>, "relu",   << <<2, -1>>, <<-1, 1>> >>, <<0, -1>>, <<2, 0>>, FALSE),
  Cfg(<<"moneyness", "variance", "prev_hedge">>, "linear", << <<1, 2, 1, 0>>, <<-1, 1, 1, -1>> >>, <<0, 1>>, <<1, 2>>, TRUE),
  Cfg(<<"prev_hedge", "time_to_maturity">>, "linear", << <<0, 1, 4>>, <<1, 0, -4>> >>, <<1, 0>>, <<>>, TRUE),
  Cfg(<<"module_prev", "max_moneyness">>, "relu", << <<1, -2>>, <<-1, 2>> >>, <<0, 0>>, <<0, 1>>, TRUE),
  Cfg(<<"barrier_up_2", "volatility", "prev_hedge">>, "linear", << <<1, 1, 0, 0>>, <<2, -1, 0, 0>> >>, <<0, 0>>, <<1, 1>>, FALSE),
  \* no instrument charges, one pays a rebate / one free and one rebate
  Cfg(<<"moneyness", "variance">>, "linear", << <<1, 2>>, <<-1, 1>> >>, <<0, 1>>, <<-1, 0>>, TRUE),
  Cfg(<<"moneyness", "prev_hedge">>, "linear", << <<1, 1, 0>>, <<-1, 0, 1>> >>, <<1, 0>>, <<0, -2>>, FALSE)
}
=============================================================================
