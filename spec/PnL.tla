------------------------------- MODULE PnL -------------------------------
(* C01 - the hedging P&L is the self-financing wealth identity.            *)
(*                                                                          *)
(* Reference layer: a cash account, a fee account and H positions.  At every time index t  *)
(* the action Trade rebalances every position h to unit[h][t] at the price  *)
(* spot[h][t], paying (unit - pos) * spot for the shares and the            *)
(* proportional cost  c[h] * |unit - pos| * spot  (the opening trade is     *)
(* free of cost when the caller disables it); Settle liquidates at the last *)
(* price and pays the payoff.  No formula of pfhedge is used here.          *)
(*                                                                          *)
(* Implementation-shaped layer: the vectorised expression evaluated by      *)
(* pfhedge.nn.functional.pl: Gains - Payoff - TCost - FCost, one operator   *)
(* per statement of the function.                                           *)
(*                                                                          *)
(* WealthIsFormula relates the two on every enumerated input; Emit prints   *)
(* the inputs with the account's terminal wealth so that the harness can    *)
(* replay them into the real pl()/terminal_value()/Hedger.                  *)
EXTENDS Integers, Sequences, FiniteSets, TLC, Json, Rat

CONSTANTS T,          \* number of time points (>= 2)
          H,          \* number of hedging instruments (>= 1)
          Spots,      \* lattice of prices
          Units,      \* lattice of positions
          CostVecs,   \* set of cost vectors: sequences of length H, or <<>> for cost = None
          Payoffs,    \* lattice of payoffs
          EmitMod,    \* emit only records whose checksum is 0 modulo EmitMod (1 = all)
          EmitRes

VARIABLES spot, unit, cost, payoff, first, t, cash, fees, pos, pc
vars == <<spot, unit, cost, payoff, first, t, cash, fees, pos, pc>>

HasCost == cost # <<>>
C(h)    == IF HasCost THEN cost[h] ELSE 0

\* ---------------------------------------------------------------- implementation-shaped layer
\* output = unit[..., :-1].mul(spot.diff(dim=-1)).sum(dim=(-2, -1))
Gains == ISum([h \in 1..H |-> ISum([i \in 1..(T-1) |-> unit[h][i] * (spot[h][i+1] - spot[h][i])])])
\* output -= (spot[..., 1:] * unit.diff(dim=-1).abs() * c).sum(dim=(-2, -1))
TCost == ISum([h \in 1..H |-> ISum([i \in 1..(T-1) |-> spot[h][i+1] * IAbs(unit[h][i+1] - unit[h][i]) * C(h)])])
\* if deduct_first_cost: output -= (spot[..., [0]] * unit[..., [0]].abs() * c).sum(dim=(-2, -1))
FCost == IF first THEN ISum([h \in 1..H |-> spot[h][1] * IAbs(unit[h][1]) * C(h)]) ELSE 0
PLFormula == IF HasCost THEN Gains - payoff - TCost - FCost ELSE Gains - payoff

\* ---------------------------------------------------------------- reference layer
Init == /\ spot \in [1..H -> [1..T -> Spots]]
        /\ unit \in [1..H -> [1..T -> Units]]
        /\ cost \in CostVecs
        /\ payoff \in Payoffs
        /\ first \in BOOLEAN
        /\ t = 0 /\ cash = 0 /\ fees = 0 /\ pos = [h \in 1..H |-> 0] /\ pc = "trade"

\* rebalance all instruments at time index t+1 (1-based)
Trade == /\ pc = "trade" /\ t < T
         /\ LET i == t + 1
                Charge(h) == IF i = 1 /\ ~first THEN 0 ELSE C(h) * IAbs(unit[h][i] - pos[h]) * spot[h][i]
                Paid(h)   == (unit[h][i] - pos[h]) * spot[h][i]
            IN  /\ cash' = cash - ISum([h \in 1..H |-> Paid(h)])
                /\ fees' = fees + ISum([h \in 1..H |-> Charge(h)])
                /\ pos' = [h \in 1..H |-> unit[h][i]]
         /\ t' = t + 1
         /\ pc' = IF t + 1 = T THEN "settle" ELSE "trade"
         /\ UNCHANGED <<spot, unit, cost, payoff, first>>

Settle == /\ pc = "settle"
          /\ cash' = cash + ISum([h \in 1..H |-> pos[h] * spot[h][T]]) - payoff
          /\ pos' = [h \in 1..H |-> 0]
          /\ pc' = "done"
          /\ UNCHANGED <<spot, unit, cost, payoff, first, t, fees>>

Next == Trade \/ Settle
Spec == Init /\ [][Next]_vars /\ WF_vars(Next)

\* ---------------------------------------------------------------- properties
TypeOK == /\ pc \in {"trade", "settle", "done"} /\ t \in 0..T

\* the account's terminal wealth is the formula (the opening trade is charged iff `first`)
WealthIsFormula == pc = "done" => cash - fees = PLFormula

\* the account is self-financing: before settlement, cash + marked-to-market positions equals
\* the gains so far minus the costs so far (stated through the formula restricted to t)
GainsTo(k) == ISum([h \in 1..H |-> ISum([i \in 1..(T-1) |-> IF i < k THEN unit[h][i] * (spot[h][i+1] - spot[h][i]) ELSE 0])])
CostTo(k)  == ISum([h \in 1..H |-> ISum([i \in 1..(T-1) |-> IF i < k THEN spot[h][i+1] * IAbs(unit[h][i+1] - unit[h][i]) * C(h) ELSE 0])])
SelfFinancing == (pc \in {"trade", "settle"} /\ t >= 1) =>
    /\ cash + ISum([h \in 1..H |-> pos[h] * spot[h][t]]) = GainsTo(t)
    /\ fees = CostTo(t) + FCost

\* without transaction costs and with a position that is never changed, the wealth is
\* position * (S_T - S_1) - payoff (a sanity anchor that does not mention the formula)
BuyAndHold == (pc = "done" /\ (\A h \in 1..H : \A i \in 1..T : unit[h][i] = unit[h][1]) /\ ~first)
              => cash = ISum([h \in 1..H |-> unit[h][1] * (spot[h][T] - spot[h][1])]) - payoff /\ fees = 0

Terminates == <>(pc = "done")

Checksum == ISum([h \in 1..H |-> ISum([i \in 1..T |-> (2*i + h) * spot[h][i] + (3*i + h) * unit[h][i]])]) + payoff
Emit == (pc = "done" /\ (Checksum % EmitMod) = EmitRes) =>
          PrintT(ToJson([spot |-> spot, unit |-> unit, cost |-> cost, payoff |-> payoff,
                         first |-> first, pl |-> cash - fees, fees |-> fees]))
=============================================================================
