SPECIFICATION Spec
CONSTANTS
  Models <- ModelsA
  Sd2s <- Sd2sA
  Ls <- LsA
  A1s <- A1sA
  A2s <- A2sA
  Ps <- PsA
  NMax = 3
  K = 3
INVARIANT LogVarianceDocumented
INVARIANT MeanExcessDocumented
INVARIANT JumpFreeIsDiffusion
INVARIANT JumpsOnlyAddVariance
INVARIANT JumpVarianceNonNegative
INVARIANT BinomialMixing
INVARIANT Emit
PROPERTY Terminates
CHECK_DEADLOCK FALSE
