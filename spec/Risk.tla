------------------------------- MODULE Risk -------------------------------
(* Criteria of pfhedge in exact rational arithmetic (C04, C05, C06).        *)
(*                                                                          *)
(* Samples are sequences of integers (the P&L of N paths).  Everything is   *)
(* defined from the mathematical definition in the property text, not from  *)
(* the code:                                                                *)
(*   ES_p(x)     = - mean of the ceil(pN) smallest entries                  *)
(*   VaR_p(x)    : k-th smallest when pN = k; min / max at the ends         *)
(*   QCVaR_l(x)  = min_w  w + l * mean(max(-w - x, 0)^2), by the active-set  *)
(*                 solution of the stationarity condition                   *)
(*   ERM_a(x)    = (1/a) log mean exp(-a x) for a = a2 * ln 2, i.e.         *)
(*                 log2(M2(x)) / a2 with M2 = mean 2^(-a2 x), a rational    *)
(*   entropic loss = M2(x);  isoelastic loss (a = 1/2) = - mean sqrt x      *)
(*   OCE_u,w(x)  = w - mean u(x + w), u(z) = z - z^2 / 4 (polynomial)       *)
(* The axioms of C04 become invariants over all samples / pairs of samples. *)
(* ERM statements are phrased on M2 (ERM is increasing in M2).              *)
EXTENDS Rat, SequencesExt, FiniteSets, TLC, Json

CONSTANTS N,          \* sample length
          Lattice,    \* set of integer outcomes
          PSeq,       \* quantile levels: sequence of pairs <<num, den>>
          LamSeq,     \* lambda values: sequence of integers >= 1
          Mode,       \* "single" | "pairs"
          EmitMod, EmitRes

VARIABLES x, y,       \* y is used in "pairs" mode only (else y = x)
          xs, ys       \* the sorted samples
vars == <<x, y, xs, ys>>

Ps   == {PSeq[j] : j \in 1..Len(PSeq)}
Lams == {LamSeq[j] : j \in 1..Len(LamSeq)}
\* ------------------------------------------------------------------ helpers
Sorted(s)  == SortSeq(s, LAMBDA a, b : a < b)
SMin(s)    == Sorted(s)[1]
SMax(s)    == Sorted(s)[Len(s)]
SMean(s)   == Q(ISum(s), Len(s))
PrefixSum(s, k) == ISum(SubSeq(s, 1, k))
Pow2(e)    == IF e >= 0 THEN <<IPow(2, e), 1>> ELSE <<1, IPow(2, -e)>>
Leq(s, t)  == \A j \in 1..Len(s) : s[j] <= t[j]
Shift(s, c) == [j \in 1..Len(s) |-> s[j] + c]
Scale(s, c) == [j \in 1..Len(s) |-> s[j] * c]
Mix2(s, t)  == [j \in 1..Len(s) |-> s[j] + t[j]]       \* 2 * (s/2 + t/2)

\* ------------------------------------------------------------------ expected shortfall / value at risk
KOf(p, n)  == RCeil(RMul(p, R(n)))                     \* ceil(p n)
ESs(srt, p) == LET k == KOf(p, Len(srt)) IN RNeg(Q(PrefixSum(srt, k), k))      \* srt sorted ascending
ES(s, p)   == ESs(Sorted(s), p)
\* value at risk as the property fixes it; "between" is only required to be monotone in p
VaRFixed(srt, p) ==
  LET n == Len(srt)
      pn == RMul(p, R(n))
  IN  IF RLe(pn, R(1)) THEN <<TRUE, R(srt[1])>>
      ELSE IF RLt(R(n - 1), pn) THEN <<TRUE, R(srt[n])>>
      ELSE IF IsInt(pn) THEN <<TRUE, R(srt[pn[1]])>>
      ELSE <<FALSE, RZero>>
\* implementation-shaped: linear interpolation at position p n - 1 between order statistics
VaRInterp(srt, p) ==
  LET n == Len(srt)
      pn == RMul(p, R(n))
  IN  IF RLe(pn, R(1)) THEN R(srt[1])
      ELSE IF RLt(R(n - 1), pn) THEN R(srt[n])
      ELSE LET pos == RSub(pn, R(1))
               lo  == RFloor(pos)
               fr  == RSub(pos, R(lo))
           IN  IF lo + 2 > n THEN R(srt[n])
               ELSE RAdd(R(srt[lo + 1]), RMul(fr, R(srt[lo + 2] - srt[lo + 1])))

\* ------------------------------------------------------------------ quadratic CVaR
QObj(s, lam, w) == RAdd(w, RMul(Q(lam, Len(s)), RSum([j \in 1..Len(s) |-> RSq(RRelu(RSub(RNeg(w), R(s[j]))))])))
\* candidate optimum when the k smallest entries are active
\* (srt sorted ascending in the operators below)
QW(srt, lam, k) == RNeg(RDiv(RAdd(Q(Len(srt), 2 * lam), R(PrefixSum(srt, k))), R(k)))
QConsistent(srt, lam, k) ==
  LET mw  == RNeg(QW(srt, lam, k))                      \* -w: entries strictly below it are active
  IN  /\ RLt(R(srt[k]), mw)
      /\ (k = Len(srt) \/ RLe(mw, R(srt[k + 1])))
QK(srt, lam)     == CHOOSE k \in 1..Len(srt) : QConsistent(srt, lam, k)
QOmega(srt, lam) == QW(srt, lam, QK(srt, lam))
QCVaRs(srt, lam) == QObj(srt, lam, QOmega(srt, lam))
QCVaR(s, lam)    == QCVaRs(Sorted(s), lam)

\* ------------------------------------------------------------------ entropic quantities (base 2)
M2(s, a2)  == RDiv(RSum([j \in 1..Len(s) |-> Pow2(-a2 * s[j])]), R(Len(s)))     \* mean 2^(-a2 x) = entropic loss
\* ------------------------------------------------------------------ isoelastic loss, a = 1/2, on perfect squares
ISq(v)     == CHOOSE r \in 0..64 : r * r = v
AllSquares(s) == \A j \in 1..Len(s) : s[j] >= 0 /\ \E r \in 0..64 : r * r = s[j]
AllPow2(s)    == \A j \in 1..Len(s) : \E e \in 0..10 : IPow(2, e) = s[j]
Log2I(v)      == CHOOSE e \in 0..10 : IPow(2, e) = v
IsoHalf(s) == RNeg(Q(ISum([j \in 1..Len(s) |-> ISq(s[j])]), Len(s)))
\* ------------------------------------------------------------------ OCE with u(z) = z - z^2/4
U(z)        == RSub(z, RDiv(RSq(z), R(4)))
OCE(s, w)   == RSub(R(w), RDiv(RSum([j \in 1..Len(s) |-> U(R(s[j] + w))]), R(Len(s))))

\* ------------------------------------------------------------------ enumeration machine
\* The samples are built one entry at a time (so that TLC's workers share the work); xs, ys are the sorted
\* samples, filled in by the last Pick.  All properties are stated on complete cases.
Complete == Len(x) = N /\ Len(y) = N
Init == x = <<>> /\ y = <<>> /\ xs = <<>> /\ ys = <<>>
PickX == /\ Len(x) < N
         /\ \E v \in Lattice : x' = Append(x, v)
         /\ IF Len(x) + 1 = N THEN xs' = Sorted(x') /\ (IF Mode = "pairs" THEN y' = y /\ ys' = ys ELSE y' = x' /\ ys' = xs')
                               ELSE xs' = xs /\ y' = y /\ ys' = ys
PickY == /\ Mode = "pairs" /\ Len(x) = N /\ Len(y) < N
         /\ \E v \in Lattice : y' = Append(y, v)
         /\ ys' = IF Len(y) + 1 = N THEN Sorted(y') ELSE ys
         /\ UNCHANGED <<x, xs>>
Next == PickX \/ PickY
Spec == Init /\ [][Next]_vars

\* ------------------------------------------------------------------ C04: axioms
ESMonotone    == (Complete /\ Leq(x, y)) => \A p \in Ps : RLe(ESs(ys, p), ESs(xs, p))
ESCash        == Complete => \A p \in Ps : \A c \in {-3, 2} : ESs(Shift(xs, c), p) = RSub(ESs(xs, p), R(c))
ESConvex      == Complete => LET mix == Sorted(Mix2(x, y)) IN
                   \A p \in Ps : RLe(ESs(mix, p), RAdd(ESs(xs, p), ESs(ys, p)))       \* subadditive + homogeneous
ESHomogeneous == Complete => \A p \in Ps : \A c \in {2, 3} : ESs(Scale(xs, c), p) = RMul(R(c), ESs(xs, p))
ESMonotoneInP == Complete => \A p \in Ps : \A q \in Ps : RLe(p, q) => RLe(ESs(xs, q), ESs(xs, p))
ESBounds      == Complete => \A p \in Ps : /\ RLe(R(-xs[N]), ESs(xs, p)) /\ RLe(ESs(xs, p), R(-xs[1]))
                                           /\ RLe(RNeg(SMean(x)), ESs(xs, p))
\* the definition in words: minus the mean of the ceil(pN) worst outcomes, chosen as a set
ESDefinition  == Complete => \A p \in Ps :
                   LET k == KOf(p, N)
                       worst == CHOOSE S \in SUBSET (1..N) : Cardinality(S) = k /\ \A a \in S : \A b \in (1..N) \ S : x[a] <= x[b]
                   IN  k \in 1..N /\ ESs(xs, p) = RNeg(Q(ISum([j \in 1..N |-> IF j \in worst THEN x[j] ELSE 0]), k))

QMonotone     == (Complete /\ Leq(x, y)) => \A l \in Lams : RLe(QCVaRs(ys, l), QCVaRs(xs, l))
QCash         == Complete => \A l \in Lams : \A c \in {-3, 2} : QCVaRs(Shift(xs, c), l) = RSub(QCVaRs(xs, l), R(c))
\* 2 rho((u+v)/2) <= rho(u) + rho(v) with u = 2x, v = 2y (so that the midpoint x + y is on the integer lattice)
QConvexHalf   == Complete => LET mix == Sorted(Mix2(x, y)) IN
                   \A l \in Lams : RLe(RMul(R(2), QCVaRs(mix, l)), RAdd(QCVaRs(Scale(xs, 2), l), QCVaRs(Scale(ys, 2), l)))
QBounds       == Complete => \A l \in Lams : /\ RLe(RSub(R(-xs[N]), Q(1, 4 * l)), QCVaRs(xs, l))
                                             /\ RLe(QCVaRs(xs, l), RSub(R(-xs[1]), Q(1, 4 * l)))
                                             /\ RLe(RSub(RNeg(SMean(x)), Q(1, 4 * l)), QCVaRs(xs, l))
\* no w on a rational grid does better, and exactly one active-set size is consistent
QIsMinimum    == Complete => \A l \in Lams : /\ Cardinality({k \in 1..N : QConsistent(xs, l, k)}) = 1
                                             /\ \A wn \in -10..10 : RLe(QCVaRs(xs, l), QObj(x, l, Q(wn, 2)))

Small == Complete /\ xs[1] >= -4 /\ xs[N] <= 4 /\ ys[1] >= -4 /\ ys[N] <= 4      \* keeps 2^(-a2 x) inside 32 bits
ERMMonotone   == (Small /\ Leq(x, y)) => \A a2 \in {1, 2} : RLe(M2(y, a2), M2(x, a2))
ERMCash       == Small => \A a2 \in {1, 2} : \A c \in {-3, 2} : M2(Shift(x, c), a2) = RMul(M2(x, a2), Pow2(-a2 * c))
\* convexity at weight 1/2: M_a((x+y)/2)^2 <= M_a(x) M_a(y); with a2 = 2 the exponent a2 (x+y)/2 = x + y is integral
Tiny == Complete /\ N <= 3 /\ xs[1] >= -2 /\ xs[N] <= 1 /\ ys[1] >= -2 /\ ys[N] <= 1   \* products stay inside 32 bits
ERMConvex     == Tiny => RLe(RSq(M2(Mix2(x, y), 1)), RMul(M2(x, 2), M2(y, 2)))
ERMBounds     == Small => \A a2 \in {1, 2} : /\ RLe(Pow2(-a2 * xs[N]), M2(x, a2)) /\ RLe(M2(x, a2), Pow2(-a2 * xs[1]))
\* ERM >= -mean  <=>  M2^N >= 2^(-a2 sum x)   (N <= 3 keeps the powers inside 32 bits)
ERMAboveMean  == (Small /\ N <= 3) => RLe(Pow2(-ISum(x)), RPow(M2(x, 1), N))
\* non-decreasing in risk aversion: ERM_1 <= ERM_2  <=>  M_1^2 <= M_2
ERMMonotoneInA == Small => RLe(RSq(M2(x, 1)), M2(x, 2))
\* expected-utility losses are monotone and convex
ELossMonotone == (Small /\ Leq(x, y)) => RLe(M2(y, 1), M2(x, 1))
ELossConvex   == Tiny => RLe(RMul(R(2), M2(Mix2(x, y), 1)), RAdd(M2(Scale(x, 2), 1), M2(Scale(y, 2), 1)))

\* ------------------------------------------------------------------ C05: definitions
VaRProperties == Complete => \A p \in Ps :
                   /\ VaRFixed(xs, p)[1] => VaRInterp(xs, p) = VaRFixed(xs, p)[2]
                   /\ \A q \in Ps : RLe(p, q) => RLe(VaRInterp(xs, p), VaRInterp(xs, q))
                   /\ RLe(R(xs[1]), VaRInterp(xs, p)) /\ RLe(VaRInterp(xs, p), R(xs[N]))
\* C06: certainty equivalents lie between worst and best outcome and below the mean
\* (for quadratic CVaR the cash amount is just minus the risk: it exceeds the mean by up to 1/(4 lam))
CEBounds == Complete => \A p \in Ps : RLe(R(xs[1]), RNeg(ESs(xs, p))) /\ RLe(RNeg(ESs(xs, p)), SMean(x))

Checksum == ISum([j \in 1..N |-> j * x[j]]) + 7 * ISum([j \in 1..N |-> j * y[j]])
Emit == (Complete /\ (Checksum % EmitMod) = EmitRes) =>
  PrintT(ToJson(
    IF Mode = "single"
    THEN [kind |-> "risk", x |-> x,
          ps   |-> PSeq, lams |-> LamSeq,
          es   |-> [j \in 1..Len(PSeq) |-> ESs(xs, PSeq[j])],
          k    |-> [j \in 1..Len(PSeq) |-> KOf(PSeq[j], N)],
          var  |-> [j \in 1..Len(PSeq) |-> VaRInterp(xs, PSeq[j])],
          varfixed |-> [j \in 1..Len(PSeq) |-> VaRFixed(xs, PSeq[j])[1]],
          qcvar |-> [j \in 1..Len(LamSeq) |-> QCVaRs(xs, LamSeq[j])],
          omega |-> [j \in 1..Len(LamSeq) |-> QOmega(xs, LamSeq[j])],
          m2   |-> IF Small THEN <<M2(x, 1), M2(x, 2)>> ELSE <<>>,
          oce  |-> <<OCE(x, 0), OCE(x, 1), OCE(x, 3)>>,
          ocexp |-> IF Small THEN <<RAdd(R(0), M2(x, 1)), RAdd(R(2), M2(Shift(x, 2), 1))>> ELSE <<>>,
          iso  |-> IF AllSquares(x) THEN <<TRUE, IsoHalf(x)>> ELSE <<FALSE, RZero>>,
          isolog |-> IF AllPow2(x) THEN <<TRUE, RNeg(Q(ISum([j \in 1..N |-> Log2I(x[j])]), N))>> ELSE <<FALSE, RZero>>,
          min  |-> xs[1], max |-> xs[N], mean |-> SMean(x)]
    ELSE [kind |-> "pair", x |-> x, y |-> y]))
=============================================================================
