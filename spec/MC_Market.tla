------------------------------ MODULE MC_Market ------------------------------
EXTENDS Market
AllKinds == {"brownian", "heston", "cir", "vasicek", "merton", "kou", "rough_bergomi", "local_volatility"}
=============================================================================
