---------------------------- MODULE SessionTrace ----------------------------
(* Trace validation for Session.tla (C16).  The recorder wraps public calls  *)
(* only and logs, at the call's return: the operation, the hedger and        *)
(* derivative it was applied to, the content VERSION of every primary's      *)
(* buffers (content hashes renamed to integers in order of first appearance) *)
(* and the version of the result.  A trace is accepted iff every line is an  *)
(* action of Session.tla with exactly the logged post-state: a read-only     *)
(* operation that changed a buffer, an operation that touched another        *)
(* instrument, a simulation that did not produce new data, or a result that  *)
(* differs from an earlier result with the same key is rejected at that line.*)
EXTENDS Session, IOUtils, TLCExt

Traces == JsonDeserialize(IOEnv.TRACE_FILE)

VARIABLES tid, l
tvars == <<vars, tid, l>>
Tr == Traces[tid].events
Ev == Tr[l]

TInit == Init /\ tid \in 1..Len(Traces) /\ l = 1 /\ TLCSet(tid, 1)

PostMatches == /\ \A p \in Prims : ver'[p] = Ev.ver[p]
               /\ \A p \in Prims : npaths'[p] = Ev.npaths[p]
               /\ cver'[Ev.d] = Ev.cv
               /\ lver'[Ev.d] = Ev.lv
               /\ kver'[Ev.d] = Ev.kv /\ uver'[UL[Ev.d]] = Ev.uv
               /\ \A h \in Hedgers : pver'[h] = Ev.pvs[h]
Step(A) == l <= Len(Tr) /\ A /\ PostMatches /\ l' = l + 1 /\ tid' = tid

TNext ==
  \/ Step(Ev.op = "Simulate" /\ Simulate(Ev.d, Ev.n, Ev.ver[UL[Ev.d]]))
  \/ Step(Ev.op \in {"Payoff", "Features", "ListedSpot"} /\ Read(Ev.op, Ev.d, Ev.res))
  \/ Step(Ev.op \in {"ComputeHedge", "ComputePortfolio", "ComputePL"} /\ Compute(Ev.op, Ev.h, Ev.d, Ev.res))
  \/ Step(Ev.op \in {"ComputeLoss", "Price"} /\ SimCompute(Ev.op, Ev.h, Ev.d, Ev.n, Ev.ver[UL[Ev.d]]))
  \/ Step(Ev.op = "AddClause" /\ AddClause(Ev.d))
  \/ Step(Ev.op = "Relist" /\ Relist(Ev.d))
  \/ Step(Ev.op = "Restrike" /\ Restrike(Ev.d))
  \/ Step(Ev.op = "SetCost" /\ SetCost(Ev.d))
  \/ Step(Ev.op = "Abort" /\ Abort(Ev.h, Ev.d))
  \/ Step(Ev.op = "Fit" /\ Fit(Ev.h, Ev.d, Ev.n, Ev.ver[UL[Ev.d]], Ev.pvs[Ev.h]))
TSpec == TInit /\ [][TNext]_tvars

Progress == TLCSet(tid, IF TLCGet(tid) < l THEN l ELSE TLCGet(tid))
Accepted == \A i \in 1..Len(Traces) : PrintT(<<"TRACE", i, TLCGet(i), Len(Traces[i].events) + 1>>)
=============================================================================
