-------------------------------- MODULE CIR --------------------------------
(* C10 (CIR / Heston variance) - the quadratic-exponential scheme moves the  *)
(* first two moments of the variance exactly as the CIR process does.        *)
(*                                                                           *)
(* Exact rational model.  E = exp(-kappa dt) is a rational PARAMETER (the    *)
(* harness chooses dt = -ln(E)/kappa), so the conditional moments of one     *)
(* step from the value v,                                                    *)
(*     m(v)  = theta + (v - theta) E                                         *)
(*     s2(v) = v sigma^2 E (1 - E)/kappa + theta sigma^2 (1 - E)^2/(2 kappa) *)
(* are rationals, and so is psi = s2/m^2, which selects the branch.          *)
(*                                                                           *)
(* Machine: the law of V after n steps from v0 is summarised by its mean and *)
(* variance; one Step propagates them through a scheme that reproduces m and *)
(* s2 conditionally (tower law).  TLC checks that this propagation IS the    *)
(* closed-form mean-reverting mean and variance of the CIR process           *)
(* (MeanClosedForm, VarClosedForm) from any starting value.                  *)
(*                                                                           *)
(* One-step layer (what the code must do, both branches of Andersen's QE):   *)
(*   psi <= Switch  quadratic  V' = a (b + Z)^2 with a (1 + b^2) = m and     *)
(*                  2 a^2 (1 + 2 b^2) = psi m^2 (solvable iff psi <= 2)      *)
(*   psi >  Switch  exponential V' = 0 with probability p, else Exp(beta),   *)
(*                  p = (psi - 1)/(psi + 1), beta = (1 - p)/m (needs psi>=1) *)
(* ExpBranchMatches: with these p, beta the mixture has mean m and variance  *)
(* psi m^2 (an identity between rationals).  The harness feeds the real      *)
(* generator Gauss-Hermite nodes as normals / Gauss-Laguerre nodes as        *)
(* uniforms, for which the first two moments of one step are exact sums, and *)
(* compares them with m and s2 emitted here.                                 *)
EXTENDS Rat, TLC, Json

CONSTANTS Thetas, Kappas, Sig2s, V0s, Es,    \* parameter lattices (rationals <<n, d>>)
          N                                   \* number of steps of the moment machine

VARIABLES th, ka, sg2, e, v0, n, mean, var
vars == <<th, ka, sg2, e, v0, n, mean, var>>

Switch == Q(3, 2)                              \* PSI_CRIT of the code; any value in [1, 2] is admissible

\* ---------------------------------------------------------------- conditional moments of one step from v
M(v)   == LAdd(th, LMul(LSub(v, th), e))
OneME  == LSub(ROne, e)
A      == LDiv(LMul(sg2, LMul(e, OneME)), ka)                       \* coefficient of v in s2
B      == LDiv(LMul(th, LMul(sg2, LSq(OneME))), LMul(R(2), ka))     \* constant of s2
S2(v)  == LAdd(LMul(A, v), B)
Psi(v) == LDiv(S2(v), LSq(M(v)))
Branch(v) == IF RLe(Psi(v), Switch) THEN "quadratic" ELSE "exponential"
P(v)    == LDiv(LSub(Psi(v), ROne), LAdd(Psi(v), ROne))
Beta(v) == LDiv(LSub(ROne, P(v)), M(v))

Init == /\ th \in Thetas /\ ka \in Kappas /\ sg2 \in Sig2s /\ e \in Es /\ v0 \in V0s
        /\ n = 0 /\ mean = v0 /\ var = RZero
\* tower law: E[V'] = E[m(V)],  Var[V'] = E[s2(V)] + Var[m(V)]
Step == /\ n < N
        /\ n' = n + 1
        /\ mean' = M(mean)
        /\ var' = LAdd(S2(mean), LMul(LSq(e), var))
        /\ UNCHANGED <<th, ka, sg2, e, v0>>
Next == Step
Spec == Init /\ [][Next]_vars /\ WF_vars(Next)

\* ---------------------------------------------------------------- properties
En == LPow(e, n)
\* the closed-form mean-reverting mean and variance of the CIR process after n steps
MeanClosedForm == mean = LAdd(th, LMul(LSub(v0, th), En))
VarClosedForm  == var = LAdd(LMul(LDiv(LMul(v0, sg2), ka), LSub(En, LSq(En))),
                             LMul(LDiv(LMul(th, sg2), LMul(R(2), ka)), LSq(LSub(ROne, En))))
\* the variance is pulled towards the stationary value theta sigma^2 / (2 kappa) and the mean towards theta
MeanMovesTowardsTheta == [][RLe(RAbs(LSub(mean', th)), RAbs(LSub(mean, th)))]_vars
\* both branches are available where they are used
QuadraticSolvable   == Branch(v0) = "quadratic" => RLe(Psi(v0), R(2))
ExponentialAdmissible == Branch(v0) = "exponential" => /\ RLe(ROne, Psi(v0)) /\ RLe(RZero, P(v0)) /\ RLt(P(v0), ROne) /\ RLt(RZero, Beta(v0))
\* the exponential mixture reproduces m and psi m^2.  Its mean is (1-p)/beta and its second moment 2 (1-p)/beta^2, so
\*   variance = 2 (1-p)/beta^2 - m^2 = m^2 (2/(1-p) - 1) = m^2 (1+p)/(1-p)   (using beta = (1-p)/m),
\* which is psi m^2 exactly when (1+p)/(1-p) = psi.  (Stated in this reduced form to stay inside TLC's 32-bit integers.)
ExpBranchMatches == Branch(v0) = "exponential" =>
                      /\ LDiv(LSub(ROne, P(v0)), Beta(v0)) = M(v0)
                      /\ LDiv(LAdd(ROne, P(v0)), LSub(ROne, P(v0))) = Psi(v0)
Terminates == <>(n = N)

Emit == (n = 0) => PrintT(ToJson([rec |-> "cir_step", theta |-> th, kappa |-> ka, sigma2 |-> sg2, E |-> e, v |-> v0,
                                    m |-> M(v0), s2 |-> S2(v0), psi |-> Psi(v0), branch |-> Branch(v0),
                                    p |-> IF Branch(v0) = "exponential" THEN P(v0) ELSE RZero,
                                    beta |-> IF Branch(v0) = "exponential" THEN Beta(v0) ELSE RZero]))
=============================================================================
