SPECIFICATION Spec
CONSTANTS
  Prims <- P2
  BufNames <- Bufs2
  Floats <- F4
  Defaults <- D2
  InitDefaults <- D2
  InitDeclared <- AllDecl
  Hows <- HowsAll
  Vias <- ViasAll
  MaxDepth <- Unbounded
INVARIANT TypeOK
INVARIANT Contract
PROPERTY SimulateUniform
PROPERTY SimulateInDeclared
PROPERTY RejectedIsNoop
PROPERTY Locality
CHECK_DEADLOCK FALSE
VIEW state
