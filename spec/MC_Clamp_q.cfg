SPECIFICATION Spec
CONSTANTS
  Xs <- XsA
  Bounds <- BoundsA
  Slopes <- SlopesA
  Modes <- ModesA
INVARIANT PipelineIsCases
INVARIANT ClampCases
INVARIANT SlopeLimits
INVARIANT Emit
CHECK_DEADLOCK FALSE
