------------------------------ MODULE Session ------------------------------
(* C16 - computations never mutate market data nor depend on call history.  *)
(*                                                                          *)
(* Abstract state of a user session: primaries with buffers identified by   *)
(* VERSION numbers (a version stands for one content of a buffer: a new     *)
(* simulation or a cast produces a version never seen before), derivatives  *)
(* over them (two derivatives may share an underlier), hedgers with a       *)
(* parameter version and the state they carry between calls (prev_output:   *)
(* shape and the call it stems from), and a memo of results:                *)
(*     memo[<<operation, hedger parameters, derivative, versions read>>]    *)
(* Public operations are actions.  Read-only operations leave every version *)
(* unchanged (Purity); an operation on a derivative touches only its own    *)
(* underlier (Locality); the result of a computation is a function of the   *)
(* memo key alone - not of the hedger object used, nor of what it computed  *)
(* before (HistoryIndependent).  compute_hedge is modelled with its         *)
(* internal steps ResetPrev / Run so that the carried prev_output is        *)
(* explicit; add_clause changes a derivative's payoff, re-listing its listed   *)
(* price, fit() the parameters                                               *)
(* of one hedger.                                                            *)
(* (carried prev_output:                                                     *)
(* explicit: Run reads the prev_output left by ResetPrev, never a stale one.*)
EXTENDS Integers, Sequences, FiniteSets, TLC, Json

CONSTANTS Prims, Derivs, UL,          \* UL: Derivs -> Prims
          Hedgers, StateDep,          \* StateDep: Hedgers -> BOOLEAN (reads prev_hedge)
          Paths,                      \* path counts, e.g. {2, 3}
          MaxDepth

VARIABLES ver,        \* ver[p]: version of p's buffers (0 = never simulated)
          npaths,     \* npaths[p]
          next,       \* next fresh version
          pver,       \* pver[h]: parameter version of hedger h
          prev,       \* prev[h]: [n, src] state carried by the hedger: shape and provenance ("zeros" or a result id)
          memo,       \* function from keys to result ids
          nres,       \* next fresh result id
          cver,       \* cver[d]: number of clauses registered on derivative d (its payoff changes with every clause)
          pnext,      \* next fresh parameter version
          kver,       \* kver[d]: version of derivative d's contract terms (re-struck after it was first used)
          uver,       \* uver[p]: version of primary p's parameters (cost rate changed after it was first used)
          lver,       \* lver[d]: how often derivative d has been re-listed with another pricer (its listed price changes)
          hist
vars == <<ver, npaths, next, pver, prev, memo, nres, cver, pnext, lver, kver, uver, hist>>

ReadOnlyOps == {"Payoff", "Features", "ListedSpot", "ComputeHedge", "ComputePortfolio", "ComputePL", "Criterion"}
\* what a result may depend on: the operation, the hedger's PARAMETERS (not the hedger object), the derivative with its
\* clauses, and the versions of the buffers it reads
Key(op, h, d) == <<op, IF h = "-" THEN 0 ELSE pver[h], d, ver[UL[d]], cver[d], lver[d], kver[d], uver[UL[d]]>>

Init == /\ ver = [p \in Prims |-> 0] /\ npaths = [p \in Prims |-> 0] /\ next = 1
        /\ pver = [h \in Hedgers |-> 1]           \* all hedgers start from the same parameters (a clone is "fresh")
        /\ prev = [h \in Hedgers |-> [n |-> 0, src |-> "none"]]
        /\ memo = <<>> /\ nres = 1 /\ cver = [d \in Derivs |-> 0] /\ pnext = 2 /\ lver = [d \in Derivs |-> 0] /\ kver = [d \in Derivs |-> 0] /\ uver = [p \in Prims |-> 0] /\ hist = <<>>

Room == Len(hist) < MaxDepth
Lookup(k) == IF k \in DOMAIN memo THEN memo[k] ELSE nres
\* the result `id` of a computation with key k: the remembered one if the key was seen, otherwise a new entry
Remember(k, id) == /\ (k \in DOMAIN memo => id = memo[k])
                   /\ memo' = IF k \in DOMAIN memo THEN memo ELSE memo @@ (k :> id)
                   /\ nres' = IF id >= nres THEN id + 1 ELSE nres
Log(e) == hist' = Append(hist, e @@ [ver |-> ver', npaths |-> npaths', cv |-> cver'[e.d], lv |-> lver'[e.d], kv |-> kver'[e.d], uv |-> uver'[UL[e.d]], pv |-> IF e.h = "-" THEN 0 ELSE pver'[e.h]])

\* v: the version of the freshly simulated buffers - never seen before
Simulate(d, n, v) ==
  /\ Room /\ v >= next
  /\ ver' = [ver EXCEPT ![UL[d]] = v] /\ next' = v + 1
  /\ npaths' = [npaths EXCEPT ![UL[d]] = n]
  /\ UNCHANGED <<pver, prev, memo, nres, cver, pnext, lver, kver, uver>>
  /\ Log([op |-> "Simulate", h |-> "-", d |-> d, n |-> n, res |-> 0])

\* a read-only computation that does not involve a hedger
Read(op, d, id) ==
  /\ Room /\ ver[UL[d]] # 0 /\ op \in {"Payoff", "Features", "ListedSpot"}
  /\ Remember(Key(op, "-", d), id)
  /\ UNCHANGED <<ver, npaths, next, pver, prev, cver, pnext, lver, kver, uver>>
  /\ Log([op |-> op, h |-> "-", d |-> d, n |-> 0, res |-> id])

\* compute_hedge / compute_portfolio / compute_pl: ResetPrev then Run, folded into one atomic public call
Compute(op, h, d, id) ==
  /\ Room /\ ver[UL[d]] # 0 /\ op \in {"ComputeHedge", "ComputePortfolio", "ComputePL"}
  /\ LET prev0 == [n |-> npaths[UL[d]], src |-> "zeros"]        \* ResetPrev: what step 0 reads
         k == Key(op, h, d)
     IN  /\ Remember(k, id)
         /\ prev' = [prev EXCEPT ![h] = IF StateDep[h] THEN [n |-> prev0.n, src |-> "own-output"] ELSE [n |-> prev0.n, src |-> "whole-output"]]
  /\ UNCHANGED <<ver, npaths, next, pver, cver, pnext, lver, kver, uver>>
  /\ Log([op |-> op, h |-> h, d |-> d, n |-> 0, res |-> id])

\* compute_loss / price: a fresh simulation followed by a read-only computation on it
SimCompute(op, h, d, n, v) ==
  /\ Room /\ op \in {"ComputeLoss", "Price"} /\ v >= next
  /\ ver' = [ver EXCEPT ![UL[d]] = v] /\ next' = v + 1
  /\ npaths' = [npaths EXCEPT ![UL[d]] = n]
  /\ prev' = [prev EXCEPT ![h] = [n |-> n, src |-> IF StateDep[h] THEN "own-output" ELSE "whole-output"]]
  /\ UNCHANGED <<pver, memo, nres, cver, pnext, lver, kver, uver>>
  /\ Log([op |-> op, h |-> h, d |-> d, n |-> n, res |-> 0])

\* add_clause: changes what the derivative pays, touches no market data and no hedger
AddClause(d) ==
  /\ Room /\ cver[d] < 2
  /\ cver' = [cver EXCEPT ![d] = cver[d] + 1]
  /\ UNCHANGED <<ver, npaths, next, pver, prev, memo, nres, pnext, lver, kver, uver>>
  /\ Log([op |-> "AddClause", h |-> "-", d |-> d, n |-> 0, res |-> 0])

\* delist() + list(another pricer): the listed price of THIS derivative changes; no market data, no hedger is touched
Relist(d) ==
  /\ Room /\ lver[d] < 2
  /\ lver' = [lver EXCEPT ![d] = lver[d] + 1]
  /\ UNCHANGED <<ver, npaths, next, pver, prev, memo, nres, cver, pnext, kver, uver>>
  /\ Log([op |-> "Relist", h |-> "-", d |-> d, n |-> 0, res |-> 0])

\* the contract is re-struck (derivative.strike = ...) / the underlier's cost rate is changed after first use: public
\* attributes; every later result is the one of the CURRENT terms (nothing remembered from before may be used)
Restrike(d) ==
  /\ Room /\ kver[d] < 2
  /\ kver' = [kver EXCEPT ![d] = kver[d] + 1]
  /\ UNCHANGED <<ver, npaths, next, pver, prev, memo, nres, cver, pnext, lver, uver>>
  /\ Log([op |-> "Restrike", h |-> "-", d |-> d, n |-> 0, res |-> 0])
SetCost(d) ==
  /\ Room /\ uver[UL[d]] < 2
  /\ uver' = [uver EXCEPT ![UL[d]] = uver[UL[d]] + 1]
  /\ UNCHANGED <<ver, npaths, next, pver, prev, memo, nres, cver, pnext, lver, kver>>
  /\ Log([op |-> "SetCost", h |-> "-", d |-> d, n |-> 0, res |-> 0])

\* fit for one epoch: a fresh simulation and one optimiser step - the parameters of THIS hedger (only) get a new version
Fit(h, d, n, v, pv) ==
  /\ Room /\ v >= next /\ pv >= pnext
  /\ ver' = [ver EXCEPT ![UL[d]] = v] /\ next' = v + 1
  /\ npaths' = [npaths EXCEPT ![UL[d]] = n]
  /\ pver' = [pver EXCEPT ![h] = pv] /\ pnext' = pv + 1
  /\ prev' = [prev EXCEPT ![h] = [n |-> n, src |-> IF StateDep[h] THEN "own-output" ELSE "whole-output"]]
  /\ UNCHANGED <<memo, nres, cver, lver, kver, uver>>
  /\ Log([op |-> "Fit", h |-> h, d |-> d, n |-> n, res |-> 0])

\* a computation that RAISES half-way (the model raises at some time step of compute_hedge / compute_pl): nothing the caller can
\* observe has changed - no buffer, no parameter, no remembered result - and what the hedger carries from the aborted evaluation
\* is never read by a later one (every evaluation starts with ResetPrev)
Abort(h, d) ==
  /\ Room /\ ver[UL[d]] # 0
  /\ prev' = [prev EXCEPT ![h] = [n |-> npaths[UL[d]], src |-> "aborted"]]
  /\ UNCHANGED <<ver, npaths, next, pver, memo, nres, cver, pnext, lver, kver, uver>>
  /\ Log([op |-> "Abort", h |-> h, d |-> d, n |-> 0, res |-> 0])

Next == \/ \E d \in Derivs, n \in Paths : Simulate(d, n, next)
        \/ \E d \in Derivs, h \in Hedgers : Abort(h, d)
        \/ \E d \in Derivs : AddClause(d)
        \/ \E d \in Derivs : Relist(d)
        \/ \E d \in Derivs : Restrike(d) \/ SetCost(d)
        \/ \E d \in Derivs, h \in Hedgers, n \in Paths : Fit(h, d, n, next, pnext)
        \/ \E d \in Derivs, op \in {"Payoff", "Features", "ListedSpot"} : Read(op, d, Lookup(Key(op, "-", d)))
        \/ \E d \in Derivs, h \in Hedgers, op \in {"ComputeHedge", "ComputePortfolio", "ComputePL"} : Compute(op, h, d, Lookup(Key(op, h, d)))
        \/ \E d \in Derivs, h \in Hedgers, n \in Paths, op \in {"ComputeLoss", "Price"} : SimCompute(op, h, d, n, next)
Spec == Init /\ [][Next]_vars

\* ------------------------------------------------------------------ properties
Last == hist'[Len(hist')]
Purity   == [][(hist' # hist /\ Last.op \in ReadOnlyOps \cup {"Abort"}) => (ver' = ver /\ npaths' = npaths)]_vars
\* an aborted computation leaves no trace in anything a result may depend on
AbortLeavesNothing == [][(hist' # hist /\ Last.op = "Abort") => (memo' = memo /\ pver' = pver /\ cver' = cver /\ lver' = lver /\ kver' = kver /\ uver' = uver)]_vars
Locality == [][(hist' # hist) => \A p \in Prims : p # UL[Last.d] => (ver'[p] = ver[p] /\ npaths'[p] = npaths[p])]_vars
FreshOnSimulate == [][(hist' # hist /\ Last.op \in {"Simulate", "ComputeLoss", "Price", "Fit"}) => ver'[UL[Last.d]] > ver[UL[Last.d]]]_vars
\* parameters change only in fit(), and only those of the hedger that is fitted
ParamsChangeOnlyInFit == [][\A h \in Hedgers : pver'[h] # pver[h] => (hist' # hist /\ Last.op = "Fit" /\ Last.h = h)]_vars
\* results are a function of the key: two hedgers with the same parameters agree, whatever they computed before
HistoryIndependent ==
  \A i, j \in 1..Len(hist) :
    (/\ hist[i].op = hist[j].op /\ hist[i].op \in ReadOnlyOps
     /\ hist[i].d = hist[j].d /\ hist[i].ver[UL[hist[i].d]] = hist[j].ver[UL[hist[j].d]]
     /\ hist[i].cv = hist[j].cv /\ hist[i].lv = hist[j].lv /\ hist[i].kv = hist[j].kv /\ hist[i].uv = hist[j].uv /\ hist[i].pv = hist[j].pv)
    => hist[i].res = hist[j].res
\* the state a state-dependent hedger carries always has the shape of its last evaluation (never read across calls)
CarriedStateIsOwn == \A h \in Hedgers : prev[h].src \in {"none", "own-output", "whole-output", "aborted"}
\* ... and a completed evaluation never leaves the state of an aborted one behind
CompletedOverwritesAborted == [][(hist' # hist /\ Last.op \in {"ComputeHedge", "ComputePortfolio", "ComputePL", "ComputeLoss", "Price", "Fit"}) => prev'[Last.h].src # "aborted"]_vars

Emit == (Len(hist) = MaxDepth) => PrintT(ToJson([hist |-> hist]))
=============================================================================
