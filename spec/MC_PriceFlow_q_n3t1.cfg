SPECIFICATION Spec
CONSTANTS
  T = 2
  H = 1
  K = 2
  DtNum = 1
  DtDen = 4
  Spots = {1,4}
  NPaths = 3
  NTimes = 1
  Configs <- PConfigs
  Shifts <- ShiftsA
  Crits <- CritsA
INVARIANT PriceShift
INVARIANT PriceIsLoss
INVARIANT OneDrawPerTime
INVARIANT FreshBuffers
INVARIANT Emit
PROPERTY Terminates
CHECK_DEADLOCK FALSE
