SPECIFICATION Spec
CONSTANTS
  Kinds <- AllKinds
  NPaths = {1, 3}
  Steps = {1, 2, 5, 21}
  MaxDepth = 3
INVARIANT UniformShape
INVARIANT NothingSurvives
INVARIANT Emit
PROPERTY SimulateReplacesAll
CHECK_DEADLOCK FALSE
