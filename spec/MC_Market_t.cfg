SPECIFICATION Spec
CONSTANTS
  Kinds <- AllKinds
  NPaths = {1, 3}
  HalfSteps = {0, 3, 8, 41}
  MaxDepth = 3
INVARIANT UniformShape
INVARIANT NothingSurvives
INVARIANT StepsCoverHorizon
INVARIANT Emit
PROPERTY SimulateReplacesAll
CHECK_DEADLOCK FALSE
