SPECIFICATION Spec
CONSTANTS
  Prims <- P2
  BufNames <- Bufs2
  Floats <- F3
  Defaults <- D2
  InitDefaults <- DefF32
  InitDeclared <- FewDecl
  Hows <- HowsOne
  Vias <- ViasOne
  MaxDepth = 3
INVARIANT TypeOK
INVARIANT Contract
PROPERTY SimulateUniform
PROPERTY SimulateInDeclared
PROPERTY RejectedIsNoop
PROPERTY Locality
CHECK_DEADLOCK FALSE
INVARIANT Emit
