------------------------------ MODULE Bisect ------------------------------
(* C19 - pfhedge._utils.bisect.bisect as a PlusCal algorithm.               *)
(*                                                                          *)
(* The search runs element-wise over E elements.  Positions live on an      *)
(* integer grid 0..W (one unit = bracket width / W, a power of two, so the  *)
(* midpoints the real code computes are exactly representable); element e   *)
(* has its own monotone table F[e] : 0..W -> values and its own target.     *)
(* precision P is given in grid units; P = 0 models "precision below the    *)
(* resolution of the floating-point grid": the midpoint of two adjacent     *)
(* points is not representable and rounds to the even neighbour (IEEE       *)
(* round-half-even; the harness replays P = 0 with one grid unit = one ulp) *)
(* so the loop stops making progress and must abort after MaxIter           *)
(* iterations unless the bracket collapses.                                 *)
EXTENDS Integers, Sequences, FiniteSets, TLC, Json

CONSTANTS E, W, Tables, Targets, Precisions, MaxIters

Elems == 1..E
Max(S) == CHOOSE x \in S : \A y \in S : y <= x

(* --fair algorithm Bisect {
  variables F \in [Elems -> Tables], target \in [Elems -> Targets], P \in Precisions, maxIter \in MaxIters,
            lower = [e \in Elems |-> 0], upper = [e \in Elems |-> W],
            sign = 1,            \* -1 after the decreasing-function reflection
            n = 0, m = [e \in Elems |-> 0], out = [e \in Elems |-> 0],
            evals = <<>>,        \* midpoints evaluated so far (the trace the harness records)
            result = <<>>, status = "running";

  \* fn as the loop sees it (negated for decreasing functions)
  define { RoundMid(a, b) == IF (a + b) % 2 = 0 THEN (a + b) \div 2
                             ELSE IF ((a + b) \div 2) % 2 = 0 THEN (a + b) \div 2 ELSE (a + b) \div 2 + 1
           G(e, x) == sign * F[e][x]
           Tgt(e)  == sign * target[e] }

  { Bracket:   if (~(\A e \in Elems : lower[e] < upper[e])) { status := "ValueError"; goto Done };
    Direction: if (\A e \in Elems : F[e][lower[e]] > F[e][upper[e]]) { sign := -1 };
    Test:      while (Max({upper[e] - lower[e] : e \in Elems}) > P) {
                 n := n + 1;
                 if (n > maxIter) { status := "RuntimeError"; goto Done };
    Mid:         m := [e \in Elems |-> RoundMid(lower[e], upper[e])];
                 evals := Append(evals, m);
    Eval:        out := [e \in Elems |-> G(e, m[e])];
    Update:      lower := [e \in Elems |-> IF out[e] >= Tgt(e) THEN lower[e] ELSE m[e]];
                 upper := [e \in Elems |-> IF out[e] <  Tgt(e) THEN upper[e] ELSE m[e]];
               };
    Return:    result := upper; status := "returned";
  }
} *)
\* BEGIN TRANSLATION
VARIABLES pc, F, target, P, maxIter, lower, upper, sign, n, m, out, evals, 
          result, status

(* define statement *)
RoundMid(a, b) == IF (a + b) % 2 = 0 THEN (a + b) \div 2
                  ELSE IF ((a + b) \div 2) % 2 = 0 THEN (a + b) \div 2 ELSE (a + b) \div 2 + 1
G(e, x) == sign * F[e][x]
Tgt(e)  == sign * target[e]


vars == << pc, F, target, P, maxIter, lower, upper, sign, n, m, out, evals, 
           result, status >>

Init == (* Global variables *)
        /\ F \in [Elems -> Tables]
        /\ target \in [Elems -> Targets]
        /\ P \in Precisions
        /\ maxIter \in MaxIters
        /\ lower = [e \in Elems |-> 0]
        /\ upper = [e \in Elems |-> W]
        /\ sign = 1
        /\ n = 0
        /\ m = [e \in Elems |-> 0]
        /\ out = [e \in Elems |-> 0]
        /\ evals = <<>>
        /\ result = <<>>
        /\ status = "running"
        /\ pc = "Bracket"

Bracket == /\ pc = "Bracket"
           /\ IF ~(\A e \in Elems : lower[e] < upper[e])
                 THEN /\ status' = "ValueError"
                      /\ pc' = "Done"
                 ELSE /\ pc' = "Direction"
                      /\ UNCHANGED status
           /\ UNCHANGED << F, target, P, maxIter, lower, upper, sign, n, m, 
                           out, evals, result >>

Direction == /\ pc = "Direction"
             /\ IF \A e \in Elems : F[e][lower[e]] > F[e][upper[e]]
                   THEN /\ sign' = -1
                   ELSE /\ TRUE
                        /\ sign' = sign
             /\ pc' = "Test"
             /\ UNCHANGED << F, target, P, maxIter, lower, upper, n, m, out, 
                             evals, result, status >>

Test == /\ pc = "Test"
        /\ IF Max({upper[e] - lower[e] : e \in Elems}) > P
              THEN /\ n' = n + 1
                   /\ IF n' > maxIter
                         THEN /\ status' = "RuntimeError"
                              /\ pc' = "Done"
                         ELSE /\ pc' = "Mid"
                              /\ UNCHANGED status
              ELSE /\ pc' = "Return"
                   /\ UNCHANGED << n, status >>
        /\ UNCHANGED << F, target, P, maxIter, lower, upper, sign, m, out, 
                        evals, result >>

Mid == /\ pc = "Mid"
       /\ m' = [e \in Elems |-> RoundMid(lower[e], upper[e])]
       /\ evals' = Append(evals, m')
       /\ pc' = "Eval"
       /\ UNCHANGED << F, target, P, maxIter, lower, upper, sign, n, out, 
                       result, status >>

Eval == /\ pc = "Eval"
        /\ out' = [e \in Elems |-> G(e, m[e])]
        /\ pc' = "Update"
        /\ UNCHANGED << F, target, P, maxIter, lower, upper, sign, n, m, evals, 
                        result, status >>

Update == /\ pc = "Update"
          /\ lower' = [e \in Elems |-> IF out[e] >= Tgt(e) THEN lower[e] ELSE m[e]]
          /\ upper' = [e \in Elems |-> IF out[e] <  Tgt(e) THEN upper[e] ELSE m[e]]
          /\ pc' = "Test"
          /\ UNCHANGED << F, target, P, maxIter, sign, n, m, out, evals, 
                          result, status >>

Return == /\ pc = "Return"
          /\ result' = upper
          /\ status' = "returned"
          /\ pc' = "Done"
          /\ UNCHANGED << F, target, P, maxIter, lower, upper, sign, n, m, out, 
                          evals >>

(* Allow infinite stuttering to prevent deadlock on termination. *)
Terminating == pc = "Done" /\ UNCHANGED vars

Next == Bracket \/ Direction \/ Test \/ Mid \/ Eval \/ Update \/ Return
           \/ Terminating

Spec == /\ Init /\ [][Next]_vars
        /\ WF_vars(Next)

Termination == <>(pc = "Done")

\* END TRANSLATION

\* ------------------------------------------------------------------ properties
Monotone(e)   == (\A a, b \in 0..W : a <= b => F[e][a] <= F[e][b]) \/ (\A a, b \in 0..W : a <= b => F[e][a] >= F[e][b])
Increasing(e) == \A a, b \in 0..W : a <= b => F[e][a] <= F[e][b]
Decreasing(e) == \A a, b \in 0..W : a <= b => F[e][a] >= F[e][b]
\* the cases the property speaks about: all elements monotone in the same direction, targets inside the range
SameDirection == (\A e \in Elems : Increasing(e)) \/ (\A e \in Elems : Decreasing(e) /\ F[e][0] > F[e][W])
InRange(e)    == \/ F[e][0] <= target[e] /\ target[e] <= F[e][W]
                 \/ F[e][W] <= target[e] /\ target[e] <= F[e][0]
Admissible    == SameDirection /\ \A e \in Elems : InRange(e)

\* the loop invariant: the crossing point of the (reflected) function stays bracketed
Bracketed == (Admissible /\ pc \in {"Test", "Mid", "Eval", "Update", "Return"}) =>
               \A e \in Elems : /\ G(e, upper[e]) >= Tgt(e)
                                /\ (lower[e] = 0 \/ G(e, lower[e]) < Tgt(e))
                                /\ lower[e] <= upper[e]
\* on return every element is within the precision of a crossing point: the final bracket has width <= P and
\* still contains the crossing
WithinPrecision == (Admissible /\ status = "returned") =>
                     \A e \in Elems : /\ upper[e] - lower[e] <= P
                                      /\ result[e] = upper[e]
                                      /\ G(e, upper[e]) >= Tgt(e)
                                      /\ (lower[e] = 0 \/ G(e, lower[e]) < Tgt(e))
\* number of iterations = ceil(log2(W / P))
RECURSIVE Halvings(_, _)
Halvings(w, p) == IF w <= p THEN 0 ELSE 1 + Halvings((w + 1) \div 2, p)
IterationCount == (status = "returned" /\ P >= 1) => n = Halvings(W, P)
\* it stops with an error rather than looping
NoSilentFailure == status \in {"running", "returned", "RuntimeError", "ValueError"}
AbortOnlyWhenStuck == status = "RuntimeError" => n = maxIter + 1
\* each element's result depends only on its own table and target: it is what a scalar run computes
RECURSIVE Solo(_, _, _, _, _)
Solo(e, lo, hi, k, sg) == IF hi - lo <= P \/ k = 0 THEN hi
                          ELSE LET mid == RoundMid(lo, hi)
                               IN  IF sg * F[e][mid] >= sg * target[e] THEN Solo(e, lo, mid, k - 1, sg) ELSE Solo(e, mid, hi, k - 1, sg)
ElementwiseIndependent == (Admissible /\ status = "returned" /\ P >= 1) =>
                            \A e \in Elems : result[e] = Solo(e, 0, W, n, sign)

Emit == (pc = "Done") =>
          PrintT(ToJson([F |-> F, target |-> target, P |-> P, maxIter |-> maxIter, status |-> status, n |-> n,
                         evals |-> evals, result |-> result, sign |-> sign, admissible |-> Admissible]))
=============================================================================
