SPECIFICATION Spec
CONSTANTS
  Kinds <- AllKinds
  NPaths = {1, 3}
  HalfSteps = {0, 2, 3, 8}
  MaxDepth = 2
INVARIANT UniformShape
INVARIANT NothingSurvives
INVARIANT StepsCoverHorizon
INVARIANT Emit
PROPERTY SimulateReplacesAll
CHECK_DEADLOCK FALSE
