SPECIFICATION Spec
CONSTANTS
  Kinds <- AllKinds
  NPaths = {1, 3}
  Steps = {1, 2, 5}
  MaxDepth = 2
INVARIANT UniformShape
INVARIANT NothingSurvives
INVARIANT Emit
PROPERTY SimulateReplacesAll
CHECK_DEADLOCK FALSE
