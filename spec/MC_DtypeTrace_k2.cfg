SPECIFICATION TSpec
CONSTANTS
  Prims <- P1
  BufNames <- BufsK2
  Floats <- F4
  Defaults <- D2
  InitDefaults <- D2
  InitDeclared <- OneDecl
  Hows <- HowsAll
  Vias <- ViasAll
  MaxDepth <- Unbounded
INVARIANT Contract
CONSTRAINT Progress
POSTCONDITION Accepted
CHECK_DEADLOCK FALSE
