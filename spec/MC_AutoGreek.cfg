SPECIFICATION Spec
CONSTANTS
  Points <- PointsA
  Pricers <- PricersA
  Callers <- CallersA
INVARIANT PricerCallable
INVARIANT TotalDerivative
INVARIANT JetEqualsCentralDifference
INVARIANT Emit
PROPERTY Terminates
CHECK_DEADLOCK FALSE
