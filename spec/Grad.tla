-------------------------------- MODULE Grad --------------------------------
(* C14 - loss gradients through the hedger are the true gradients.           *)
(*                                                                          *)
(* The hedging pipeline of Hedge.tla (features -> model -> positions with   *)
(* the recurrent prev_hedge input -> self-financing account with costs ->   *)
(* P&L -> criterion) evaluated over DUAL NUMBERS: every quantity is a jet   *)
(*     [v |-> value, d |-> <<d/dtheta_1, ..., d/dtheta_NP>>]                *)
(* of exact rationals, the parameters theta = (W_1 .. W_F, B [, w]) of the   *)
(* model y = [relu](W . x + B) (and of an OCE criterion) being the formal   *)
(* variables.  This is forward-mode differentiation of the SPECIFICATION'S  *)
(* loss - independent of PyTorch's reverse-mode graph - so the emitted      *)
(* gradient is the true derivative the property speaks about.               *)
(* Non-generic points (a kink of |.| or relu at 0, a tie at the expected-   *)
(* shortfall threshold) are excluded, as the property allows.               *)
EXTENDS Features, SequencesExt, TLC, Json

CONSTANTS Paths1, Paths2,      \* sets of price paths (sequences of length T) for path 1 and path 2
          GConfigs, Crits       \* model/feature configurations and criteria

VARIABLES p1, p2, cfg, crit
vars == <<p1, p2, cfg, crit>>

F  == Len(cfg.W)                      \* number of input columns (H = 1)
NP == F + 1 + (IF crit = "oce" THEN 1 ELSE 0)

\* ---------------------------------------------------------------- jets
Z0 == [k \in 1..NP |-> RZero]
C(q)        == [v |-> q, d |-> Z0]
Par(q, j)   == [v |-> q, d |-> [k \in 1..NP |-> IF k = j THEN ROne ELSE RZero]]
DAdd(a, b)  == [v |-> RAdd(a.v, b.v), d |-> [k \in 1..NP |-> RAdd(a.d[k], b.d[k])]]
DNeg(a)     == [v |-> RNeg(a.v), d |-> [k \in 1..NP |-> RNeg(a.d[k])]]
DSub(a, b)  == DAdd(a, DNeg(b))
DMul(a, b)  == [v |-> RMul(a.v, b.v), d |-> [k \in 1..NP |-> RAdd(RMul(a.d[k], b.v), RMul(a.v, b.d[k]))]]
DScale(a, q) == [v |-> RMul(a.v, q), d |-> [k \in 1..NP |-> RMul(a.d[k], q)]]
DAbs(a)     == IF RSgn(a.v) >= 0 THEN a ELSE DNeg(a)
DRelu(a)    == IF RSgn(a.v) > 0 THEN a ELSE C(RZero)
RECURSIVE DSumTo(_, _)
DSumTo(s, k) == IF k = 0 THEN C(RZero) ELSE DAdd(DSumTo(s, k - 1), s[k])
DSum(s) == DSumTo(s, Len(s))

\* ---------------------------------------------------------------- the pipeline over jets
W(j) == Par(R(cfg.W[j]), j)
B    == Par(R(cfg.B), F + 1)
Mk(sp) == [spot |-> sp, var |-> [j \in 1..T |-> 4], spot2 |-> [j \in 1..T |-> 1]]

\* input column c of the model at step `step`: constants except the prev_hedge column
Col(fs, c, step, mk, prev) ==
  IF fs[c] = "prev_hedge" THEN prev ELSE C(At(fs[c], step, mk, <<>>)[1])
RECURSIVE Decide(_, _)
Decide(mk, step) ==
  LET prev == IF step = 0 THEN C(RZero) ELSE Decide(mk, step - 1)
      lin  == DAdd(DSum([c \in 1..F |-> DMul(W(c), Col(cfg.feats, c, step, mk, prev))]), B)
  IN  IF cfg.kind = "relu" THEN DRelu(lin) ELSE lin
Pre(mk, step) ==     \* pre-activation, to recognise kinks
  LET prev == IF step = 0 THEN C(RZero) ELSE Decide(mk, step - 1)
  IN  DAdd(DSum([c \in 1..F |-> DMul(W(c), Col(cfg.feats, c, step, mk, prev))]), B)
Hedge(mk, j) == Decide(mk, IF j < T THEN j - 1 ELSE T - 2)            \* column j (1-based); last column duplicated
Gains(mk)  == DSum([j \in 1..(T - 1) |-> DScale(Hedge(mk, j), R(mk.spot[j + 1] - mk.spot[j]))])
Costs(mk)  == DAdd(DScale(DAbs(Hedge(mk, 1)), RMul(cfg.cost, R(mk.spot[1]))),
                   DSum([j \in 1..(T - 1) |-> DScale(DAbs(DSub(Hedge(mk, j + 1), Hedge(mk, j))), RMul(cfg.cost, R(mk.spot[j + 1])))]))
Portfolio(mk) == DSub(Gains(mk), Costs(mk))
Payoff(mk) == R(IMax(mk.spot[T] - K, 0))
PL(mk) == DSub(Portfolio(mk), C(Payoff(mk)))

M1 == Mk(p1)  M2 == Mk(p2)
Wp == Par(R(1), NP)                                  \* the OCE parameter w (value 1)
U(z) == DSub(z, DScale(DMul(z, z), Q(1, 8)))         \* u(z) = z - z^2 / 8
Loss ==
  CASE crit = "es_half" -> DNeg(IF RLt(PL(M1).v, PL(M2).v) THEN PL(M1) ELSE PL(M2))          \* ES_{1/2} of two paths
    [] crit = "es_one"  -> DNeg(DScale(DAdd(PL(M1), PL(M2)), Q(1, 2)))                         \* ES_1 = -mean
    [] crit = "mse"     -> DScale(DAdd(DMul(PL(M1), PL(M1)), DMul(PL(M2), PL(M2))), Q(1, 2))    \* MSELoss(portfolio, payoff)
    [] crit = "oce"     -> DSub(Wp, DScale(DAdd(U(DAdd(PL(M1), Wp)), U(DAdd(PL(M2), Wp))), Q(1, 2)))

\* generic parameter point: no kink is hit
Generic ==
  /\ \A mk \in {M1, M2} :
       /\ RSgn(Hedge(mk, 1).v) # 0 \/ cfg.cost = RZero
       /\ \A j \in 1..(T - 2) : RSgn(DSub(Hedge(mk, j + 1), Hedge(mk, j)).v) # 0 \/ cfg.cost = RZero
       /\ cfg.kind = "relu" => \A step \in 0..(T - 2) : RSgn(Pre(mk, step).v) # 0
  /\ crit = "es_half" => PL(M1).v # PL(M2).v

Init == p1 \in Paths1 /\ p2 \in Paths2 /\ cfg \in GConfigs /\ crit \in Crits
Next == UNCHANGED vars
Spec == Init /\ [][Next]_vars

\* ---------------------------------------------------------------- design-level checks
\* a model that ignores its inputs (all weights zero) has zero gradient with respect to the weights of zero features
ZeroFeatureZeroGrad == \A c \in 1..F : cfg.feats[c] = "zeros" => Loss.d[c] = RZero
\* without costs the P&L is affine in the bias of a linear model without recurrence: d PL / dB = S_T - S_1
BiasIsBuyAndHold == (cfg.kind = "linear" /\ cfg.cost = RZero /\ \A c \in 1..F : cfg.feats[c] # "prev_hedge")
                      => PL(M1).d[F + 1] = R(p1[T] - p1[1])

Emit == Generic => PrintT(ToJson([p1 |-> p1, p2 |-> p2, cfg |-> cfg, crit |-> crit, loss |-> Loss.v, grad |-> Loss.d,
                                  hedge1 |-> [j \in 1..T |-> Hedge(M1, j).v], pl |-> <<PL(M1).v, PL(M2).v>>]))
=============================================================================
