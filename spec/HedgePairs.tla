---------------------------- MODULE HedgePairs ----------------------------
(* C02 as a 2-safety property, by self-composition: two paths mA, mB that   *)
(* agree on all columns up to the cut (0-based step `cut`) and differ       *)
(* arbitrarily afterwards must get the same positions for steps 0..cut, for *)
(* every configuration; and each feature's value at step i is the same on   *)
(* two paths that agree on its read set.                                    *)
(* One state per (mA, mB, cut, cfg): Init enumerates, Next stutters.        *)
EXTENDS Features, TLC, Json

CONSTANTS Spots, Vars, Spots2, Configs, EmitMod, EmitRes

VARIABLES mA, mB, cut, cfg
vars == <<mA, mB, cut, cfg>>

H1 == INSTANCE Hedge WITH m <- mA, pc <- "done", i <- 0, prev <- <<>>, rows <- <<>>, outs <- <<>>,
                          hedge <- <<>>, branch <- "none"

Markets == [spot : [1..T -> Spots], var : [1..T -> Vars], spot2 : [1..T -> Spots2]]
AgreeUpTo(a, b, c) == \A j \in 1..(c + 1) : a.spot[j] = b.spot[j] /\ a.var[j] = b.var[j] /\ a.spot2[j] = b.spot2[j]

Cell == [spot : Spots, var : Vars, spot2 : Spots2]
Merge(a, sfx, c) == [spot  |-> [j \in 1..T |-> IF j <= c + 1 THEN a.spot[j]  ELSE sfx[j].spot],
                     var   |-> [j \in 1..T |-> IF j <= c + 1 THEN a.var[j]   ELSE sfx[j].var],
                     spot2 |-> [j \in 1..T |-> IF j <= c + 1 THEN a.spot2[j] ELSE sfx[j].spot2]]
Init == /\ cfg \in Configs /\ mA \in Markets /\ cut \in 0..(T - 2)
        /\ \E sfx \in [(cut + 2)..T -> Cell] : mB = Merge(mA, sfx, cut)
        /\ AgreeUpTo(mA, mB, cut) /\ mA # mB
Next == UNCHANGED vars
Spec == Init /\ [][Next]_vars

HA == H1!HedgeRef(cfg, mA)
HB == H1!HedgeRef(cfg, mB)

\* positions for steps 0..cut coincide; if only the last column differs the whole hedge coincides
NonAnticipative ==
  /\ \A h \in 1..H : \A j \in 1..(cut + 1) : HA[h][j] = HB[h][j]
  /\ cut = T - 2 => HA = HB

\* feature level, semantic: agreeing on the declared read set implies equal value
FeatureReadsSound ==
  \A k \in 1..Len(cfg.feats) : LET f == cfg.feats[k] IN
    ~StateDep(f) => \A step \in 0..(T - 1) :
        AgreeOn(mA, mB, Reads(f, step)) => At(f, step, mA, <<>>) = At(f, step, mB, <<>>)

Checksum == ISum(mA.spot) + 3 * ISum(mA.var) + 5 * ISum(mB.spot) + 7 * ISum(mB.var) + 11 * ISum(mB.spot2) + cut
Emit == ((Checksum % EmitMod) = EmitRes) =>
          PrintT(ToJson([kind |-> "pair", mA |-> mA, mB |-> mB, cut |-> cut, cfg |-> cfg, hedgeA |-> HA, hedgeB |-> HB]))
=============================================================================
