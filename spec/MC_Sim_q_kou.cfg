SPECIFICATION Spec
CONSTANTS
  T = 3
  Zs <- ZsB
  Ns <- NsKou
  Schemes <- Kou
INVARIANT BrownianClosedForm
INVARIANT OUClosedForm
INVARIANT EulerMartingale
INVARIANT JumpFreeReduction
INVARIANT MeanGrowthIsMu
INVARIANT OUVariance
INVARIANT Emit
PROPERTY Terminates
CHECK_DEADLOCK FALSE
