SPECIFICATION Spec
CONSTANTS
  DtSet <- DtAll
  Ks <- KThor
  Fracs <- FAll
INVARIANT StepsIntegral
INVARIANT StepsFractional
INVARIANT TTMDecreasing
INVARIANT TTMZeroAtEnd
INVARIANT TTMStart
INVARIANT StartIsFloor
INVARIANT Emit
CHECK_DEADLOCK FALSE
