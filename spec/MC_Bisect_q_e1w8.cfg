SPECIFICATION Spec
CONSTANTS
  E = 1
  W = 8
  Tables <- Mono8
  Targets = {0,1,2,3}
  Precisions = {0,1,2,4}
  MaxIters = {2,20}
INVARIANT Bracketed
INVARIANT WithinPrecision
INVARIANT IterationCount
INVARIANT NoSilentFailure
INVARIANT AbortOnlyWhenStuck
INVARIANT ElementwiseIndependent
INVARIANT Emit
PROPERTY Termination
CHECK_DEADLOCK FALSE
