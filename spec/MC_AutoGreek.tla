----------------------------- MODULE MC_AutoGreek -----------------------------
EXTENDS AutoGreek
Pt(s, k, sg, t) == [S |-> s, K |-> k, sig |-> sg, t |-> t]
PointsA == { Pt(2, 2, 2, 1), Pt(4, 2, 1, 3), Pt(1, 2, 6, 2), Pt(1, 1, 3, 4), Pt(4, 4, 2, 2), Pt(8, 2, 1, 1) }
Pr(x, y, st, c) == [xarg |-> x, yarg |-> y, strike |-> st, c |-> c]
Coefs == { <<1, 2, 3, 1, -1, 2, 1>>, <<0, -1, 1, 2, 3, 0, -2>>, <<2, 0, -2, -1, 1, 1, 0>> }
PricersA == { Pr(x, y, st, c) : x \in {"spot", "moneyness", "log_moneyness"}, y \in {"volatility", "variance"}, st \in BOOLEAN, c \in Coefs }
CallersA == {"spot", "spot+strike", "moneyness+strike", "log_moneyness+strike"}
=============================================================================
