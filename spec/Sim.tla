-------------------------------- MODULE Sim --------------------------------
(* C10 (path-wise part) and C11 - simulation schemes and generator contracts. *)
(*                                                                          *)
(* Part 1: the discretisation schemes as state machines with one Step(z)    *)
(* action per time step, the standard normal z (and, for Merton, the jump   *)
(* count n and jump normal y) SUPPLIED by the environment.  Values live in  *)
(* exact domains:                                                           *)
(*   kou: <<k, sum z, sum n, sum of signed jump log-sizes>>                   *)
(*   brownian / gbm / merton: coefficient vectors <<k, sum z, sum n, sum y  *)
(*       sqrt n>> of (drift*dt, sigma*sqrt dt, jump_mean, jump_std); for    *)
(*       gbm/merton they describe log(S_k / S_0)                            *)
(*   vasicek: X_k = theta + c0 (x0 - theta) + cv vola with rational c0, cv  *)
(*       for mu = e^(-kappa dt) = 1/2                                       *)
(*   localvol: rational S_k for sigma(t,S) = 1 or S/4 and sqrt dt = 1/2     *)
(* Part 2: the contract every generator / primary instrument must meet      *)
(* (shape, first column, dtype, finiteness, sign class, volatility^2 =      *)
(* variance) as a table, and the Market machine: simulate() replaces ALL    *)
(* buffers of an instrument by buffers of one common shape.                 *)
EXTENDS Rat, TLC, Json

CONSTANTS T, Zs, Ns, Schemes

VARIABLES scheme, k, zs, ns, ys, path
vars == <<scheme, k, zs, ns, ys, path>>

Init == /\ scheme \in Schemes /\ k = 0 /\ zs = <<>> /\ ns = <<>> /\ ys = <<>>
        /\ path = << CASE scheme \in {"brownian", "gbm", "merton", "kou"} -> <<0, 0, 0, 0>>
                       [] scheme = "vasicek" -> <<ROne, RZero>>
                       [] scheme \in {"localvol_const", "localvol_lin"} -> R(2) >>

ISqrtN(n) == CHOOSE r \in 0..4 : r * r = n
StepValue(z, n, y) ==
  LET cur == path[Len(path)] IN
  CASE scheme \in {"brownian", "gbm"} -> <<cur[1] + 1, cur[2] + z, 0, 0>>
    [] scheme = "merton"   -> <<cur[1] + 1, cur[2] + z, cur[3] + n, cur[4] + y * ISqrtN(n)>>
    \* Kou: the n jumps of a step have the signed log-sizes y, 2y, ..., ny (in units of the harness's jump unit); ALL of
    \* them move the price, so the step adds y n (n + 1) / 2
    [] scheme = "kou"      -> <<cur[1] + 1, cur[2] + z, cur[3] + n, cur[4] + y * ((n * (n + 1)) \div 2)>>
    [] scheme = "vasicek"  -> <<RMul(cur[1], Q(1, 2)), RAdd(RMul(cur[2], Q(1, 2)), R(z))>>          \* mu = 1/2
    [] scheme = "localvol_const" -> RMul(cur, RAdd(ROne, Q(z, 2)))                                 \* S (1 + 1 * sqrt(dt) z)
    [] scheme = "localvol_lin"   -> RMul(cur, RAdd(ROne, RMul(RDiv(cur, R(4)), Q(z, 2))))          \* sigma = S / 4


\* (the state-dependent local volatility squares the price at every step: bounded to two steps to stay inside 32 bits)
Last == IF scheme = "localvol_lin" THEN IMin(T - 1, 2) ELSE T - 1
Step(z, n, y) == /\ k < Last
                 /\ (scheme \notin {"merton", "kou"} => n = 0 /\ y = 0)
                 /\ path' = Append(path, StepValue(z, n, y))
                 /\ zs' = Append(zs, z) /\ ns' = Append(ns, n) /\ ys' = Append(ys, y)
                 /\ k' = k + 1 /\ UNCHANGED scheme
Next == \E z \in Zs, n \in Ns, y \in Zs : Step(z, n, y)
Spec == Init /\ [][Next]_vars /\ WF_vars(Next)

\* closed forms: the recurrences equal the exact solution of their SDE sampled on the grid
RECURSIVE SumTo(_, _)
SumTo(s, j) == IF j = 0 THEN 0 ELSE SumTo(s, j - 1) + s[j]
BrownianClosedForm == scheme \in {"brownian", "gbm"} => \A j \in 1..Len(path) : path[j][1] = j - 1 /\ path[j][2] = SumTo(zs, j - 1)
\* Ornstein-Uhlenbeck: X_k - theta = (x0 - theta) mu^k + vola sum_j mu^(k-1-j) z_j
RECURSIVE OUNoise(_, _)
OUNoise(s, j) == IF j = 0 THEN RZero ELSE RAdd(RMul(OUNoise(s, j - 1), Q(1, 2)), R(s[j]))
OUClosedForm == scheme = "vasicek" => \A j \in 1..Len(path) : path[j][1] = Q(1, IPow(2, j - 1)) /\ path[j][2] = OUNoise(zs, j - 1)
\* the Euler step of the local-volatility scheme is a martingale difference: with z -> -z the two successors average to S_k
EulerMartingale == scheme \in {"localvol_const", "localvol_lin"} =>
                     \A z \in Zs : (-z \in Zs) =>
                        LET cur == path[Len(path)]
                            up == IF scheme = "localvol_const" THEN RMul(cur, RAdd(ROne, Q(z, 2))) ELSE RMul(cur, RAdd(ROne, RMul(RDiv(cur, R(4)), Q(z, 2))))
                            dn == IF scheme = "localvol_const" THEN RMul(cur, RAdd(ROne, Q(-z, 2))) ELSE RMul(cur, RAdd(ROne, RMul(RDiv(cur, R(4)), Q(-z, 2))))
                        IN  RAdd(up, dn) = RMul(R(2), cur)
\* a jump model without jumps is the diffusion
JumpFreeReduction == (scheme \in {"merton", "kou"} /\ (\A j \in 1..Len(ns) : ns[j] = 0)) => \A j \in 1..Len(path) : path[j][3] = 0 /\ path[j][4] = 0
\* ---------------------------------------------------------------- design-level moment algebra (exponential models)
\* Per unit of time the log-price drifts by  DriftCoef . <<mu, sigma^2 / 2, lambda * E[e^J - 1]>>  (this vector is emitted and
\* the path-wise replay binds it to the code).  By the moment-generating functions of the Gaussian increment
\* (E exp(sigma W_t) = exp(sigma^2 t / 2)) and of the compound-Poisson sum (E exp(sum J) = exp(lambda t E[e^J - 1])) the mean
\* growth rate of the PRICE is DriftCoef + MGFCoef: it must be <<1, 0, 0>>, i.e. E[S_t] = S_0 exp(mu t) - the Ito correction
\* and the jump compensator cancel exactly, and the model is a martingale for mu = 0.
DriftCoef(sc) == CASE sc = "gbm" -> <<1, -1, 0>> [] sc = "merton" -> <<1, -1, -1>> [] sc = "kou" -> <<1, -1, -1>> [] OTHER -> <<1, 0, 0>>
MGFCoef(sc)   == CASE sc = "gbm" -> <<0, 1, 0>>  [] sc = "merton" -> <<0, 1, 1>>  [] sc = "kou" -> <<0, 1, 1>>  [] OTHER -> <<0, 0, 0>>
MeanGrowthIsMu == \A sc \in {"gbm", "merton", "kou"} : [j \in 1..3 |-> DriftCoef(sc)[j] + MGFCoef(sc)[j]] = <<1, 0, 0>>
\* Ornstein-Uhlenbeck: conditional mean theta + (x - theta) mu^k is what the noise-free recurrence gives (c0 = mu^k), and
\* the conditional variance vola^2 * sum_j mu^(2j) equals vola^2 (1 - mu^(2k)) / (1 - mu^2): checked for mu = 1/2
RECURSIVE GeoSq(_)
GeoSq(j) == IF j = 0 THEN RZero ELSE RAdd(RMul(GeoSq(j - 1), Q(1, 4)), ROne)
OUVariance == \A j \in 0..6 : GeoSq(j) = RDiv(RSub(ROne, Q(1, IPow(4, j))), Q(3, 4))

Terminates == <>(k = Last)

Emit == (k = Last) => PrintT(ToJson([scheme |-> scheme, zs |-> zs, ns |-> ns, ys |-> ys, path |-> path, drift |-> DriftCoef(scheme)]))
=============================================================================
