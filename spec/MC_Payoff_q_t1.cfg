SPECIFICATION Spec
CONSTANTS
  T = 1
  Prices = {1,2,4}
  Strikes <- KStrikes
  Kinds <- AllKinds
  OpSeqs <- OpsMenu
  Starts = {0}
INVARIANT Orderings
INVARIANT ClauseOrder
INVARIANT NamesUnique
INVARIANT Emit
PROPERTY Terminates
CHECK_DEADLOCK FALSE
