------------------------------- MODULE Hedge -------------------------------
(* The hedger: compute_hedge (both evaluation branches and the prev_output  *)
(* state), compute_portfolio, compute_pl.                                   *)
(*                                                                          *)
(* One TLA+ state machine run = one simulated path m and one configuration  *)
(* cfg = (feature list, model, cost rates, option).  Paths are independent  *)
(* in pfhedge, so the harness stacks the paths of many runs with the same   *)
(* configuration into one (N, H, T) computation of the real Hedger and      *)
(* compares path by path - a computation that mixes paths, reduces over the *)
(* wrong axis or broadcasts a cost to the wrong instrument is then visible. *)
(*                                                                          *)
(* Implementation-shaped actions (one per step compute_hedge takes):        *)
(*   Branch, ResetPrev, Step (= get_input(i); forward; save prev_output),   *)
(*   DupLast, Batched, OverwriteLast, Transpose, Portfolio                  *)
(* Reference layer: HedgeRef (positions as a function of the information    *)
(* available at each step) and Wealth (self-financing account of PnL.tla    *)
(* written as a fold over rationals).                                       *)
EXTENDS Features, TLC, Json

CONSTANTS Spots,     \* lattice of underlier prices
          Vars,      \* lattice of variances (perfect squares)
          Spots2,    \* lattice of the second hedging instrument's price (used when H = 2)
          Configs,   \* set of configurations, see MC_Hedge.tla
          EmitMod, EmitRes

VARIABLES m,       \* the path: [spot, var, spot2]
          cfg,     \* [feats, kind, W, B, cost, call, forceStep]
          pc, i,
          prev,    \* the hedger's prev_output buffer (sequence of H rationals)
          rows,    \* model inputs seen so far (the trace the recording model logs)
          outs,    \* model outputs so far: sequence over steps of sequences over h
          hedge,   \* result of compute_hedge: [h][j]
          branch   \* "stepwise" / "batched"
vars == <<m, cfg, pc, i, prev, rows, outs, hedge, branch>>

Zeros(n) == [k \in 1..n |-> RZero]

\* ------------------------------------------------------------------ model
Dot(w, x) == RSum([c \in 1..Len(x) |-> RMul(R(w[c]), x[c])])
Model(c, x) == [h \in 1..H |->
                  LET lin == RAdd(Dot(c.W[h], x), R(c.B[h]))
                  IN  IF c.kind = "relu" THEN RRelu(lin) ELSE lin]

RECURSIVE Concat(_, _)
Concat(ss, k) == IF k = 0 THEN <<>> ELSE Concat(ss, k - 1) \o ss[k]
RowAt(fs, step, mk, pv) == Concat([k \in 1..Len(fs) |-> At(fs[k], step, mk, pv)], Len(fs))
RowAll(fs, mk, j)       == [k \in 1..Len(fs) |-> AllCol(fs[k], mk, j)]

\* ------------------------------------------------------------------ reference layer
\* position decided at step `step` from the information of steps 0..step and the previous position
RECURSIVE Decide(_, _, _)
Decide(c, mk, step) == Model(c, RowAt(c.feats, step, mk, IF step = 0 THEN Zeros(H) ELSE Decide(c, mk, step - 1)))
\* position held over [step j-1, step j) for j < T; the position reported at the final index is the
\* one held over the last step
HedgeRef(c, mk) == [h \in 1..H |-> [j \in 1..T |-> Decide(c, mk, IF j < T THEN j - 1 ELSE T - 2)[h]]]

\* prices of the hedging instruments: the underlier, and (H = 2) a second listed instrument
HSpot(mk, h, j) == IF h = 1 THEN R(mk.spot[j]) ELSE R(mk.spot2[j])

\* self-financing account over rationals (same bookkeeping as PnL.tla's Trade/Settle)
RECURSIVE CashAfter(_, _, _, _)
CashAfter(mk, hd, cost, j) ==   \* cash after trading at column j
  LET before  == IF j = 1 THEN RZero ELSE CashAfter(mk, hd, cost, j - 1)
      Pos(h)  == IF j = 1 THEN RZero ELSE hd[h][j - 1]
      Paid(h) == LET d == RSub(hd[h][j], Pos(h))
                 IN  RAdd(RMul(d, HSpot(mk, h, j)),
                          IF cost = <<>> THEN RZero ELSE RMul(RMul(R(cost[h]), RAbs(d)), HSpot(mk, h, j)))
  IN  RSub(before, RSum([h \in 1..H |-> Paid(h)]))
Wealth(mk, hd, cost) == RAdd(CashAfter(mk, hd, cost, T), RSum([h \in 1..H |-> RMul(hd[h][T], HSpot(mk, h, T))]))

\* the derivative's payoff: the contract, transformed by its clause (if any): payoff() = clause(payoff_fn())
Contract(c, mk) == IF c.call THEN R(IMax(mk.spot[T] - K, 0)) ELSE R(IMax(K - mk.spot[T], 0))
Clause(c, v) == IF "clause" \in DOMAIN c /\ c.clause = "double_plus_one" THEN RAdd(RMul(R(2), v), ROne) ELSE v
Payoff(c, mk) == Clause(c, Contract(c, mk))

\* ------------------------------------------------------------------ implementation-shaped machine
Init == /\ m \in [spot : [1..T -> Spots], var : [1..T -> Vars], spot2 : [1..T -> Spots2]]
        /\ cfg \in Configs
        /\ pc = "branch" /\ i = 0 /\ prev = <<>> /\ rows = <<>> /\ outs = <<>> /\ hedge = <<>> /\ branch = "none"

Branch == /\ pc = "branch"
          /\ IF StateDepList(cfg.feats) THEN pc' = "reset" /\ branch' = "stepwise"
                                        ELSE pc' = "batched" /\ branch' = "batched"
          /\ UNCHANGED <<m, cfg, i, prev, rows, outs, hedge>>

ResetPrev == /\ pc = "reset"
             /\ prev' = Zeros(H) /\ i' = 0 /\ pc' = "step"
             /\ UNCHANGED <<m, cfg, rows, outs, hedge, branch>>

Step == /\ pc = "step" /\ i < T - 1
        /\ LET x == RowAt(cfg.feats, i, m, prev)
               y == Model(cfg, x)
           IN  /\ rows' = Append(rows, x)
               /\ outs' = Append(outs, y)
               /\ prev' = y                       \* forward hook: prev_output := output
        /\ i' = i + 1
        /\ UNCHANGED <<m, cfg, pc, hedge, branch>>

DupLast == /\ pc = "step" /\ i = T - 1
           /\ outs' = Append(outs, outs[Len(outs)])
           /\ pc' = "transpose"
           /\ UNCHANGED <<m, cfg, i, prev, rows, hedge, branch>>

Batched == /\ pc = "batched"
           \* the model is evaluated for the steps 0..T-2 in one call (the row of the maturity step is not fed to it:
           \* a model that is singular at maturity must not take part in the backward pass - repository fix c001104)
           /\ rows' = [j \in 1..(T - 1) |-> RowAll(cfg.feats, m, j)]
           /\ outs' = [j \in 1..(T - 1) |-> Model(cfg, RowAll(cfg.feats, m, j))]
           /\ prev' = <<>>                        \* the hook stores the whole (N, T-1, H) output; nobody reads it
           /\ pc' = "overwrite"
           /\ UNCHANGED <<m, cfg, i, hedge, branch>>

\* the position at the final index repeats the last one (same as DupLast of the step-by-step branch)
OverwriteLast == /\ pc = "overwrite"
                 /\ outs' = Append(outs, outs[T - 1])
                 /\ pc' = "transpose"
                 /\ UNCHANGED <<m, cfg, i, prev, rows, hedge, branch>>

Transpose == /\ pc = "transpose"
             /\ hedge' = [h \in 1..H |-> [j \in 1..T |-> outs[j][h]]]
             /\ pc' = "done"
             /\ UNCHANGED <<m, cfg, i, prev, rows, outs, branch>>

Next == Branch \/ ResetPrev \/ Step \/ DupLast \/ Batched \/ OverwriteLast \/ Transpose
Spec == Init /\ [][Next]_vars /\ WF_vars(Next)

\* ------------------------------------------------------------------ properties
Done == pc = "done"

\* the machine computes the reference positions, in whichever branch it ran
HedgeIsRef == Done => hedge = HedgeRef(cfg, m)

\* C03: the all-steps-at-once evaluation equals the step-by-step evaluation of the same model, the latter
\* forced by an additional zero-weighted prev_hedge input
ForceStep(c) == [c EXCEPT !.feats = Append(@, "prev_hedge"),
                          !.W = [h \in 1..H |-> c.W[h] \o [k \in 1..H |-> 0]]]
BranchesAgree == (Done /\ branch = "batched") => hedge = HedgeRef(ForceStep(cfg), m)

\* C02: no trade at maturity
NoTradeAtMaturity == Done => \A h \in 1..H : hedge[h][T] = hedge[h][T - 1]

\* C03: every feature's single-step form is column i of its all-steps form
AtEqualsAll == \A k \in 1..Len(cfg.feats) : ~StateDep(cfg.feats[k]) =>
                 \A step \in 0..(T - 1) : At(cfg.feats[k], step, m, <<>>) = <<AllCol(cfg.feats[k], m, step + 1)>>

\* C03: prev_hedge seen at step i is the output of step i-1 (zeros, H wide, at step 0)
PrevIsLastOutput == (pc = "step" /\ branch = "stepwise") =>
                      /\ Len(prev) = H
                      /\ prev = IF i = 0 THEN Zeros(H) ELSE outs[i]

\* C02 (structural part): the row of step i mentions only columns <= i
ReadsArePast == \A k \in 1..Len(cfg.feats) : \A step \in 0..(T - 1) :
                  \A r \in Reads(cfg.feats[k], step) : r[2] <= step + 1

Terminates == <>Done

\* ------------------------------------------------------------------ emission for replay
Portfolio == Wealth(m, hedge, cfg.cost)
Checksum  == ISum(m.spot) + 3 * ISum(m.var) + 5 * ISum(m.spot2)
Emit == (Done /\ (Checksum % EmitMod) = EmitRes) =>
          PrintT(ToJson([kind |-> "hedge", m |-> m, cfg |-> cfg, branch |-> branch, rows |-> rows,
                         hedge |-> hedge, portfolio |-> Portfolio,
                         payoff |-> Payoff(cfg, m), pl |-> RSub(Portfolio, Payoff(cfg, m))]))
=============================================================================
