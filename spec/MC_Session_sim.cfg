SPECIFICATION Spec
CONSTANTS
  Prims <- P2
  Derivs <- D3
  UL <- UL3
  Hedgers <- H2
  StateDep <- SD2
  Paths = {2,3}
  MaxDepth = 9
INVARIANT HistoryIndependent
INVARIANT CarriedStateIsOwn
INVARIANT Emit
PROPERTY Purity
PROPERTY AbortLeavesNothing
PROPERTY CompletedOverwritesAborted
PROPERTY Locality
PROPERTY FreshOnSimulate
PROPERTY ParamsChangeOnlyInFit
CHECK_DEADLOCK FALSE
