SPECIFICATION Spec
CONSTANTS
  E = 1
  W = 16
  Tables <- Mono16
  Targets = {0,1,2}
  Precisions = {0,1,2,8}
  MaxIters = {3,40}
INVARIANT Bracketed
INVARIANT WithinPrecision
INVARIANT IterationCount
INVARIANT NoSilentFailure
INVARIANT AbortOnlyWhenStuck
INVARIANT ElementwiseIndependent
INVARIANT Emit
PROPERTY Termination
CHECK_DEADLOCK FALSE
