------------------------------ MODULE MC_PnL ------------------------------
(* Model-checking wrapper for PnL.tla: constants as definitions because a   *)
(* .cfg file cannot hold negative literals.                                 *)
EXTENDS PnL
UnitsA   == {-1, 0, 2}
UnitsB   == {-1, 2}
SpotsA   == {1, 2, 3}
SpotsB   == {1, 3}
SpotsNeg == {-1, 2}
PayA     == {-1, 0, 2}
PayB     == {0, 2}
Cost1    == {<<>>, <<0>>, <<1>>, <<2>>, <<-1>>}
Cost2    == {<<>>, <<0, 0>>, <<1, 2>>, <<2, 0>>, <<-1, 0>>, <<0, -2>>}
Cost2s   == {<<>>, <<1, 2>>}
Cost3    == {<<>>, <<1, 0, 2>>}
=============================================================================
