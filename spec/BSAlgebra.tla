------------------------------ MODULE BSAlgebra ------------------------------
(* C09 / C07 (partial: the algebraic structure of the Black-Scholes prices).  *)
(*                                                                           *)
(* Layer 1 - symbolic forms.  A price is an integer linear form over          *)
(* monomials  unit * atom :                                                  *)
(*    units  S (spot), K (strike), M (running maximum), 1, S/K               *)
(*    atoms  1, N1 = N(d1), N2 = N(d2), L1 = N(d1)(1 + s + w^2/2) + w n(d1), *)
(*           L1m, N2m = the same at log(S/M) instead of log(S/K)             *)
(* The formulas of pfhedge.nn.functional are transcribed term by term        *)
(* (implementation-shaped: the put is "call + K - S", the binary put         *)
(* "1 - call", where() selects a branch by max < strike) and compared with   *)
(* the definitions (reference: the put is K N(-d2) - S N(-d1), N(-x) = 1-N(x))*)
(* TLC checks, as identities between forms: put-call parity, the binary      *)
(* complement, homogeneity in (S, K, M), equality of the two lookback        *)
(* branches where the running maximum equals the strike and the value one of *)
(* the American binary where spot = maximum = strike.                        *)
(*                                                                           *)
(* Layer 2 - obligations.  The relations of C09 between prices at different  *)
(* arguments or of different products are enumerated over a lattice of       *)
(* argument indices: which relation, between which products, at which        *)
(* (pairs / triples of) points, in which branch.  The machine cannot evaluate*)
(* erf/exp: each obligation is handed to the real code, which is evaluated   *)
(* at the lattice points (checks/c09.py).                                    *)
EXTENDS Integers, FiniteSets, Sequences, TLC, Json

CONSTANTS Only,                               \* the kinds of obligation to enumerate in this run
          NSpot, NTime, NVol, NStrike, NMax   \* sizes of the lattice axes (the harness owns the numbers; spots increase with the index)

\* ================================================================= layer 1: forms
Units == {"S", "K", "M", "1", "SoverK"}
Atoms == {"1", "N1", "N2", "L1", "L1m", "N2m"}
Mono  == Units \X Atoms
Zero  == [m \in Mono |-> 0]
T(c, u, a)  == [m \in Mono |-> IF m = <<u, a>> THEN c ELSE 0]
Add(f, g)   == [m \in Mono |-> f[m] + g[m]]
Sub(f, g)   == [m \in Mono |-> f[m] - g[m]]
Neg(f)      == [m \in Mono |-> -f[m]]
\* u * N(-x) for an atom N(x):  u * (1 - N(x))
Comp(u, a)  == Sub(T(1, u, "1"), T(1, u, a))

Products == {"european", "european_binary", "american_binary", "lookback"}
PutOffered(p) == p \in {"european", "european_binary"}
PathDependent(p) == p \in {"american_binary", "lookback"}
Branches(p) == IF PathDependent(p) THEN {"below", "reached"} ELSE {"none"}     \* running maximum below the strike / at or above it

\* ---- implementation-shaped: pfhedge/nn/functional.py term by term
ImplPrice(p, call, br) ==
  CASE p = "european" ->
         LET c == Sub(T(1, "S", "N1"), T(1, "K", "N2"))
         IN  IF call THEN c ELSE Add(c, Sub(T(1, "K", "1"), T(1, "S", "1")))            \* price + strike * (1 - exp(s))
    [] p = "european_binary" ->
         IF call THEN T(1, "1", "N2") ELSE Sub(T(1, "1", "1"), T(1, "1", "N2"))         \* 1 - price
    [] p = "american_binary" ->
         IF br = "below" THEN Add(T(1, "1", "N2"), T(1, "SoverK", "N1")) ELSE T(1, "1", "1")
    [] p = "lookback" ->
         IF br = "below" THEN Sub(T(1, "S", "L1"), T(1, "K", "N2"))
         ELSE Add(Sub(T(1, "S", "L1m"), T(1, "K", "1")), Sub(T(1, "M", "1"), T(1, "M", "N2m")))

\* ---- reference: the definitions
\*   European put  E[(K - S_T)+] = K N(-d2) - S N(-d1);  binary put  P[S_T < K] = N(-d2)
RefPrice(p, call, br) ==
  CASE p = "european" -> IF call THEN Sub(T(1, "S", "N1"), T(1, "K", "N2")) ELSE Sub(Comp("K", "N2"), Comp("S", "N1"))
    [] p = "european_binary" -> IF call THEN T(1, "1", "N2") ELSE Comp("1", "N2")
    [] OTHER -> ImplPrice(p, call, br)

\* homogeneity degree of a unit in (S, K, M), and of a product's price
UnitDeg(u) == IF u \in {"S", "K", "M"} THEN 1 ELSE 0
PriceDeg(p) == IF p \in {"european", "lookback"} THEN 1 ELSE 0
GreekDeg(p, g) == CASE g = "price" -> PriceDeg(p) [] g = "delta" -> PriceDeg(p) - 1 [] g = "gamma" -> PriceDeg(p) - 2
                    [] g \in {"vega", "theta"} -> PriceDeg(p)
Homogeneous(f, d) == \A m \in Mono : f[m] # 0 => UnitDeg(m[1]) = d

\* the running maximum equals the strike: M = K, log(S/M) = log(S/K)
AtStrike(f) == [m \in Mono |->
   LET from(u, a) == f[<<u, a>>]
       au == m[1]  aa == m[2]
       \* sources that map onto (au, aa): unit M -> K, atom L1m -> L1, N2m -> N2
       us == IF au = "K" THEN {"K", "M"} ELSE IF au = "M" THEN {} ELSE {au}
       as == IF aa = "L1" THEN {"L1", "L1m"} ELSE IF aa = "N2" THEN {"N2", "N2m"} ELSE IF aa \in {"L1m", "N2m"} THEN {} ELSE {aa}
       RECURSIVE SumOver(_)
       SumOver(ps) == IF ps = {} THEN 0 ELSE LET x == CHOOSE x \in ps : TRUE IN from(x[1], x[2]) + SumOver(ps \ {x})
   IN  SumOver(us \X as)]
\* spot = strike: S/K = 1 and d1 = -d2, so N2 = 1 - N1
AtTheMoney(f) == [m \in Mono |->
   CASE m = <<"1", "1">>  -> f[m] + f[<<"SoverK", "1">>] + f[<<"1", "N2">>] + f[<<"SoverK", "N2">>]
     [] m = <<"1", "N1">> -> f[m] + f[<<"SoverK", "N1">>] - f[<<"1", "N2">>] - f[<<"SoverK", "N2">>]
     [] m[1] = "SoverK" \/ m = <<"1", "N2">> -> 0
     [] OTHER -> f[m]]

VARIABLES ob          \* the current obligation
vars == <<ob>>

\* ---- identities TLC checks on layer 1 (state-independent; evaluated once per state)
ImplementationIsDefinition == \A p \in Products : \A c \in BOOLEAN : \A b \in Branches(p) :
                                 (c \/ PutOffered(p)) => ImplPrice(p, c, b) = RefPrice(p, c, b)
PutCallParity   == Sub(ImplPrice("european", TRUE, "none"), ImplPrice("european", FALSE, "none")) = Sub(T(1, "S", "1"), T(1, "K", "1"))
BinaryComplement == Add(ImplPrice("european_binary", TRUE, "none"), ImplPrice("european_binary", FALSE, "none")) = T(1, "1", "1")
PricesHomogeneous == \A p \in Products : \A c \in BOOLEAN : \A b \in Branches(p) :
                                 (c \/ PutOffered(p)) => Homogeneous(ImplPrice(p, c, b), PriceDeg(p))
LookbackContinuousAtStrike == AtStrike(ImplPrice("lookback", TRUE, "reached")) = ImplPrice("lookback", TRUE, "below")
AmericanOneAtBarrier == AtTheMoney(ImplPrice("american_binary", TRUE, "below")) = ImplPrice("american_binary", TRUE, "reached")

\* ================================================================= layer 2: obligations over the lattice
Pt(i, t, v, k) == [s |-> i, t |-> t, v |-> v, k |-> k]
Points == {Pt(i, t, v, k) : i \in 1..NSpot, t \in 1..NTime, v \in 1..NVol, k \in 1..NStrike}
Greeks == {"price", "delta", "gamma", "vega", "theta"}

\* what each Greek is (C08): derivative of the price with respect to `var`, `order` times, times `sign`
GreekIs == [delta |-> [var |-> "spot", order |-> 1, sign |-> 1], gamma |-> [var |-> "spot", order |-> 2, sign |-> 1],
            vega  |-> [var |-> "volatility", order |-> 1, sign |-> 1], theta |-> [var |-> "time_to_maturity", order |-> 1, sign |-> -1]]

PC(ps) == {q \in ps \X BOOLEAN : q[2] \/ PutOffered(q[1])}
Ob(kind) ==
  CASE
  \* C08: each closed-form Greek is the derivative of the same product's price (variable, order and sign from GreekIs)
       kind = "greek_is_derivative" ->
         {[kind |-> kind, pt |-> x, p |-> pc[1], call |-> pc[2], greek |-> g, of |-> GreekIs[g], mx |-> m] :
            x \in Points, pc \in PC(Products), g \in Greeks \ {"price"}, m \in 1..NMax}
  \* identities at one point
    [] kind \in {"parity", "binary_complement", "call_bounds", "put_bounds", "lookback_continuous_at_strike", "american_continuous_at_barrier"} ->
         {[kind |-> kind, pt |-> x] : x \in Points}
    [] kind = "greek_parity" ->
         {[kind |-> kind, pt |-> x, p |-> p, greek |-> g] : x \in Points, p \in {"european", "european_binary"}, g \in Greeks \ {"price"}}
    [] kind = "homogeneous" ->
         {[kind |-> kind, pt |-> x, p |-> pc[1], call |-> pc[2], greek |-> g, deg |-> GreekDeg(pc[1], g), mx |-> m] :
            x \in Points, pc \in PC(Products), g \in Greeks, m \in 1..NMax}
  \* bounds at one point:  max(S-K,0) <= call <= S,  max(K-S,0) <= put <= K,  binaries in [0,1]
    [] kind = "unit_interval" ->
         {[kind |-> kind, pt |-> x, p |-> pc[1], call |-> pc[2], mx |-> m] : x \in Points, pc \in PC({"european_binary", "american_binary"}), m \in 1..NMax}
  \* relations between neighbouring points (chains: the relation on all pairs follows by transitivity)
    [] kind = "increasing_in_spot" ->
         {[kind |-> kind, pt |-> x, p |-> p] : x \in {y \in Points : y.s < NSpot}, p \in {"european", "european_binary"}}
    [] kind = "convex_in_spot" ->
         {[kind |-> kind, pt |-> x] : x \in {y \in Points : y.s > 1 /\ y.s < NSpot}}
    [] kind = "nondecreasing_in_volatility" ->
         {[kind |-> kind, pt |-> x, p |-> p, mx |-> m] : x \in {y \in Points : y.v < NVol}, p \in {"european", "lookback", "american_binary"}, m \in 1..NMax}
    [] kind = "nondecreasing_in_time" ->
         {[kind |-> kind, pt |-> x, p |-> p, mx |-> m] : x \in {y \in Points : y.t < NTime}, p \in {"european", "lookback", "american_binary"}, m \in 1..NMax}
  \* dominance between products, and the value one once the barrier has been reached
    [] kind \in {"lookback_ge_european", "lookback_ge_locked_in", "american_ge_european_binary", "american_one_once_reached"} ->
         {[kind |-> kind, pt |-> x, mx |-> m] : x \in Points, m \in 1..NMax}

Init == \E k \in Only : ob \in Ob(k)
Next == UNCHANGED ob
Spec == Init /\ [][Next]_vars

\* every relation named in C09 has at least one obligation (anti-vacuity of the enumeration)
Kinds == {"greek_is_derivative", "parity", "binary_complement", "greek_parity", "homogeneous", "call_bounds", "put_bounds", "unit_interval",
          "increasing_in_spot", "convex_in_spot", "nondecreasing_in_volatility", "nondecreasing_in_time",
          "lookback_ge_european", "lookback_ge_locked_in", "american_ge_european_binary", "american_one_once_reached",
          "lookback_continuous_at_strike", "american_continuous_at_barrier"}
AllKindsPresent == \A k \in Kinds : Ob(k) # {}
\* the identities the obligations rest on hold between the forms (so the obligation states the right equation)
FormsJustifyObligations ==
  /\ (ob.kind = "parity" => PutCallParity)
  /\ (ob.kind = "binary_complement" => BinaryComplement)
  /\ (ob.kind = "homogeneous" => PricesHomogeneous)
  /\ (ob.kind = "lookback_continuous_at_strike" => LookbackContinuousAtStrike)
  /\ (ob.kind = "american_continuous_at_barrier" => AmericanOneAtBarrier)

Emit == PrintT(ToJson([rec |-> "obligation", ob |-> ob]))
=============================================================================
