------------------------------- MODULE Dtype -------------------------------
(* C17 - the dtype contract of instruments as a state machine.              *)
(*                                                                          *)
(* State: the global default dtype, for every primary instrument its        *)
(* declared dtype (none until one is given) and the dtype of each of its    *)
(* buffers (absent before the first simulate).  Actions are the public      *)
(* operations: to(dtype) / float() / double() / half() / bfloat16(),        *)
(* to() without arguments, to(tensor), to(instrument), to(non-floating)     *)
(* (rejected), simulate(), register_buffer(), torch.set_default_dtype().    *)
(* Every operation on a derivative forwards to its underlier, so `via`      *)
(* only tells the harness through which object to issue the call.           *)
(*                                                                          *)
(* For declared = none the contract demands what the property can mean: a   *)
(* buffer has the dtype that was in force when it was produced.             *)
EXTENDS Integers, Sequences, FiniteSets, TLC, Json

CONSTANTS Prims,        \* e.g. {"p1", "p2"}
          BufNames,     \* function Prims -> set of buffer names
          Floats,       \* {"f16","bf16","f32","f64"} or a subset
          Defaults,     \* {"f32","f64"}
          InitDefaults, InitDeclared,   \* initial default dtypes / constructor dtype arguments explored
          Hows, Vias,   \* spellings of a cast / object through which the call is issued
          MaxDepth      \* bound on the length of the history

VARIABLES default, declared, bufs, hist, init0
vars  == <<default, declared, bufs, hist, init0>>
state == <<default, declared, bufs>>         \* VIEW for the graph configs: the history is observation only

None   == "none"
Absent == "absent"
Present(p) == {b \in BufNames[p] : bufs[p][b] # Absent}

TypeOK == /\ default \in Defaults
          /\ \A p \in Prims : declared[p] \in Floats \cup {None}
          /\ \A p \in Prims : \A b \in BufNames[p] : bufs[p][b] \in Floats \cup {Absent}

Init == /\ default \in InitDefaults
        /\ declared \in InitDeclared                         \* the constructors' dtype arguments
        /\ bufs = [p \in Prims |-> [b \in BufNames[p] |-> Absent]]
        /\ hist = <<>>
        /\ init0 = [default |-> default, declared |-> declared]

Post == [default |-> default', declared |-> declared', bufs |-> bufs']
Log(ev) == hist' = Append(hist, ev @@ [post |-> Post, ok |-> TRUE]) /\ UNCHANGED init0
LogRejected(ev) == hist' = Append(hist, ev @@ [post |-> Post, ok |-> FALSE]) /\ UNCHANGED init0
Room == Len(hist) < MaxDepth

CastAll(p, d) == [bufs EXCEPT ![p] = [b \in BufNames[p] |-> IF bufs[p][b] = Absent THEN Absent ELSE d]]

\* to(dtype), float(), double(), half(), bfloat16(), to(tensor of dtype d)
To(p, d, how, via) ==
  /\ Room /\ d \in Floats
  /\ declared' = [declared EXCEPT ![p] = d]
  /\ bufs' = CastAll(p, d)
  /\ UNCHANGED default
  /\ Log([op |-> "To", p |-> p, d |-> d, how |-> how, via |-> via])

\* to() without a dtype (e.g. to(device="cpu")): nothing changes, but buffers are re-registered in the declared dtype
ToNoArg(p, via) ==
  /\ Room
  /\ UNCHANGED <<default, declared>>
  /\ bufs' = IF declared[p] = None THEN bufs ELSE CastAll(p, declared[p])
  /\ Log([op |-> "ToNoArg", p |-> p, d |-> None, how |-> "to()", via |-> via])

\* to(other instrument): adopts the other's declared dtype; a source without one leaves p unchanged
ToInstrument(p, q) ==
  /\ Room /\ p # q
  /\ IF declared[q] = None
     THEN UNCHANGED <<declared>> /\ bufs' = (IF declared[p] = None THEN bufs ELSE CastAll(p, declared[p]))
     ELSE declared' = [declared EXCEPT ![p] = declared[q]] /\ bufs' = CastAll(p, declared[q])
  /\ UNCHANGED default
  /\ Log([op |-> "ToInstrument", p |-> p, d |-> q, how |-> "to(instrument)", via |-> "primary"])

\* to(torch.int64) / to(integer tensor): rejected, nothing changes
ToNonFloat(p, how, via) ==
  /\ Room
  /\ UNCHANGED <<default, declared, bufs>>
  /\ LogRejected([op |-> "ToNonFloat", p |-> p, d |-> "i64", how |-> how, via |-> via])

\* simulate(): every buffer is replaced; produced in the declared dtype or, without one, in the current default
Simulate(p, via) ==
  /\ Room
  /\ LET d == IF declared[p] = None THEN default ELSE declared[p]
     IN  bufs' = [bufs EXCEPT ![p] = [b \in BufNames[p] |-> d]]
  /\ UNCHANGED <<default, declared>>
  /\ Log([op |-> "Simulate", p |-> p, d |-> None, how |-> "simulate()", via |-> via])

\* register_buffer(name, tensor of dtype src): stored in the declared dtype, or as it is without one
\* (src = "i64": an integer tensor registered on an instrument that declares a dtype is stored in the declared dtype as well)
RegisterBuffer(p, b, src) ==
  /\ Room /\ b \in BufNames[p] /\ (src \in Floats \/ (src = "i64" /\ declared[p] # None))
  /\ bufs' = [bufs EXCEPT ![p][b] = IF declared[p] = None THEN src ELSE declared[p]]
  /\ UNCHANGED <<default, declared>>
  /\ Log([op |-> "RegisterBuffer", p |-> p, d |-> src, how |-> b, via |-> "primary"])

SetDefault(d) ==
  /\ Room /\ d \in Defaults /\ d # default
  /\ default' = d
  /\ UNCHANGED <<declared, bufs>>
  /\ Log([op |-> "SetDefault", p |-> "-", d |-> d, how |-> "set_default_dtype", via |-> "-"])

Next == \/ \E p \in Prims, d \in Floats, h \in Hows, v \in Vias : To(p, d, h, v)
        \/ \E p \in Prims, v \in Vias : ToNoArg(p, v)
        \/ \E p, q \in Prims : ToInstrument(p, q)
        \/ \E p \in Prims, h \in Hows \ {"method"}, v \in Vias : ToNonFloat(p, h, v)
        \/ \E p \in Prims, v \in Vias : Simulate(p, v)
        \/ \E p \in Prims : \E b \in BufNames[p] : \E s \in Floats \cup {"i64"} : RegisterBuffer(p, b, s)
        \/ \E d \in Defaults : SetDefault(d)
Spec == Init /\ [][Next]_vars

\* ------------------------------------------------------------------ properties
\* every buffer of an instrument that declares a dtype has it
Contract == \A p \in Prims : declared[p] # None => \A b \in Present(p) : bufs[p][b] = declared[p]
\* simulate produces all buffers of one instrument in one dtype (action property)
SimulateUniform == [][\A p \in Prims :
                       (hist' # hist /\ hist'[Len(hist')].op = "Simulate" /\ hist'[Len(hist')].p = p)
                         => \A a, b \in BufNames[p] : bufs'[p][a] = bufs'[p][b] /\ bufs'[p][a] # Absent]_vars
\* subsequent simulations are produced in the declared dtype
SimulateInDeclared == [][\A p \in Prims :
                       (hist' # hist /\ hist'[Len(hist')].op = "Simulate" /\ hist'[Len(hist')].p = p /\ declared[p] # None)
                         => \A b \in BufNames[p] : bufs'[p][b] = declared[p]]_vars
\* a rejected call changes nothing
RejectedIsNoop == [][(hist' # hist /\ ~hist'[Len(hist')].ok) => UNCHANGED state]_vars
\* only to()/register_buffer/simulate on p change p
Locality == [][\A p \in Prims : (hist' # hist /\ hist'[Len(hist')].p # p) => (declared'[p] = declared[p] /\ bufs'[p] = bufs[p])]_vars

\* emission: complete histories of length MaxDepth (every shorter history is a prefix of one of them)
Emit == (Len(hist) = MaxDepth) => PrintT(ToJson([init |-> init0, hist |-> hist]))
=============================================================================
