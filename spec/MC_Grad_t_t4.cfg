SPECIFICATION Spec
CONSTANTS
  T = 4
  H = 1
  K = 2
  DtNum = 1
  DtDen = 4
  Paths1 <- AllPaths4
  Paths2 <- FewPaths4
  GConfigs <- GConfigsA
  Crits <- CritsA
INVARIANT ZeroFeatureZeroGrad
INVARIANT BiasIsBuyAndHold
INVARIANT Emit
CHECK_DEADLOCK FALSE
