------------------------------ MODULE Payoff ------------------------------
(* C12 - payoffs equal their contractual definitions.                       *)
(* A derivative's payoff is payoff_fn() transformed by its clauses in       *)
(* registration order (a clause registered again under an existing name     *)
(* replaces the old one IN PLACE).  The machine: Register* ; PayoffFn ;     *)
(* ApplyClause* .  Contracts are written from the property text.            *)
EXTENDS Rat, FiniteSets, TLC, Json

CONSTANTS T,          \* number of time points (>= 1)
          Prices,     \* lattice of prices (powers of two, so that ratios and log-returns are exact)
          Strikes,    \* set of rational strikes <<n, d>>
          Kinds,      \* subset of {"european","lookback","european_binary","american_binary","forward_start","variance_swap"}
          OpSeqs,     \* menu of add_clause call sequences: sequences of <<name, fn>>
          Starts      \* forward-start indices (0-based) to use

VARIABLES path, kind, call, strike, ops, start, pc, k, clauses, acc
vars == <<path, kind, call, strike, ops, start, pc, k, clauses, acc>>

\* ------------------------------------------------------------------ contracts (reference layer)
Last(p)  == p[Len(p)]
PMax(p)  == IMaxTo(p, Len(p))
PMin(p)  == IMinTo(p, Len(p))
Ind(b)   == IF b THEN ROne ELSE RZero
Log2P(v) == CHOOSE e \in 0..12 : IPow(2, e) = v
\* sum of squared log2-returns (the variance swap pays ln(2)^2 * this / ((T-1) dt) - strike)
SqRet(p) == ISum([j \in 1..(Len(p) - 1) |-> (Log2P(p[j + 1]) - Log2P(p[j])) * (Log2P(p[j + 1]) - Log2P(p[j]))])

Contract(kd, cl, st, p, s0) ==
  CASE kd = "european"        -> IF cl THEN RRelu(RSub(R(Last(p)), st)) ELSE RRelu(RSub(st, R(Last(p))))
    [] kd = "lookback"        -> IF cl THEN RRelu(RSub(R(PMax(p)), st)) ELSE RRelu(RSub(st, R(PMin(p))))
    [] kd = "european_binary" -> IF cl THEN Ind(RLe(st, R(Last(p)))) ELSE Ind(RLe(R(Last(p)), st))
    [] kd = "american_binary" -> IF cl THEN Ind(RLe(st, R(PMax(p)))) ELSE Ind(RLe(R(PMin(p)), st))
    [] kd = "forward_start"   -> RRelu(RSub(Q(Last(p), p[s0 + 1]), st))
    [] kd = "variance_swap"   -> R(SqRet(p))         \* in units of ln(2)^2 / ((T-1) dt); the strike is subtracted by the harness

\* ------------------------------------------------------------------ clauses
ClauseFn(f, v, p) ==
  CASE f = "add1"   -> RAdd(v, ROne)
    [] f = "scale2" -> RMul(v, R(2))
    [] f = "cap1"   -> RMin(v, ROne)
    [] f = "knock4" -> IF PMax(p) >= 4 THEN RZero ELSE v        \* knock-out on the path maximum

\* OrderedDict semantics of add_clause: a known name is replaced in place, a new name is appended
RegisterOne(cs, op) ==
  IF \E j \in 1..Len(cs) : cs[j][1] = op[1]
  THEN [j \in 1..Len(cs) |-> IF cs[j][1] = op[1] THEN op ELSE cs[j]]
  ELSE Append(cs, op)

\* ------------------------------------------------------------------ machine
Init == /\ path \in [1..T -> Prices] /\ kind \in Kinds /\ call \in BOOLEAN /\ strike \in Strikes
        /\ ops \in OpSeqs /\ start \in Starts
        /\ (kind \in {"forward_start", "variance_swap"} => call)         \* no put variants
        /\ (kind # "forward_start" => start = 0)
        /\ (kind = "variance_swap" => T >= 2)
        /\ start < T
        /\ pc = "register" /\ k = 1 /\ clauses = <<>> /\ acc = RZero

Register == /\ pc = "register"
            /\ IF k <= Len(ops) THEN clauses' = RegisterOne(clauses, ops[k]) /\ k' = k + 1 /\ pc' = pc
                                ELSE clauses' = clauses /\ k' = 1 /\ pc' = "fn"
            /\ UNCHANGED <<path, kind, call, strike, ops, start, acc>>
PayoffFn == /\ pc = "fn"
            /\ acc' = Contract(kind, call, strike, path, start)
            /\ pc' = "clauses"
            /\ UNCHANGED <<path, kind, call, strike, ops, start, k, clauses>>
ApplyClause == /\ pc = "clauses"
               /\ IF k <= Len(clauses) THEN acc' = ClauseFn(clauses[k][2], acc, path) /\ k' = k + 1 /\ pc' = pc
                                       ELSE acc' = acc /\ k' = k /\ pc' = "done"
               /\ UNCHANGED <<path, kind, call, strike, ops, start, clauses>>
Next == Register \/ PayoffFn \/ ApplyClause
Spec == Init /\ [][Next]_vars /\ WF_vars(Next)

\* ------------------------------------------------------------------ properties
C(kd, cl) == Contract(kd, cl, strike, path, 0)
Orderings ==
  /\ RLe(RZero, C("european", TRUE)) /\ RLe(C("european", TRUE), C("lookback", TRUE))
  /\ RLe(RZero, C("european", FALSE)) /\ RLe(C("european", FALSE), C("lookback", FALSE))
  /\ RLe(C("european_binary", TRUE), C("american_binary", TRUE))
  /\ RLe(C("european_binary", FALSE), C("american_binary", FALSE))
  /\ RSub(C("european", TRUE), C("european", FALSE)) = RSub(R(Last(path)), strike)      \* call - put = S_T - K
  /\ C("european_binary", TRUE) \in {RZero, ROne} /\ C("american_binary", TRUE) \in {RZero, ROne}
\* clauses are applied in registration order: the result is the left fold over the registered list
RECURSIVE Fold(_, _, _)
Fold(cs, j, v) == IF j > Len(cs) THEN v ELSE Fold(cs, j + 1, ClauseFn(cs[j][2], v, path))
ClauseOrder == pc = "done" => acc = Fold(clauses, 1, Contract(kind, call, strike, path, start))
NamesUnique == \A a, b \in 1..Len(clauses) : clauses[a][1] = clauses[b][1] => a = b
Terminates  == <>(pc = "done")

Emit == pc = "done" => PrintT(ToJson([kind |-> kind, call |-> call, strike |-> strike, path |-> path, ops |-> ops,
                                      start |-> start, registered |-> clauses,
                                      fn |-> Contract(kind, call, strike, path, start), payoff |-> acc]))
=============================================================================
