------------------------------ MODULE BSCases ------------------------------
(* C18 - Black-Scholes functions at maturity (t = 0) and at zero volatility. *)
(*                                                                          *)
(* An abstract machine over IEEE special values.  A value is                 *)
(*     [c |-> class, f |-> form]                                            *)
(* with class in {nan, pinf, ninf, pos, neg, zero, fin} and, when the value  *)
(* is known exactly, a linear form  f = <<aS, aK, aM, a1>>  (coefficients in *)
(* halves) over the atoms S (spot), K (strike), M (running maximum), 1.      *)
(* The formula DAGs of the bs_* functions are transcribed operation by       *)
(* operation (implementation-shaped layer) and evaluated for every boundary  *)
(* case; the reference layer is the payoff that is then certain.             *)
(* Rules: x/0 = +-inf, 0/0 = nan, 0*inf = nan, inf-inf = nan, N(+-inf) = 1/0,*)
(* N(0) = 1/2, n(+-inf) = 0, n(0) > 0, where() selects without propagating.  *)
EXTENDS Integers, Sequences, TLC, Json

VARIABLES rel,     \* S vs K: "lt" | "eq" | "gt"
          mrel,    \* M vs K (M >= S)
          mabove,  \* M > S strictly (else M = S)
          tz, vz   \* t = 0, v = 0  (at least one of them)
vars == <<rel, mrel, mabove, tz, vz>>

\* ---------------------------------------------------------------- representatives (two, to decide signs of forms)
RepK(r) == IF r = 1 THEN 8 ELSE 10
RepS(r) == CASE rel = "lt" -> (IF r = 1 THEN 4 ELSE 3) [] rel = "eq" -> RepK(r) [] rel = "gt" -> (IF r = 1 THEN 12 ELSE 11)
RepM(r) == IF ~mabove THEN RepS(r)
           ELSE CASE mrel = "lt" -> (IF r = 1 THEN 6 ELSE 9) [] mrel = "eq" -> RepK(r) [] mrel = "gt" -> (IF r = 1 THEN 16 ELSE 40)
Eval(f, r) == f[1] * RepS(r) + f[2] * RepK(r) + f[3] * RepM(r) + f[4]          \* in halves
Sgn(x) == IF x > 0 THEN 1 ELSE IF x < 0 THEN -1 ELSE 0
ClassOfForm(f) == LET a == Sgn(Eval(f, 1)) b == Sgn(Eval(f, 2))
                  IN  IF a # b THEN "fin" ELSE IF a > 0 THEN "pos" ELSE IF a < 0 THEN "neg" ELSE "zero"

NoForm == <<>>
V(c, f)   == [c |-> c, f |-> f]
Lin(f)    == V(ClassOfForm(f), f)
Const(h)  == Lin(<<0, 0, 0, h>>)                     \* h in halves: Const(2) = 1, Const(1) = 1/2
Zero == Const(0)  One == Const(2)  Half == Const(1)
NaN  == V("nan", NoForm)  PInf == V("pinf", NoForm)  NInf == V("ninf", NoForm)
Spot == Lin(<<2, 0, 0, 0>>)  Strike == Lin(<<0, 2, 0, 0>>)  MaxP == Lin(<<0, 0, 2, 0>>)
PosUnknown == V("pos", NoForm)

IsInf(a)  == a.c \in {"pinf", "ninf"}
IsZero(a) == a.c = "zero"
SignOf(a) == CASE a.c \in {"pos", "pinf"} -> 1 [] a.c \in {"neg", "ninf"} -> -1 [] OTHER -> 0
IsConst(a) == a.f # NoForm /\ a.f[1] = 0 /\ a.f[2] = 0 /\ a.f[3] = 0

\* form * (h / 2) for a constant h given in halves, when the result is again in halves
Scalable(h, f) == \A j \in 1..4 : (h * f[j]) % 2 = 0
Scaled(h, f)   == Lin(<<(h * f[1]) \div 2, (h * f[2]) \div 2, (h * f[3]) \div 2, (h * f[4]) \div 2>>)
Neg(a) == CASE a.c = "nan" -> NaN [] a.c = "pinf" -> NInf [] a.c = "ninf" -> PInf
            [] a.f # NoForm -> Lin(<<-a.f[1], -a.f[2], -a.f[3], -a.f[4]>>)
            [] OTHER -> V(IF a.c = "pos" THEN "neg" ELSE IF a.c = "neg" THEN "pos" ELSE a.c, NoForm)
Add(a, b) == IF a.c = "nan" \/ b.c = "nan" THEN NaN
             ELSE IF IsInf(a) /\ IsInf(b) THEN (IF a.c = b.c THEN a ELSE NaN)
             ELSE IF IsInf(a) THEN a ELSE IF IsInf(b) THEN b
             ELSE IF a.f # NoForm /\ b.f # NoForm THEN Lin(<<a.f[1] + b.f[1], a.f[2] + b.f[2], a.f[3] + b.f[3], a.f[4] + b.f[4]>>)
             ELSE IF IsZero(a) THEN b ELSE IF IsZero(b) THEN a
             ELSE IF a.c = b.c /\ a.c \in {"pos", "neg"} THEN V(a.c, NoForm) ELSE V("fin", NoForm)
Sub(a, b) == Add(a, Neg(b))
Mul(a, b) == IF a.c = "nan" \/ b.c = "nan" THEN NaN
             ELSE IF (IsZero(a) /\ IsInf(b)) \/ (IsInf(a) /\ IsZero(b)) THEN NaN
             ELSE IF IsInf(a) \/ IsInf(b) THEN (IF a.c = "fin" \/ b.c = "fin" THEN NaN ELSE IF SignOf(a) * SignOf(b) > 0 THEN PInf ELSE NInf)
             ELSE IF IsZero(a) \/ IsZero(b) THEN Zero
             ELSE IF IsConst(a) /\ b.f # NoForm /\ Scalable(a.f[4], b.f) THEN Scaled(a.f[4], b.f)
             ELSE IF IsConst(b) /\ a.f # NoForm /\ Scalable(b.f[4], a.f) THEN Scaled(b.f[4], a.f)
             ELSE IF a.c = "fin" \/ b.c = "fin" THEN V("fin", NoForm)
             ELSE V(IF SignOf(a) * SignOf(b) > 0 THEN "pos" ELSE "neg", NoForm)
Div(a, b) == IF a.c = "nan" \/ b.c = "nan" THEN NaN
             ELSE IF IsZero(b) THEN (IF IsZero(a) THEN NaN ELSE IF a.c = "fin" THEN NaN ELSE IF SignOf(a) > 0 THEN PInf ELSE NInf)     \* divisor is +0
             ELSE IF IsInf(a) /\ IsInf(b) THEN NaN
             ELSE IF IsInf(b) THEN Zero
             ELSE IF IsInf(a) THEN (IF SignOf(a) * SignOf(b) > 0 THEN PInf ELSE NInf)
             ELSE IF IsZero(a) THEN Zero
             ELSE IF b.f = <<0, 0, 0, 2>> THEN a
             ELSE V(IF a.c = "fin" \/ b.c = "fin" THEN "fin" ELSE IF SignOf(a) * SignOf(b) > 0 THEN "pos" ELSE "neg", NoForm)
Ncdf(a) == CASE a.c = "nan" -> NaN [] a.c = "pinf" -> One [] a.c = "ninf" -> Zero [] a.c = "zero" -> Half [] OTHER -> PosUnknown
Npdf(a) == CASE a.c = "nan" -> NaN [] IsInf(a) -> Zero [] OTHER -> PosUnknown
Where(cond, a, b) == IF cond THEN a ELSE b

\* ---------------------------------------------------------------- inputs of the case
S_  == V(CASE rel = "lt" -> "neg" [] rel = "eq" -> "zero" [] rel = "gt" -> "pos", NoForm)       \* log-moneyness log(S/K)
SM_ == V(IF mabove THEN "neg" ELSE "zero", NoForm)                                              \* log(S/M)
T_  == IF tz THEN Zero ELSE PosUnknown
Vol == IF vz THEN Zero ELSE PosUnknown
SqrtT == T_                                        \* sqrt keeps the class
W   == Mul(Vol, SqrtT)                             \* v * sqrt(t): zero in every boundary case

\* ---------------------------------------------------------------- transcribed DAGs
D1(s) == LET o == Add(Div(s, W), Div(W, One)) IN Where(~IsZero(s) \/ ~IsZero(W), o, Zero)
D2(s) == LET o == Sub(Div(s, W), Div(W, One)) IN Where(~IsZero(s) \/ ~IsZero(W), o, Zero)

EuropeanPrice(call) == LET p == Sub(Mul(Spot, Ncdf(D1(S_))), Mul(Strike, Ncdf(D2(S_))))
                       IN  IF call THEN p ELSE Add(p, Sub(Strike, Spot))            \* + K (1 - e^s)
EuropeanDelta(call) == IF call THEN Ncdf(D1(S_)) ELSE Sub(Ncdf(D1(S_)), One)
BinaryPrice(call)   == IF call THEN Ncdf(D2(S_)) ELSE Sub(One, Ncdf(D2(S_)))
Guard0(num, den)    == LET q == Div(num, den) IN Where(IsZero(num) /\ IsZero(den), Zero, q)
BinaryDelta(call)   == LET d == Guard0(Npdf(D2(S_)), Mul(Spot, W)) IN IF call THEN d ELSE Neg(d)
AmericanBinaryPrice == LET p == Add(Ncdf(D2(S_)), Mul(Div(Spot, Strike), Ncdf(D1(S_))))       \* N(d2) + e^s N(d1)
                       IN  Where(mrel = "lt", p, One)
AmericanBinaryDelta == LET p == Add(Add(Guard0(Npdf(D2(S_)), Mul(Spot, W)), Div(Ncdf(D1(S_)), Strike)), Guard0(Npdf(D1(S_)), Mul(Strike, W)))
                       IN  Where(mrel = "lt", p, Zero)
\* lookback: w d N(d) is written (s + w^2/2) N(d), which is finite at w = 0
Term(s, d) == Add(Mul(Add(s, Div(Mul(W, W), One)), Ncdf(d)), Mul(W, Npdf(d)))
LookbackPrice == LET p0 == Sub(Mul(Spot, Add(Ncdf(D1(S_)), Term(S_, D1(S_)))), Mul(Strike, Ncdf(D2(S_))))
                     p1 == Add(Sub(Mul(Spot, Add(Ncdf(D1(SM_)), Term(SM_, D1(SM_)))), Strike), Mul(MaxP, Sub(One, Ncdf(D2(SM_)))))
                 IN  Where(mrel = "lt", p0, p1)
\* the formula as the code had it: v sqrt(t) (d N(d) + n(d))  - kept to show the design-level defect
TermOld(d) == Mul(W, Add(Mul(d, Ncdf(d)), Npdf(d)))
LookbackPriceOld == LET p0 == Sub(Mul(Spot, Add(Ncdf(D1(S_)), TermOld(D1(S_)))), Mul(Strike, Ncdf(D2(S_))))
                        p1 == Add(Sub(Mul(Spot, Add(Ncdf(D1(SM_)), TermOld(D1(SM_)))), Strike), Mul(MaxP, Sub(One, Ncdf(D2(SM_)))))
                    IN  Where(mrel = "lt", p0, p1)

\* ---------------------------------------------------------------- reference layer: the payoff that is certain
Relu(f) == IF ClassOfForm(f) = "neg" THEN <<0, 0, 0, 0>> ELSE f
IntrinsicEuropean(call) == IF call THEN Relu(<<2, -2, 0, 0>>) ELSE Relu(<<-2, 2, 0, 0>>)
IntrinsicLookback       == Relu(<<0, -2, 2, 0>>)                                    \* max(M, S) - K with M >= S, clipped at 0
IntrinsicAmericanBinary == IF mrel = "lt" THEN <<0, 0, 0, 0>> ELSE <<0, 0, 0, 2>>

Init == /\ rel \in {"lt", "eq", "gt"} /\ mrel \in {"lt", "eq", "gt"} /\ mabove \in BOOLEAN
        /\ tz \in BOOLEAN /\ vz \in BOOLEAN /\ (tz \/ vz)
        /\ (mabove => (rel = "gt" => mrel = "gt") /\ (rel = "eq" => mrel = "gt"))       \* M > S
        /\ (~mabove => mrel = rel)                                                   \* M = S
Next == UNCHANGED vars
Spec == Init /\ [][Next]_vars

\* ---------------------------------------------------------------- properties
NotNaN(a) == a.c # "nan"
SameValue(a, f) == a.f # NoForm /\ \A r \in {1, 2} : Eval(a.f, r) = Eval(f, r)
NoNaN == /\ \A call \in BOOLEAN : NotNaN(EuropeanPrice(call)) /\ NotNaN(EuropeanDelta(call)) /\ NotNaN(BinaryPrice(call)) /\ NotNaN(BinaryDelta(call))
         /\ NotNaN(AmericanBinaryPrice) /\ NotNaN(AmericanBinaryDelta) /\ NotNaN(LookbackPrice)
PriceIsIntrinsic ==
  /\ \A call \in BOOLEAN : SameValue(EuropeanPrice(call), IntrinsicEuropean(call))
  /\ (rel = "gt" => SameValue(BinaryPrice(TRUE), <<0, 0, 0, 2>>) /\ SameValue(BinaryPrice(FALSE), <<0, 0, 0, 0>>))
  /\ (rel = "lt" => SameValue(BinaryPrice(TRUE), <<0, 0, 0, 0>>) /\ SameValue(BinaryPrice(FALSE), <<0, 0, 0, 2>>))
  /\ SameValue(AmericanBinaryPrice, IntrinsicAmericanBinary)
  /\ SameValue(LookbackPrice, IntrinsicLookback)
DeltaLimit ==
  /\ (rel = "gt" => SameValue(EuropeanDelta(TRUE), <<0, 0, 0, 2>>) /\ SameValue(EuropeanDelta(FALSE), <<0, 0, 0, 0>>))
  /\ (rel = "lt" => SameValue(EuropeanDelta(TRUE), <<0, 0, 0, 0>>) /\ SameValue(EuropeanDelta(FALSE), <<0, 0, 0, -2>>))
  /\ (rel # "eq" => SameValue(BinaryDelta(TRUE), <<0, 0, 0, 0>>) /\ SameValue(BinaryDelta(FALSE), <<0, 0, 0, 0>>))
  /\ SameValue(AmericanBinaryDelta, <<0, 0, 0, 0>>)
\* design-level record of the defect of the previous formula (an expected violation, not checked as invariant)
OldLookbackHasNaN == (rel # "eq" /\ mrel = "lt") => LookbackPriceOld.c = "nan"

Show(a) == [c |-> a.c, f |-> a.f]
Emit == PrintT(ToJson([rel |-> rel, mrel |-> mrel, mabove |-> mabove, tz |-> tz, vz |-> vz,
          european |-> [call |-> Show(EuropeanPrice(TRUE)), put |-> Show(EuropeanPrice(FALSE))],
          european_delta |-> [call |-> Show(EuropeanDelta(TRUE)), put |-> Show(EuropeanDelta(FALSE))],
          binary |-> [call |-> Show(BinaryPrice(TRUE)), put |-> Show(BinaryPrice(FALSE))],
          binary_delta |-> [call |-> Show(BinaryDelta(TRUE)), put |-> Show(BinaryDelta(FALSE))],
          american |-> Show(AmericanBinaryPrice), american_delta |-> Show(AmericanBinaryDelta),
          lookback |-> Show(LookbackPrice), lookback_old |-> Show(LookbackPriceOld)]))
=============================================================================
