SPECIFICATION Spec
CONSTANTS
  T = 4
  H = 1
  K = 2
  DtNum = 1
  DtDen = 4
  Spots = {1,2,4}
  Vars = {4}
  Spots2 = {1}
  Configs <- NoVarSingles
  EmitMod = 7
  EmitRes = 0
INVARIANT NonAnticipative
INVARIANT FeatureReadsSound
INVARIANT Emit
CHECK_DEADLOCK FALSE
