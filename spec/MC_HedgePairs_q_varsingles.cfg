SPECIFICATION Spec
CONSTANTS
  T = 3
  H = 1
  K = 2
  DtNum = 1
  DtDen = 4
  Spots = {1,2,4}
  Vars = {1,4}
  Spots2 = {1}
  Configs <- VarSingles
  EmitMod = 5
  EmitRes = 0
INVARIANT NonAnticipative
INVARIANT FeatureReadsSound
INVARIANT Emit
CHECK_DEADLOCK FALSE
