------------------------------- MODULE Grid -------------------------------
(* C13 - the time grid, in exact rationals.                                 *)
(* A derivative of maturity M on an underlier of step dt is simulated on    *)
(*   Steps(M, dt) = ceil(M / dt) + 1   time points 0, dt, 2 dt, ...         *)
(* time to maturity at step i is (T - 1 - i) dt, and the forward-start      *)
(* option starts at index floor(start / dt).  Maturities are generated as   *)
(* (k + f) * dt with k integral and f a fraction in [0, 1), so that the     *)
(* integral case M/dt = k (where floating point may land just above or      *)
(* below k) is enumerated for every k.                                      *)
EXTENDS Rat, TLC, Json

CONSTANTS DtSet,    \* step sizes as rationals <<n, d>>
          Ks,       \* integral parts k
          Fracs     \* fractional parts <<n, d>> in [0, 1)

VARIABLES dt, k, f
vars == <<dt, k, f>>

Maturity      == RMul(RAdd(R(k), f), dt)
Steps(M, d)   == RCeil(RDiv(M, d)) + 1
StartIndex(s, d) == RFloor(RDiv(s, d))
TTM(T, i)     == RMul(R(T - 1 - (i % T)), dt)        \* i may be negative: taken modulo T

Init == dt \in DtSet /\ k \in Ks /\ f \in Fracs
Next == UNCHANGED vars
Spec == Init /\ [][Next]_vars

T == Steps(Maturity, dt)
StepsIntegral   == f = RZero => T = k + 1
StepsFractional == f # RZero => T = k + 2
TTMDecreasing   == \A i \in 0..(T - 2) : RLt(TTM(T, i + 1), TTM(T, i))
TTMZeroAtEnd    == TTM(T, T - 1) = RZero /\ TTM(T, -1) = RZero
TTMStart        == TTM(T, 0) = RMul(R(T - 1), dt) /\ RLe(Maturity, TTM(T, 0)) /\ RLt(RSub(TTM(T, 0), dt), Maturity)
StartIsFloor    == StartIndex(Maturity, dt) = k

Emit == PrintT(ToJson([dt |-> dt, k |-> k, f |-> f, maturity |-> Maturity, steps |-> T, start_index |-> StartIndex(Maturity, dt)]))
=============================================================================
