SPECIFICATION Spec
CONSTANTS
  T = 1
  H = 1
  Spots <- SpotsNeg
  Units <- UnitsA
  CostVecs <- Cost1
  Payoffs <- PayA
  EmitMod = 1
  EmitRes = 0
INVARIANT TypeOK
INVARIANT WealthIsFormula
INVARIANT SelfFinancing
INVARIANT BuyAndHold
INVARIANT Emit
PROPERTY Terminates
CHECK_DEADLOCK FALSE
