SPECIFICATION Spec
CONSTANTS
  T = 3
  H = 2
  Spots <- SpotsB
  Units <- UnitsA
  CostVecs <- Cost2s
  Payoffs <- PayB
  EmitMod = 97
  EmitRes = 0
INVARIANT TypeOK
INVARIANT WealthIsFormula
INVARIANT SelfFinancing
INVARIANT BuyAndHold
INVARIANT Emit
PROPERTY Terminates
CHECK_DEADLOCK FALSE
