SPECIFICATION Spec
CONSTANTS
  CostDen = 8
INVARIANT BandProps
INVARIANT WidthProps
INVARIANT BilerpProps
INVARIANT Emit
CHECK_DEADLOCK FALSE
