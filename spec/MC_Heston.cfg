SPECIFICATION Spec
CONSTANTS
  Rhos <- RhosA
  Kappas <- KappasA
  Thetas <- ThetasA
  Sigmas <- SigmasA
  Dts <- DtsA
  Vs <- VsA
INVARIANT WeightsSumToOne
INVARIANT ImplementationIsDerivation
INVARIANT ReturnFollowsVarianceWithSignOfRho
INVARIANT ZeroRhoDecouples
INVARIANT ConditionalVarianceIsOrthogonalShare
INVARIANT Emit
CHECK_DEADLOCK FALSE
