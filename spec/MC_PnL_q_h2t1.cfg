SPECIFICATION Spec
CONSTANTS
  T = 1
  H = 2
  Spots <- SpotsA
  Units <- UnitsA
  CostVecs <- Cost2
  Payoffs <- PayB
  EmitMod = 5
  EmitRes = 0
INVARIANT TypeOK
INVARIANT WealthIsFormula
INVARIANT SelfFinancing
INVARIANT BuyAndHold
INVARIANT Emit
PROPERTY Terminates
CHECK_DEADLOCK FALSE
