SPECIFICATION Spec
CONSTANTS
  T = 6
  Zs <- ZsA
  Ns <- NsZero
  Schemes <- Diffusions
INVARIANT BrownianClosedForm
INVARIANT OUClosedForm
INVARIANT EulerMartingale
INVARIANT JumpFreeReduction
INVARIANT MeanGrowthIsMu
INVARIANT OUVariance
INVARIANT Emit
PROPERTY Terminates
CHECK_DEADLOCK FALSE
