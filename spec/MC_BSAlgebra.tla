----------------------------- MODULE MC_BSAlgebra -----------------------------
EXTENDS BSAlgebra
OnlyC07 == {"homogeneous"}
OnlyC08 == {"greek_is_derivative"}
OnlyC09 == Kinds \ {"homogeneous", "greek_is_derivative"}
=============================================================================
