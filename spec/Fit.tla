-------------------------------- MODULE Fit --------------------------------
(* C15 - Hedger.fit performs exactly the documented training protocol.      *)
(*                                                                          *)
(* One action per step fit() takes (the protocol automaton):                *)
(*   Configure   an optimiser given as a class is instantiated on the       *)
(*               model's parameters; a lazy model is first materialised by  *)
(*               one placeholder simulate(1) + forward                      *)
(*   per epoch:  Train; ZeroGrad; Simulate(n_paths, init_state);            *)
(*               Forward (training mode, gradients on); Backward; Step;     *)
(*               and, iff validation: Eval; n_times x (Simulate; Forward in *)
(*               evaluation mode without gradients); AppendHistory          *)
(*   Finish      returns the history (one entry per epoch) or None          *)
(* Bookkeeping variables state what the property talks about: number of     *)
(* optimiser steps, which batches contributed to the gradient a step uses,  *)
(* the parameter version, the mode/grad flags seen by every forward.        *)
EXTENDS Integers, Sequences, FiniteSets, TLC, Json

CONSTANTS Configs      \* set of [k, n, ntimes, validation, optclass, lazy, init, pre_eval, extra, stale]
                       \* pre_eval: the hedger was left in evaluation mode before fit(); extra: the optimiser also owns
                       \* parameters outside the model (a parametrised criterion)

VARIABLES cfg, pc, epoch, mode, zeroed, steps, pver, contrib, batch, fresh, hlen, vdone, sims, out
vars == <<cfg, pc, epoch, mode, zeroed, steps, pver, contrib, batch, fresh, hlen, vdone, sims, out>>
(* mode    : "train" / "eval" / "initial" (never set by fit yet)
   zeroed  : gradients are cleared (no batch contributes)
   contrib : set of batch ids whose gradient is accumulated in .grad
   batch   : id of the batch currently in the buffers (0 = none); fresh: simulated since the last forward
   pver    : parameter version, changes only in Step
   sims    : number of simulate calls, out: "running" / "history" / "none" *)

Init == /\ cfg \in Configs
        /\ pc = "configure" /\ epoch = 0 /\ mode = "initial" /\ steps = 0 /\ pver = 0
        \* stale: the parameters already carry a gradient when fit() is entered (the user back-propagated a loss before):
        \* it is the contribution of a "batch 0" that no step of this fit may use
        /\ zeroed = ~cfg.stale /\ contrib = (IF cfg.stale THEN {0} ELSE {})
        /\ batch = 0 /\ fresh = FALSE /\ hlen = 0 /\ vdone = 0 /\ sims = 0 /\ out = "running"

U(keep) == UNCHANGED keep

\* ---------------------------------------------------------------- configuration
Configure == /\ pc = "configure"
             /\ pc' = IF cfg.optclass /\ cfg.lazy THEN "materialise-sim" ELSE "epoch"
             /\ U(<<cfg, epoch, mode, zeroed, steps, pver, contrib, batch, fresh, hlen, vdone, sims, out>>)
\* placeholder simulate(n_paths = 1) with the default initial state
MaterialiseSim(n, init) == /\ pc = "materialise-sim" /\ n = 1 /\ init = "default"
                           /\ batch' = batch + 1 /\ fresh' = TRUE /\ sims' = sims + 1 /\ pc' = "materialise-fwd"
                           /\ U(<<cfg, epoch, mode, zeroed, steps, pver, contrib, hlen, vdone, out>>)
MaterialiseFwd == /\ pc = "materialise-fwd" /\ fresh' = FALSE /\ pc' = "epoch"
                  /\ U(<<cfg, epoch, mode, zeroed, steps, pver, contrib, batch, hlen, vdone, sims, out>>)

\* ---------------------------------------------------------------- one epoch
Train == /\ pc = "epoch" /\ epoch < cfg.k
         /\ mode' = "train" /\ pc' = "zerograd"
         /\ U(<<cfg, epoch, zeroed, steps, pver, contrib, batch, fresh, hlen, vdone, sims, out>>)
ZeroGrad == /\ pc = "zerograd"
            /\ zeroed' = TRUE /\ contrib' = {} /\ pc' = "simulate"
            /\ U(<<cfg, epoch, mode, steps, pver, batch, fresh, hlen, vdone, sims, out>>)
Simulate(n, init) == /\ pc = "simulate" /\ n = cfg.n /\ init = cfg.init
                     /\ batch' = batch + 1 /\ fresh' = TRUE /\ sims' = sims + 1 /\ pc' = "forward"
                     /\ U(<<cfg, epoch, mode, zeroed, steps, pver, contrib, hlen, vdone, out>>)
Forward(m, g) == /\ pc = "forward" /\ m = mode /\ m = "train" /\ g = TRUE /\ fresh
                 /\ fresh' = FALSE /\ pc' = "backward"
                 /\ U(<<cfg, epoch, mode, zeroed, steps, pver, contrib, batch, hlen, vdone, sims, out>>)
Backward == /\ pc = "backward"
            /\ contrib' = contrib \cup {batch} /\ zeroed' = FALSE /\ pc' = "step"
            /\ U(<<cfg, epoch, mode, steps, pver, batch, fresh, hlen, vdone, sims, out>>)
Step == /\ pc = "step"
        /\ steps' = steps + 1 /\ pver' = pver + 1
        /\ pc' = IF cfg.validation THEN "eval" ELSE "endepoch"
        /\ U(<<cfg, epoch, mode, zeroed, contrib, batch, fresh, hlen, vdone, sims, out>>)
Eval == /\ pc = "eval"
        /\ mode' = "eval" /\ vdone' = 0 /\ pc' = "vsimulate"
        /\ U(<<cfg, epoch, zeroed, steps, pver, contrib, batch, fresh, hlen, sims, out>>)
VSimulate(n, init) == /\ pc = "vsimulate" /\ vdone < cfg.ntimes /\ n = cfg.n /\ init = cfg.init
                      /\ batch' = batch + 1 /\ fresh' = TRUE /\ sims' = sims + 1 /\ pc' = "vforward"
                      /\ U(<<cfg, epoch, mode, zeroed, steps, pver, contrib, hlen, vdone, out>>)
VForward(m, g) == /\ pc = "vforward" /\ m = mode /\ m = "eval" /\ g = FALSE /\ fresh
                  /\ fresh' = FALSE /\ vdone' = vdone + 1
                  /\ pc' = IF vdone + 1 = cfg.ntimes THEN "history" ELSE "vsimulate"
                  /\ U(<<cfg, epoch, mode, zeroed, steps, pver, contrib, batch, hlen, sims, out>>)
AppendHistory == /\ pc = "history"
                 /\ hlen' = hlen + 1 /\ pc' = "endepoch"
                 /\ U(<<cfg, epoch, mode, zeroed, steps, pver, contrib, batch, fresh, vdone, sims, out>>)
EndEpoch == /\ pc = "endepoch"
            /\ epoch' = epoch + 1 /\ pc' = "epoch"
            /\ U(<<cfg, mode, zeroed, steps, pver, contrib, batch, fresh, hlen, vdone, sims, out>>)
Finish(h) == /\ pc = "epoch" /\ epoch = cfg.k
             /\ h = IF cfg.validation THEN hlen ELSE -1
             /\ out' = (IF cfg.validation THEN "history" ELSE "none") /\ pc' = "done"
             /\ U(<<cfg, epoch, mode, zeroed, steps, pver, contrib, batch, fresh, hlen, vdone, sims>>)

Next == \/ Configure \/ (\E n \in 1..8, i \in {"default", "custom"} : MaterialiseSim(n, i)) \/ MaterialiseFwd
        \/ Train \/ ZeroGrad \/ (\E n \in 1..8, i \in {"default", "custom"} : Simulate(n, i) \/ VSimulate(n, i))
        \/ (\E m \in {"train", "eval", "initial"}, g \in BOOLEAN : Forward(m, g) \/ VForward(m, g))
        \/ Backward \/ Step \/ Eval \/ AppendHistory \/ EndEpoch \/ (\E h \in -1..8 : Finish(h))
Spec == Init /\ [][Next]_vars /\ WF_vars(Next)

\* ---------------------------------------------------------------- properties
StepsEqualEpochs == (pc \in {"epoch", "done"}) => steps = epoch
ExactlyKSteps    == pc = "done" => steps = cfg.k /\ epoch = cfg.k
\* the gradient a step uses is the gradient of the batch simulated in this very epoch, alone
NoAccumulation   == pc = "step" => contrib = {batch}
FreshBatchPerStep == [][pc = "step" /\ pc' # "step" => TRUE]_vars
ParamsChangeOnlyInStep == [][pver' # pver => pc = "step"]_vars
TrainForwardInTrainMode == pc = "backward" => mode = "train"
ValidationInEvalMode    == pc \in {"vsimulate", "vforward", "history"} => mode = "eval"
HistoryLength    == pc = "done" => (IF cfg.validation THEN hlen = cfg.k /\ out = "history" ELSE hlen = 0 /\ out = "none")
SimulationCount  == pc = "done" => sims = cfg.k * (1 + (IF cfg.validation THEN cfg.ntimes ELSE 0))
                                          + (IF cfg.optclass /\ cfg.lazy THEN 1 ELSE 0)
Terminates == <>(pc = "done")
=============================================================================
