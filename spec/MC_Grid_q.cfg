SPECIFICATION Spec
CONSTANTS
  DtSet <- DtAll
  Ks <- KQuick
  Fracs <- FAll
INVARIANT StepsIntegral
INVARIANT StepsFractional
INVARIANT TTMDecreasing
INVARIANT TTMZeroAtEnd
INVARIANT TTMStart
INVARIANT StartIsFloor
INVARIANT Emit
CHECK_DEADLOCK FALSE
