SPECIFICATION Spec
CONSTANTS
  N = 1
  Lattice <- LatA
  PSeq <- PAll
  LamSeq <- LamAll
  Mode = "single"
  EmitMod = 1
  EmitRes = 0
CHECK_DEADLOCK FALSE
INVARIANT Emit
INVARIANT ESCash
INVARIANT ESHomogeneous
INVARIANT ESMonotoneInP
INVARIANT ESBounds
INVARIANT ESDefinition
INVARIANT QCash
INVARIANT QBounds
INVARIANT QIsMinimum
INVARIANT ERMCash
INVARIANT ERMBounds
INVARIANT ERMAboveMean
INVARIANT ERMMonotoneInA
INVARIANT VaRProperties
INVARIANT CEBounds
