SPECIFICATION Spec
CONSTANTS
  T = 5
  Prices = {1,2,4,8}
  Strikes <- KStrikes
  Kinds <- AllKinds
  OpSeqs <- NoOps
  Starts = {0,1,3,4}
INVARIANT Orderings
INVARIANT ClauseOrder
INVARIANT NamesUnique
INVARIANT Emit
PROPERTY Terminates
CHECK_DEADLOCK FALSE
