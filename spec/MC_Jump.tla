------------------------------- MODULE MC_Jump -------------------------------
EXTENDS Jump
\* sigma (not sigma^2) and the jump standard deviation must be exact doubles: squares of dyadics
ModelsA == {"merton", "kou"}
Sd2sA   == {Q(1, 16), Q(1, 4), R(1)}
LsA     == {RZero, Q(1, 4), R(2)}
\* merton: m in {-1/4, 0, 1/2}, s^2 in {0, 1/16, 1/4};  kou: u in {1/8, 1/4, 1/2}, d in {1/16, 1/4}
A1sA    == {Q(-1, 4), RZero, Q(1, 8), Q(1, 4), Q(1, 2)}
A2sA    == {RZero, Q(1, 16), Q(1, 4)}
PsA     == {Q(1, 4), Q(1, 2), Q(3, 4)}
=============================================================================
