SPECIFICATION Spec
CONSTANTS
  T = 3
  Prices = {1,2,4}
  Strikes <- KStrikes
  Kinds <- AllKinds
  OpSeqs <- OpsMenu
  Starts = {0,1,2}
INVARIANT Orderings
INVARIANT ClauseOrder
INVARIANT NamesUnique
INVARIANT Emit
PROPERTY Terminates
CHECK_DEADLOCK FALSE
