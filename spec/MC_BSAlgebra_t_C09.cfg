SPECIFICATION Spec
CONSTANTS
  Only <- OnlyC09
  NSpot = 11
  NTime = 5
  NVol = 5
  NStrike = 4
  NMax = 4
INVARIANT Emit
CHECK_DEADLOCK FALSE
