SPECIFICATION Spec
CONSTANTS
  T = 4
  H = 1
  K = 2
  DtNum = 1
  DtDen = 4
  Spots = {1,4}
  Vars = {1,4}
  Spots2 = {1}
  Configs <- PairCombos1
  EmitMod = 5
  EmitRes = 0
INVARIANT NonAnticipative
INVARIANT FeatureReadsSound
INVARIANT Emit
CHECK_DEADLOCK FALSE
