SPECIFICATION Spec
CONSTANTS
  T = 2
  H = 2
  K = 2
  DtNum = 1
  DtDen = 4
  Spots = {1,2,4}
  Vars = {1,4}
  Spots2 = {1}
  Configs <- PairCombos2
  EmitMod = 3
  EmitRes = 0
INVARIANT NonAnticipative
INVARIANT FeatureReadsSound
INVARIANT Emit
CHECK_DEADLOCK FALSE
