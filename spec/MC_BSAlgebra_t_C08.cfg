SPECIFICATION Spec
CONSTANTS
  Only <- OnlyC08
  NSpot = 15
  NTime = 7
  NVol = 7
  NStrike = 6
  NMax = 5
INVARIANT Emit
CHECK_DEADLOCK FALSE
