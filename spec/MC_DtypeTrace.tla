--------------------------- MODULE MC_DtypeTrace ---------------------------
EXTENDS DtypeTrace
P2       == {"p1", "p2"}
Bufs2    == [p \in P2 |-> IF p = "p1" THEN {"spot"} ELSE {"spot", "variance"}]
F4       == {"f16", "bf16", "f32", "f64"}
D2       == {"f32", "f64"}
AllDecl  == [P2 -> {"none", "f32", "f64"}]
HowsAll  == {"to(dtype)", "method", "to(tensor)"}
ViasAll  == {"primary", "derivative"}
Unbounded == 1000000
P1 == {"p1"}
BufsK1 == [p \in P1 |-> {"b1"}]
BufsK2 == [p \in P1 |-> {"b1", "b2"}]
BufsK3 == [p \in P1 |-> {"b1", "b2", "b3"}]
OneDecl == [P1 -> {"none", "f16", "bf16", "f32", "f64"}]
=============================================================================
