--------------------------------- MODULE WW ---------------------------------
(* C20 - the Whalley-Wilmott no-transaction band and the small helpers.     *)
(*                                                                          *)
(* Band: the strategy keeps the previous hedge when it lies within          *)
(* delta +/- w, otherwise moves to the nearest band edge; the half-width    *)
(* satisfies  w^3 = 3 c Gamma^2 S / (2 a).  Cases are integer tuples        *)
(* (c, Gamma, S, a, w) that satisfy the cube relation exactly (costs in     *)
(* units of 1/CostDen), so the real ww_width must return w up to one cube   *)
(* root's rounding.  One state per case; kind selects the family.           *)
EXTENDS Rat, TLC, Json

CONSTANTS CostDen

VARIABLES kind, c
vars == <<kind, c>>

\* ---------------------------------------------------------------- band
Band(prev, delta, w) == IF RLe(RAbs(RSub(prev, delta)), w) THEN prev
                        ELSE IF RLt(prev, delta) THEN RSub(delta, w) ELSE RAdd(delta, w)
BandCases == { [prev |-> Q(p, 4), delta |-> Q(d, 4), w |-> Q(ww, 4)] : p \in -4..8, d \in {0, 1, 2, 4}, ww \in {0, 1, 2, 3} }
WidthCases == { [cn |-> cn, gamma |-> g, spot |-> s, a |-> Q(an, 2), w |-> Q(wn, 2)] :
                cn \in 0..6, g \in 1..4, s \in 1..4, an \in {1, 2, 4, 16}, wn \in 0..12 }
WidthOK(t) == \* 2 a w^3 = 3 c Gamma^2 S   with c = cn / CostDen
  RMul(RMul(R(2), t.a), RPow(t.w, 3)) = RMul(RMul(Q(3 * t.cn, CostDen), R(t.gamma * t.gamma)), R(t.spot))

\* ---------------------------------------------------------------- helpers
\* (a may be negative and so may the documented formula's value: the helper returns the formula, it does not floor it)
\* SVI total variance on Pythagorean pairs (k - m, sigma): sqrt((k-m)^2 + sigma^2) = hyp is an integer
Pyth == { <<3, 4, 5>>, <<5, 12, 13>>, <<8, 6, 10>>, <<0, 3, 3>>, <<-3, 4, 5>>, <<-8, 15, 17>> }
SviCases == { [a |-> Q(an, 2), b |-> Q(bn, 2), rho |-> Q(rn, 2), m |-> Q(mn, 2), km |-> t[1], sigma |-> t[2], hyp |-> t[3]] :
              an \in {-8, 0, 1, 3}, bn \in {1, 2}, rn \in {-1, 0, 1}, mn \in {-1, 0, 2}, t \in Pyth }
Svi(t) == RAdd(t.a, RMul(t.b, RAdd(RMul(t.rho, R(t.km)), R(t.hyp))))
\* bilinear interpolation with dyadic weights
Lerp(u, v, w) == RAdd(u, RMul(w, RSub(v, u)))
BilerpCases == { [i1 |-> R(p), i2 |-> R(q), i3 |-> R(r), i4 |-> R(s), w1 |-> Q(a, 4), w2 |-> Q(b, 4)] :
                 p \in {0, 4}, q \in {1, 8}, r \in {-2, 2}, s \in {0, 6}, a \in 0..4, b \in 0..4 }
Bilerp(t) == Lerp(Lerp(t.i1, t.i2, t.w1), Lerp(t.i3, t.i4, t.w1), t.w2)
\* Box-Muller at u1 = 2^-j (radius^2 = 2 j ln 2), u2 a multiple of 1/4 (cos, sin in {-1, 0, 1}); j = -1 encodes u1 = 0
BoxCases == { [j |-> j, quarter |-> q] : j \in -1..6, q \in 0..3 }
CosQ(q) == CASE q = 0 -> 1 [] q = 1 -> 0 [] q = 2 -> -1 [] q = 3 -> 0
SinQ(q) == CASE q = 0 -> 0 [] q = 1 -> 1 [] q = 2 -> 0 [] q = 3 -> -1

Cases == [band : BandCases] \cup [width : {t \in WidthCases : WidthOK(t)}] \cup [svi : SviCases]
         \cup [bilerp : BilerpCases] \cup [box : BoxCases]

Init == /\ kind \in {"band", "width", "svi", "bilerp", "box"}
        /\ c \in CASE kind = "band" -> BandCases [] kind = "width" -> {t \in WidthCases : WidthOK(t)}
                   [] kind = "svi" -> SviCases [] kind = "bilerp" -> BilerpCases [] kind = "box" -> BoxCases
Next == UNCHANGED vars
Spec == Init /\ [][Next]_vars

\* band properties: idempotent, inside the band, zero width means delta hedging, no move inside the band
BandProps == kind = "band" =>
  LET y == Band(c.prev, c.delta, c.w) IN
  /\ RLe(RAbs(RSub(y, c.delta)), c.w)
  /\ Band(y, c.delta, c.w) = y
  /\ (c.w = RZero => y = c.delta)
  /\ (RLe(RAbs(RSub(c.prev, c.delta)), c.w) => y = c.prev)
  /\ RLe(RAbs(RSub(y, c.prev)), RAbs(RSub(c.delta, c.prev)))           \* never overshoots delta
\* zero cost gives zero width
WidthProps == kind = "width" => (c.cn = 0 <=> c.w = RZero)
\* bilinear interpolation reproduces the corners
BilerpProps == kind = "bilerp" =>
  /\ (c.w1 = RZero /\ c.w2 = RZero => Bilerp(c) = c.i1) /\ (c.w1 = ROne /\ c.w2 = RZero => Bilerp(c) = c.i2)
  /\ (c.w1 = RZero /\ c.w2 = ROne => Bilerp(c) = c.i3) /\ (c.w1 = ROne /\ c.w2 = ROne => Bilerp(c) = c.i4)

Emit == PrintT(ToJson(
  CASE kind = "band"   -> [kind |-> kind, c |-> c, out |-> Band(c.prev, c.delta, c.w)]
    [] kind = "width"  -> [kind |-> kind, c |-> c, out |-> c.w]
    [] kind = "svi"    -> [kind |-> kind, c |-> c, out |-> Svi(c)]
    [] kind = "bilerp" -> [kind |-> kind, c |-> c, out |-> Bilerp(c)]
    [] kind = "box"    -> [kind |-> kind, c |-> c, out |-> <<CosQ(c.quarter), SinQ(c.quarter)>>]))
=============================================================================
