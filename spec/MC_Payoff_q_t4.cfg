SPECIFICATION Spec
CONSTANTS
  T = 4
  Prices = {1,2,4}
  Strikes <- KStrikes
  Kinds <- AllKinds
  OpSeqs <- NoOps
  Starts = {0,2,3}
INVARIANT Orderings
INVARIANT ClauseOrder
INVARIANT NamesUnique
INVARIANT Emit
PROPERTY Terminates
CHECK_DEADLOCK FALSE
