-------------------------------- MODULE Jump --------------------------------
(* C10 (Merton / Kou) - the documented jump contributions to the mean and   *)
(* the variance of the log-price.                                            *)
(*                                                                           *)
(* Over one step of length dt the log-price of a jump-diffusion moves by     *)
(*     c + sigma sqrt(dt) Z + J_1 + ... + J_N,      N ~ Poisson(lambda dt),  *)
(* with c the (compensated) drift of the step, Z standard normal and the     *)
(* J_i independent jump sizes: normal(m, s^2) for Merton; for Kou +Exp with  *)
(* mean u with probability p, -Exp with mean d otherwise.                    *)
(*                                                                           *)
(* Exact rational model (all quantities relative to the drift c):            *)
(*   sd2 = sigma^2 dt,  L = lambda dt,  the jump law by its parameters.      *)
(* Layer 1 - one step CONDITIONAL on the number n of jumps (and, for Kou,    *)
(*   on the number j of upward ones): mean and variance of the move.  This   *)
(*   is what the generators must reproduce; the harness feeds them the jump  *)
(*   counts and Gauss-Hermite / Gauss-Laguerre nodes in place of the random  *)
(*   numbers, for which the first two moments of one step are exact sums.    *)
(*   BinomialMixing: mixing the (n, j) laws over j ~ Binomial(n, p) gives    *)
(*   the law conditional on n alone (a sum of n i.i.d. jumps).               *)
(* Layer 2 - the moment machine: (mean, var) of the log-price after k steps, *)
(*   propagated by the tower law with E[N] = Var[N] = L (Poisson).  TLC      *)
(*   checks that this IS the documented closed form                          *)
(*       Var[log S_t] = (sigma^2 + lambda E[J^2]) t,                         *)
(*       E[log S_t] - c t/dt = lambda E[J] t,                                *)
(*   that the jump-free case is the diffusion and that jumps only add        *)
(*   variance.                                                               *)
EXTENDS Rat, TLC, Json

CONSTANTS Models, Sd2s, Ls,       \* "merton" / "kou"; sigma^2 dt; lambda dt
          A1s, A2s, Ps,           \* merton: jump mean m, jump variance s^2;  kou: up mean u, down mean d, up probability p
          NMax, K

VARIABLES model, sd2, L, a1, a2, pr, k, mean, var
vars == <<model, sd2, L, a1, a2, pr, k, mean, var>>

\* ---------------------------------------------------------------- the jump law
JMean   == IF model = "merton" THEN a1 ELSE LSub(LMul(pr, a1), LMul(LSub(ROne, pr), a2))
JSecond == IF model = "merton" THEN LAdd(a2, LSq(a1))
           ELSE LAdd(LMul(R(2), LMul(pr, LSq(a1))), LMul(R(2), LMul(LSub(ROne, pr), LSq(a2))))
JVar    == LSub(JSecond, LSq(JMean))

\* ---------------------------------------------------------------- layer 1: one step given the jump count
CondMean(n) == LMul(R(n), JMean)
CondVar(n)  == LAdd(sd2, LMul(R(n), JVar))
\* Kou, given n jumps of which j go up: sums of j Exp(mean u) and n - j Exp(mean d) (an exponential's variance is its mean squared)
CondMeanU(n, j) == LSub(LMul(R(j), a1), LMul(R(n - j), a2))
CondVarU(n, j)  == LAdd(sd2, LAdd(LMul(R(j), LSq(a1)), LMul(R(n - j), LSq(a2))))

RECURSIVE Choose(_, _)
Choose(n, j) == IF j = 0 \/ j = n THEN 1 ELSE Choose(n - 1, j - 1) + Choose(n - 1, j)
Binom(n, j) == LMul(R(Choose(n, j)), LMul(LPow(pr, j), LPow(LSub(ROne, pr), n - j)))
RECURSIVE MixTo(_, _, _)
MixTo(F(_), n, j) == IF j < 0 THEN RZero ELSE LAdd(MixTo(F, n, j - 1), LMul(Binom(n, j), F(j)))

Init == /\ model \in Models /\ sd2 \in Sd2s /\ L \in Ls /\ a1 \in A1s /\ a2 \in A2s
        /\ pr \in (IF model = "kou" THEN Ps ELSE {RZero})
        /\ (model = "kou" => RLt(RZero, a1) /\ RLt(a1, ROne) /\ RLt(RZero, a2))     \* positive means; the upward one below one for E[e^J] to exist
        /\ k = 0 /\ mean = RZero /\ var = RZero
\* tower law over N ~ Poisson(L):  E[X] = E[CondMean(N)],  Var[X] = E[CondVar(N)] + Var[CondMean(N)],  E[N] = Var[N] = L
Step == /\ k < K
        /\ k' = k + 1
        /\ mean' = LAdd(mean, LMul(L, JMean))
        /\ var' = LAdd(var, LAdd(LAdd(sd2, LMul(L, JVar)), LMul(L, LSq(JMean))))
        /\ UNCHANGED <<model, sd2, L, a1, a2, pr>>
Next == Step
Spec == Init /\ [][Next]_vars /\ WF_vars(Next)

\* ---------------------------------------------------------------- properties
\* the documented contributions: per unit of time the log-variance is sigma^2 + lambda E[J^2], the mean excess lambda E[J]
LogVarianceDocumented == var = LMul(R(k), LAdd(sd2, LMul(L, JSecond)))
MeanExcessDocumented  == mean = LMul(R(k), LMul(L, JMean))
JumpFreeIsDiffusion   == L = RZero => (var = LMul(R(k), sd2) /\ mean = RZero)
JumpsOnlyAddVariance  == RLe(LMul(R(k), sd2), var)
JumpVarianceNonNegative == RLe(RZero, JVar)
\* Kou: mixing over the number of upward jumps gives the law given n (first and second moment)
BinomialMixing ==
  model = "kou" =>
    \A n \in 0..NMax :
      LET M1(j) == CondMeanU(n, j)
          M2(j) == LAdd(LSub(CondVarU(n, j), sd2), LSq(CondMeanU(n, j)))        \* second moment of the jump part
      IN  /\ MixTo(M1, n, n) = CondMean(n)
          /\ LSub(MixTo(M2, n, n), LSq(CondMean(n))) = LSub(CondVar(n), sd2)
Terminates == <>(k = K)

Emit == (k = 0) => PrintT(ToJson([rec |-> "jump_step", model |-> model, sd2 |-> sd2, L |-> L, a1 |-> a1, a2 |-> a2, p |-> pr,
                                    jmean |-> JMean, jsecond |-> JSecond,
                                    cond |-> [n \in 0..NMax |-> [mean |-> CondMean(n), var |-> CondVar(n)]],
                                    condu |-> IF model = "kou" THEN [n \in 0..NMax |-> [j \in 0..n |-> [mean |-> CondMeanU(n, j), var |-> CondVarU(n, j), w |-> Binom(n, j)]]]
                                              ELSE <<>>]))
=============================================================================
