SPECIFICATION Spec
INVARIANT NoNaN
INVARIANT PriceIsIntrinsic
INVARIANT DeltaLimit
INVARIANT OldLookbackHasNaN
INVARIANT Emit
CHECK_DEADLOCK FALSE
