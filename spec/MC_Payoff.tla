----------------------------- MODULE MC_Payoff -----------------------------
EXTENDS Payoff
AllKinds == {"european", "lookback", "european_binary", "american_binary", "forward_start", "variance_swap"}
KStrikes == { <<1, 1>>, <<2, 1>>, <<3, 1>>, <<3, 2>>, <<1, 2>>, <<5, 1>>, <<11, 10>> }    \* 11/10 is not representable in float32
NoOps    == { <<>> }
OpsMenu  == { <<>>,
              << <<"a", "add1">> >>, << <<"a", "scale2">> >>, << <<"a", "cap1">> >>, << <<"a", "knock4">> >>,
              << <<"a", "add1">>, <<"b", "scale2">> >>, << <<"a", "scale2">>, <<"b", "add1">> >>,
              << <<"a", "add1">>, <<"b", "cap1">> >>,   << <<"a", "cap1">>, <<"b", "add1">> >>,
              << <<"a", "knock4">>, <<"b", "add1">> >>, << <<"a", "add1">>, <<"b", "knock4">> >>,
              << <<"a", "add1">>, <<"b", "scale2">>, <<"a", "cap1">> >>,
              << <<"a", "add1">>, <<"b", "scale2">>, <<"c", "cap1">> >>,
              << <<"c", "cap1">>, <<"b", "scale2">>, <<"a", "add1">> >>,
              << <<"b", "scale2">>, <<"a", "add1">>, <<"b", "add1">> >>,
              \* the same clause (the harness registers the SAME callable object) under two names
              << <<"a", "add1">>, <<"b", "add1">> >>,
              << <<"a", "scale2">>, <<"b", "add1">>, <<"c", "scale2">> >>,
              << <<"a", "cap1">>, <<"b", "scale2">>, <<"c", "cap1">> >> }
=============================================================================
