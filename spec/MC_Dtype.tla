------------------------------ MODULE MC_Dtype ------------------------------
EXTENDS Dtype
P2       == {"p1", "p2"}
Bufs2    == [p \in P2 |-> IF p = "p1" THEN {"spot"} ELSE {"spot", "variance"}]
F4       == {"f16", "bf16", "f32", "f64"}
F3       == {"f16", "f32", "f64"}
F2       == {"f32", "f64"}
D2       == {"f32", "f64"}
AllDecl  == [P2 -> {"none", "f32", "f64"}]
FewDecl  == {[p \in P2 |-> "none"], [p \in P2 |-> IF p = "p1" THEN "f64" ELSE "none"]}
HowsAll  == {"to(dtype)", "method", "to(tensor)"}
HowsOne  == {"to(dtype)"}
ViasAll  == {"primary", "derivative"}
ViasOne  == {"primary"}
Unbounded == 1000000
DefF32   == {"f32"}
=============================================================================
