SPECIFICATION Spec
CONSTANTS
  Only <- OnlyC07
  NSpot = 7
  NTime = 3
  NVol = 3
  NStrike = 3
  NMax = 3
INVARIANT Emit
CHECK_DEADLOCK FALSE
