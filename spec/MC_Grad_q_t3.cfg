SPECIFICATION Spec
CONSTANTS
  T = 3
  H = 1
  K = 2
  DtNum = 1
  DtDen = 4
  Paths1 <- AllPaths3
  Paths2 <- FewPaths3
  GConfigs <- GConfigsA
  Crits <- CritsA
INVARIANT ZeroFeatureZeroGrad
INVARIANT BiasIsBuyAndHold
INVARIANT Emit
CHECK_DEADLOCK FALSE
