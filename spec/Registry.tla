------------------------------ MODULE Registry ------------------------------
(* The derivative object as a registry: its ordered clauses, its ordered    *)
(* underliers and its listing, driven through the public operations          *)
(*   add_clause(name, fn)            register_underlier(name, prim)          *)
(*   setattr(name, prim)             list(pricer, cost)     delist()         *)
(* and observed through the public read-only ones                            *)
(*   named_clauses()  named_underliers()  ul(i)  is_listed  cost  spot       *)
(*   payoff()  dtype                                                         *)
(*                                                                           *)
(* C12 ("registered clauses transform the payoff in registration order, any  *)
(* sequence of user clauses") and the object-lifetime half of C16 rest on    *)
(* this machine: a rejected registration changes nothing, a name registered  *)
(* again keeps its place, the first underlier stays ul(0), prices exist only *)
(* while the derivative is listed.                                           *)
(*                                                                           *)
(* Names are drawn from classes that the implementation distinguishes:       *)
(*   plain names, the empty string, a dotted name, a non-string, and names   *)
(*   that are already attributes of the object ("strike", a method name).    *)
(* Payoffs are affine maps x |-> a x + b over the integers so that the order *)
(* of application is observable (they do not commute).                       *)
EXTENDS Integers, Sequences, FiniteSets, TLC, Json

CONSTANTS PlainNames,    \* e.g. {"c1", "c2", "u2"}
          AttrNames,     \* names that exist as attributes of the object, e.g. {"strike", "payoff"}
          Fns,           \* clause functions: records [id, a, b]
          Prims,         \* primaries that can be registered: {"p1", "p2"}
          MaxDepth

Empty     == ""
Dotted    == "a.b"
NonString == "<int>"        \* stands for a name that is not a string (the harness passes 7)
AllNames  == PlainNames \cup AttrNames \cup {Empty, Dotted, NonString}

VARIABLES clauses,    \* sequence of <<name, fn id>>
          unders,     \* sequence of <<name, prim>>; the constructor registered <<"underlier", "p1">>
          setattrs,   \* names that became plain instance attributes through setattr(name, prim)
          listed, pricer, cost,
          hist
vars  == <<clauses, unders, setattrs, listed, pricer, cost, hist>>
state == <<clauses, unders, setattrs, listed, pricer, cost>>

NamesOf(seq) == {seq[k][1] : k \in 1..Len(seq)}
IndexOf(seq, n) == CHOOSE k \in 1..Len(seq) : seq[k][1] = n
\* OrderedDict assignment: a known key keeps its place, a new key is appended
Put(seq, n, v) == IF n \in NamesOf(seq) THEN [seq EXCEPT ![IndexOf(seq, n)] = <<n, v>>] ELSE Append(seq, <<n, v>>)

\* hasattr(self, name): class attributes and methods, instance attributes, and - through __getattr__ - the names of the
\* registered underliers.  Clause names are NOT attributes.
HasAttr(n) == n \in AttrNames \/ n \in setattrs \/ n \in NamesOf(unders)

\* the validation shared by add_clause and register_underlier, in the order the code applies it
Verdict(n, registry) ==
  IF n = NonString THEN "TypeError"
  ELSE IF HasAttr(n) /\ n \notin NamesOf(registry) THEN "KeyError"
  ELSE IF n = Dotted THEN "KeyError"
  ELSE IF n = Empty THEN "KeyError"
  ELSE "ok"

Init == /\ clauses = <<>> /\ unders = << <<"underlier", "p1">> >> /\ setattrs = {}
        /\ listed = FALSE /\ pricer = 0 /\ cost = 0 /\ hist = <<>>

Post == [clauses |-> clauses', unders |-> unders', listed |-> listed', pricer |-> pricer', cost |-> cost']
Log(ev) == hist' = Append(hist, ev @@ [post |-> Post])
Room == Len(hist) < MaxDepth

AddClause(n, f) ==
  /\ Room
  /\ UNCHANGED <<unders, setattrs, listed, pricer, cost>>
  /\ LET v == Verdict(n, clauses) IN
     /\ clauses' = IF v = "ok" THEN Put(clauses, n, f.id) ELSE clauses
     /\ Log([op |-> "AddClause", name |-> n, arg |-> f.id, res |-> v])

RegisterUnderlier(n, p) ==
  /\ Room
  /\ UNCHANGED <<clauses, setattrs, listed, pricer, cost>>
  /\ LET v == Verdict(n, unders) IN
     /\ unders' = IF v = "ok" THEN Put(unders, n, p) ELSE unders
     /\ Log([op |-> "RegisterUnderlier", name |-> n, arg |-> p, res |-> v])

\* derivative.<name> = primary: registers the underlier and THEN stores the plain attribute as well
\* (only string names can be spelled as an attribute assignment)
SetAttr(n, p) ==
  /\ Room /\ n # NonString
  /\ UNCHANGED <<clauses, listed, pricer, cost>>
  /\ LET v == Verdict(n, unders) IN
     /\ unders' = IF v = "ok" THEN Put(unders, n, p) ELSE unders
     /\ setattrs' = IF v = "ok" THEN setattrs \cup {n} ELSE setattrs
     /\ Log([op |-> "SetAttr", name |-> n, arg |-> p, res |-> v])

List(k, c) ==
  /\ Room
  /\ listed' = TRUE /\ pricer' = k /\ cost' = c
  /\ UNCHANGED <<clauses, unders, setattrs>>
  /\ Log([op |-> "List", name |-> "-", arg |-> ToString(k), res |-> "ok"])

Delist ==
  /\ Room
  /\ listed' = FALSE /\ pricer' = 0 /\ cost' = 0
  /\ UNCHANGED <<clauses, unders, setattrs>>
  /\ Log([op |-> "Delist", name |-> "-", arg |-> "-", res |-> "ok"])

Next == \/ \E n \in AllNames, f \in Fns : AddClause(n, f)
        \/ \E n \in AllNames, p \in Prims : RegisterUnderlier(n, p)
        \/ \E n \in AllNames, p \in Prims : SetAttr(n, p)
        \/ \E k \in {1, 2}, c \in {0, 1} : List(k, c)
        \/ Delist
Spec == Init /\ [][Next]_vars

\* ------------------------------------------------------------------ what the read-only operations return
FnOf(id) == CHOOSE f \in Fns : f.id = id
RECURSIVE Fold(_, _, _)
Fold(cs, j, x) == IF j > Len(cs) THEN x ELSE Fold(cs, j + 1, FnOf(cs[j][2]).a * x + FnOf(cs[j][2]).b)
Payoff(x)  == Fold(clauses, 1, x)                       \* payoff() for a payoff_fn() value x
Ul(i)      == IF i >= 0 /\ i < Len(unders) THEN unders[i + 1][2]
              ELSE IF i < 0 /\ -i <= Len(unders) THEN unders[Len(unders) + i + 1][2] ELSE "IndexError"
\* derivative.<name> for the name of an underlier: the instrument registered under that name NOW - whether it got there by
\* register_underlier or by attribute assignment, and whatever was assigned to the attribute earlier
Attr(n)    == IF n \in NamesOf(unders) THEN unders[IndexOf(unders, n)][2] ELSE "AttributeError"
Spot       == IF listed THEN pricer ELSE -1               \* -1: ValueError("self is not listed.")
DtypeOK    == Len(unders) = 1                             \* dtype / device are defined for exactly one underlier

\* ------------------------------------------------------------------ properties
TypeOK == /\ \A k \in 1..Len(clauses) : clauses[k][1] \in PlainNames
          /\ \A k \in 1..Len(unders) : unders[k][1] \in PlainNames \cup {"underlier"} /\ unders[k][2] \in Prims
NamesUnique == /\ \A a, b \in 1..Len(clauses) : clauses[a][1] = clauses[b][1] => a = b
               /\ \A a, b \in 1..Len(unders) : unders[a][1] = unders[b][1] => a = b
\* the constructor's underlier is never lost and stays the first one whatever is registered afterwards
FirstUnderlierStays == Len(unders) >= 1 /\ unders[1][1] = "underlier"
\* a rejected operation changes nothing
Last == hist'[Len(hist')]
RejectedIsNoop == [][(hist' # hist /\ Last.res # "ok") => UNCHANGED state]_vars
\* registries only grow, and a name keeps its place
Positions(seq, seq2) == \A k \in 1..Len(seq) : k <= Len(seq2) /\ seq2[k][1] = seq[k][1]
KeepsPlace == [][Positions(clauses, clauses') /\ Positions(unders, unders')]_vars
\* an operation on one registry leaves the other alone, and only List/Delist touch the listing
Separate == [][(hist' # hist) =>
                 /\ (Last.op = "AddClause" => unders' = unders)
                 /\ (Last.op \in {"RegisterUnderlier", "SetAttr"} => clauses' = clauses)
                 /\ (Last.op \notin {"List", "Delist"} => <<listed, pricer, cost>>' = <<listed, pricer, cost>>)]_vars
\* prices exist exactly while listed; delisting resets the cost
ListingConsistent == (~listed => pricer = 0 /\ cost = 0) /\ (listed => pricer > 0)
\* a clause name never becomes an attribute: the same name can later be used for an underlier, and then the clause name is
\* taken (for NEW clauses) - but a clause registered BEFORE stays replaceable
\* attribute assignment of a primary IS registration: same verdict, same registry afterwards; and the attribute always reads the
\* registry (the first underlier is derivative.underlier = ul(0))
SetAttrIsRegister == [][(hist' # hist /\ Last.op = "SetAttr") =>
                          LET v == Verdict(Last.name, unders) IN
                            /\ Last.res = v
                            /\ unders' = IF v = "ok" THEN Put(unders, Last.name, Last.arg) ELSE unders]_vars
AttributeReadsRegistry == /\ Attr("underlier") = Ul(0)
                          /\ \A k \in 1..Len(unders) : Attr(unders[k][1]) = unders[k][2]
ClauseNamesStayUsable == \A k \in 1..Len(clauses) : Verdict(clauses[k][1], clauses) = "ok"

\* emission: complete histories with what every read-only operation returns in the final state
Emit == (Len(hist) = MaxDepth) =>
          PrintT(ToJson([hist |-> hist,
                         reads |-> [payoff3 |-> Payoff(3), payoff5 |-> Payoff(5), ul0 |-> Ul(0), ul1 |-> Ul(1), ulm1 |-> Ul(-1), ul5 |-> Ul(5),
                                    attrs |-> [k \in 1..Len(unders) |-> <<unders[k][1], Attr(unders[k][1])>>],
                                    spot |-> Spot, dtype_ok |-> DtypeOK, listed |-> listed, cost |-> cost]]))
=============================================================================
