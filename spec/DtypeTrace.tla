----------------------------- MODULE DtypeTrace -----------------------------
(* Trace validation for the dtype machine (C17): traces recorded from real   *)
(* pfhedge instruments are accepted iff every logged call is explained by    *)
(* an action of Dtype.tla AND the logged post-state (declared dtype, dtype   *)
(* of every buffer, global default) is the one the action prescribes.        *)
(* Many traces are validated in one TLC run: tid selects the trace, register *)
(* tid of TLCGet/TLCSet records the furthest line explained.                 *)
EXTENDS Dtype, IOUtils, TLCExt

Traces == JsonDeserialize(IOEnv.TRACE_FILE)          \* sequence of [init, events]

VARIABLES tid, l
tvars == <<vars, tid, l>>

Tr == Traces[tid].events
Ev == Tr[l]

TInit == /\ tid \in 1..Len(Traces)
         /\ default = Traces[tid].init.default
         /\ declared = [p \in Prims |-> Traces[tid].init.declared[p]]
         /\ bufs = [p \in Prims |-> [b \in BufNames[p] |-> Absent]]
         /\ hist = <<>>
         /\ init0 = [default |-> default, declared |-> declared]
         /\ l = 1
         /\ TLCSet(tid, 1)

PostMatches == /\ default' = Ev.post.default
               /\ \A p \in Prims : declared'[p] = Ev.post.declared[p]
               /\ \A p \in Prims : \A b \in BufNames[p] : bufs'[p][b] = Ev.post.bufs[p][b]

Step(A) == l <= Len(Tr) /\ A /\ PostMatches /\ l' = l + 1 /\ tid' = tid

TNext ==
  \/ Step(Ev.op = "To" /\ Ev.ok /\ To(Ev.p, Ev.d, Ev.how, Ev.via))
  \/ Step(Ev.op = "ToNoArg" /\ Ev.ok /\ ToNoArg(Ev.p, Ev.via))
  \/ Step(Ev.op = "ToInstrument" /\ Ev.ok /\ ToInstrument(Ev.p, Ev.d))
  \/ Step(Ev.op = "ToNonFloat" /\ ~Ev.ok /\ ToNonFloat(Ev.p, Ev.how, Ev.via))
  \/ Step(Ev.op = "Simulate" /\ Ev.ok /\ Simulate(Ev.p, Ev.via))
  \/ Step(Ev.op = "RegisterBuffer" /\ Ev.ok /\ RegisterBuffer(Ev.p, Ev.how, Ev.d))
  \/ Step(Ev.op = "SetDefault" /\ Ev.ok /\ SetDefault(Ev.d))
TSpec == TInit /\ [][TNext]_tvars

Progress == TLCSet(tid, IF TLCGet(tid) < l THEN l ELSE TLCGet(tid))
Accepted == \A i \in 1..Len(Traces) : PrintT(<<"TRACE", i, TLCGet(i), Len(Traces[i].events) + 1>>)
=============================================================================
