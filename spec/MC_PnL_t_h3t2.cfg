SPECIFICATION Spec
CONSTANTS
  T = 2
  H = 3
  Spots <- SpotsB
  Units <- UnitsA
  CostVecs <- Cost3
  Payoffs <- PayB
  EmitMod = 13
  EmitRes = 0
INVARIANT TypeOK
INVARIANT WealthIsFormula
INVARIANT SelfFinancing
INVARIANT BuyAndHold
INVARIANT Emit
PROPERTY Terminates
CHECK_DEADLOCK FALSE
