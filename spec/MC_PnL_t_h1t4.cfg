SPECIFICATION Spec
CONSTANTS
  T = 4
  H = 1
  Spots <- SpotsA
  Units <- UnitsA
  CostVecs <- Cost1
  Payoffs <- PayB
  EmitMod = 11
  EmitRes = 0
INVARIANT TypeOK
INVARIANT WealthIsFormula
INVARIANT SelfFinancing
INVARIANT BuyAndHold
INVARIANT Emit
PROPERTY Terminates
CHECK_DEADLOCK FALSE
