SPECIFICATION Spec
CONSTANTS
  T = 4
  H = 2
  K = 2
  DtNum = 1
  DtDen = 4
  Spots = {1,4}
  Vars = {1,4}
  Spots2 = {1,3}
  Configs <- Combos2
  EmitMod = 1
  EmitRes = 0
INVARIANT HedgeIsRef
INVARIANT BranchesAgree
INVARIANT NoTradeAtMaturity
INVARIANT AtEqualsAll
INVARIANT PrevIsLastOutput
INVARIANT ReadsArePast
INVARIANT Emit
PROPERTY Terminates
CHECK_DEADLOCK FALSE
