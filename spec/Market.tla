------------------------------- MODULE Market -------------------------------
(* C11 - simulated buffers are well-formed.                                  *)
(*                                                                          *)
(* Part 1 (history machine): a primary instrument of some kind owns a fixed  *)
(* set of buffers; simulate(n_paths, horizon) REPLACES every one of them by  *)
(* a fresh buffer of shape (n_paths, steps) - nothing of an earlier, larger  *)
(* or smaller simulation survives.  ver is the simulation a buffer stems     *)
(* from.                                                                    *)
(* Part 2 (contract table): for every generator the abstract description of  *)
(* what it must return: number of series, sign class of each, which series   *)
(* carries the initial state, which pairs satisfy volatility^2 = variance.   *)
EXTENDS Integers, Sequences, FiniteSets, TLC, Json

CONSTANTS Kinds, NPaths, HalfSteps, MaxDepth

\* The horizon is given in HALF steps (time_horizon = h2 * dt / 2), so that horizons between two grid points occur: the series then
\* has Ceil(time_horizon / dt) + 1 time points (Grid.tla), the same number for every buffer.
StepsOf(h2) == (h2 + 1) \div 2 + 1

Buffers(kd) == CASE kd \in {"brownian", "cir", "vasicek", "merton", "kou"} -> {"spot"}
                 [] kd \in {"heston", "rough_bergomi"} -> {"spot", "variance"}
                 [] kd = "local_volatility" -> {"spot", "volatility"}
\* sign class each series must have: exponential-type prices are positive, variances non-negative, rates are real
Sign(kd, b) == CASE b = "variance" -> "nonneg"
                 [] b = "volatility" -> "nonneg"
                 [] kd \in {"brownian", "heston", "merton", "kou", "rough_bergomi"} -> "positive"
                 [] kd = "cir" -> "nonneg"
                 [] kd = "local_volatility" -> "real"
                 [] kd = "vasicek" -> "real"
\* number of entries of init_state and the documented defaults (as strings the harness resolves)
InitArity(kd) == IF kd \in {"heston", "rough_bergomi"} THEN 2 ELSE 1

VARIABLES kind, bufs, sim, hist
vars == <<kind, bufs, sim, hist>>

Init == /\ kind \in Kinds
        /\ bufs = [b \in Buffers(kind) |-> [n |-> 0, t |-> 0, ver |-> 0]]
        /\ sim = 0 /\ hist = <<>>

Simulate(n, h2, custom) ==
  /\ Len(hist) < MaxDepth
  /\ sim' = sim + 1
  /\ bufs' = [b \in Buffers(kind) |-> [n |-> n, t |-> StepsOf(h2), ver |-> sim + 1]]
  /\ hist' = Append(hist, [n |-> n, h2 |-> h2, t |-> StepsOf(h2), custom |-> custom, post |-> bufs'])
  /\ UNCHANGED kind
Next == \E n \in NPaths, h2 \in HalfSteps, c \in BOOLEAN : Simulate(n, h2, c)
Spec == Init /\ [][Next]_vars

UniformShape == \A a, b \in Buffers(kind) : bufs[a].n = bufs[b].n /\ bufs[a].t = bufs[b].t /\ bufs[a].ver = bufs[b].ver
SimulateReplacesAll == [][sim' # sim => \A b \in Buffers(kind) : bufs'[b].ver = sim' /\ bufs'[b].ver # bufs[b].ver]_vars
NothingSurvives == \A b \in Buffers(kind) : bufs[b].ver = sim
\* a horizon on a grid point k*dt gives k+1 points, one between k*dt and (k+1)*dt gives k+2
StepsCoverHorizon == \A h2 \in HalfSteps : 2 * (StepsOf(h2) - 1) >= h2 /\ 2 * (StepsOf(h2) - 2) < h2

Emit == (Len(hist) = MaxDepth) =>
          PrintT(ToJson([kind |-> kind, buffers |-> [b \in Buffers(kind) |-> Sign(kind, b)], arity |-> InitArity(kind), hist |-> hist]))
=============================================================================
