---------------------------- MODULE MC_PriceFlow ----------------------------
EXTENDS PriceFlow
Cfg(feats, kind, W, B, cost, call) ==
  [feats |-> feats, kind |-> kind, W |-> W, B |-> B, cost |-> cost, call |-> call]
PConfigs == {
  Cfg(<<"moneyness", "time_to_maturity">>, "linear", << <<1, 2>> >>, <<0>>, <<1>>, TRUE),
  Cfg(<<"moneyness", "prev_hedge">>, "relu", << <<2, -1>> >>, <<-1>>, <<0>>, FALSE)
}
ShiftsA == {-1, 0, 2}
CritsA  == {<<0, 1>>, <<1, 2>>, <<1, 1>>, <<1, 3>>}
ShiftsB == {0, 2}
CritsB  == {<<0, 1>>, <<1, 2>>, <<1, 1>>}
=============================================================================
