----------------------------- MODULE PriceFlow -----------------------------
(* C06 (second half): Hedger.price and Hedger.compute_loss as a dataflow    *)
(* over freshly simulated draws.                                            *)
(*                                                                          *)
(*   for each of n_times draws:  Simulate (N scripted paths)                *)
(*                               Portfolio (Hedge.tla: positions, account)  *)
(*                               Cash      (certainty equivalent of         *)
(*                                          portfolio - payoff)             *)
(*   Price = mean over the draws of  -Cash;  Loss = mean of criterion       *)
(*                                                                          *)
(* Criteria with an exact certainty equivalent over rationals: expected     *)
(* shortfall (CE = -ES) and the user criterion "minus the mean" (CE = mean, *)
(* found by the default search in the implementation).                      *)
EXTENDS Features, SequencesExt, TLC, Json

CONSTANTS Spots, NPaths, NTimes, Configs, Shifts, Crits

VARIABLES draws,     \* sequence (length NTimes) of draws; a draw is a sequence of NPaths paths
          cfg, shift, crit,
          d,         \* index of the current draw
          pc, buffers, pf, acc
vars == <<draws, cfg, shift, crit, d, pc, buffers, pf, acc>>

HG == INSTANCE Hedge WITH Vars <- {1}, Spots2 <- {1}, EmitMod <- 1, EmitRes <- 0,
                          m <- <<>>, pc <- "x", i <- 0, prev <- <<>>, rows <- <<>>, outs <- <<>>, hedge <- <<>>, branch <- "x"

Path(sp) == [spot |-> sp, var |-> [j \in 1..T |-> 1], spot2 |-> [j \in 1..T |-> 1]]
PortfolioOf(p) == HG!Wealth(p, HG!HedgeRef(cfg, p), cfg.cost)
PayoffOf(p)    == RAdd(HG!Payoff(cfg, p), R(shift))          \* the clause "payoff + shift"

RSorted(s) == SortSeq(s, LAMBDA a, b : RLt(a, b))
ESr(s, p)  == LET k == RCeil(RMul(p, R(Len(s)))) IN RNeg(RDiv(RSum(SubSeq(RSorted(s), 1, k)), R(k)))
Criterion(s) == IF crit = <<0, 1>> THEN RNeg(RMean(s)) ELSE ESr(s, crit)       \* crit: <<0, 1>> = user criterion "minus the mean", else a quantile level
CashOf(s)    == RNeg(Criterion(s))                                           \* certainty equivalent

Init == /\ draws \in [1..NTimes -> [1..NPaths -> [1..T -> Spots]]]
        /\ cfg \in Configs /\ shift \in Shifts /\ crit \in Crits
        /\ d = 1 /\ pc = "simulate" /\ buffers = <<>> /\ pf = <<>> /\ acc = [price |-> <<>>, loss |-> <<>>]

Simulate == /\ pc = "simulate" /\ d <= NTimes
            /\ buffers' = [n \in 1..NPaths |-> Path(draws[d][n])]     \* replaces the previous buffers entirely
            /\ pc' = "portfolio"
            /\ UNCHANGED <<draws, cfg, shift, crit, d, pf, acc>>
Portfolio == /\ pc = "portfolio"
             /\ pf' = [n \in 1..NPaths |-> PortfolioOf(buffers[n])]
             /\ pc' = "cash"
             /\ UNCHANGED <<draws, cfg, shift, crit, d, buffers, acc>>
Cash == /\ pc = "cash"
        /\ LET pl == [n \in 1..NPaths |-> RSub(pf[n], PayoffOf(buffers[n]))]
           IN  acc' = [price |-> Append(acc.price, RNeg(CashOf(pl))), loss |-> Append(acc.loss, Criterion(pl))]
        /\ d' = d + 1
        /\ pc' = IF d = NTimes THEN "done" ELSE "simulate"
        /\ UNCHANGED <<draws, cfg, shift, crit, buffers, pf>>
Next == Simulate \/ Portfolio \/ Cash
Spec == Init /\ [][Next]_vars /\ WF_vars(Next)

Done  == pc = "done"
Price == RMean(acc.price)
Loss  == RMean(acc.loss)

\* reference: the price with an unshifted payoff, computed directly
Price0 == RMean([k \in 1..NTimes |->
            LET pl == [n \in 1..NPaths |-> RSub(PortfolioOf(Path(draws[k][n])), HG!Payoff(cfg, Path(draws[k][n])))]
            IN  RNeg(CashOf(pl))])
PriceShift       == Done => Price = RAdd(Price0, R(shift))
\* for cash-invariant criteria whose cash is minus the criterion, price equals loss
PriceIsLoss      == Done => Price = Loss
OneDrawPerTime   == Done => Len(acc.price) = NTimes
\* every draw is priced on its own buffers
FreshBuffers     == pc \in {"portfolio", "cash"} => buffers = [n \in 1..NPaths |-> Path(draws[d][n])]
Terminates       == <>Done

Emit == Done => PrintT(ToJson([kind |-> "price", draws |-> draws, cfg |-> cfg, shift |-> shift, crit |-> crit,
                               price |-> Price, loss |-> Loss, prices |-> acc.price]))
=============================================================================
