------------------------------- MODULE Heston -------------------------------
(* C10 (Heston) - the log-price step that accompanies a variance move.       *)
(*                                                                           *)
(* Reference (derivation-shaped).  Integrating the Heston SDE over one step  *)
(* with W = rho W_v + sqrt(1 - rho^2) W_perp and                             *)
(*   int sqrt(V) dW_v = (V' - V - kappa theta dt + kappa int V du)/sigma     *)
(* gives, with the integral of V replaced by dt (g1 V + g2 V'), g1 + g2 = 1, *)
(*   ln S' - ln S = (rho/sigma)(V' - V - kappa theta dt)                     *)
(*                  + (kappa rho/sigma - 1/2) dt (g1 V + g2 V')              *)
(*                  + sqrt((1 - rho^2) dt (g1 V + g2 V')) Z .                *)
(* Implementation-shaped: the five coefficients k0..k4 of generate_heston.   *)
(* TLC checks that the two agree for every (V, V') of the lattice, that the  *)
(* return responds to a variance move with the sign of rho, that rho = 0     *)
(* decouples them, and that the conditional variance of the return is the    *)
(* (1 - rho^2) share of the integrated variance.  The coefficients are       *)
(* emitted and the real generator is replayed on supplied normals.           *)
EXTENDS Rat, TLC, Json

CONSTANTS Rhos, Kappas, Thetas, Sigmas, Dts, Vs     \* rationals <<n, d>>

VARIABLES rho, ka, th, sg, dt
vars == <<rho, ka, th, sg, dt>>

G1 == Q(1, 2)
G2 == Q(1, 2)

\* ---------------------------------------------------------------- implementation-shaped (pfhedge/stochastic/heston.py)
K0 == LDiv(LMul(RNeg(rho), LMul(ka, LMul(th, dt))), sg)
Drift == LSub(LDiv(LMul(ka, rho), sg), Q(1, 2))
K1 == LSub(LMul(G1, LMul(dt, Drift)), LDiv(rho, sg))
K2 == LAdd(LMul(G2, LMul(dt, Drift)), LDiv(rho, sg))
K3 == LMul(G1, LMul(dt, LSub(ROne, LSq(rho))))
K4 == LMul(G2, LMul(dt, LSub(ROne, LSq(rho))))
ImplMean(v, w) == LAdd(K0, LAdd(LMul(K1, v), LMul(K2, w)))          \* ln S' - ln S at Z = 0
ImplVar(v, w)  == LAdd(LMul(K3, v), LMul(K4, w))                    \* coefficient of Z, squared

\* ---------------------------------------------------------------- reference (derivation-shaped)
IntV(v, w) == LMul(dt, LAdd(LMul(G1, v), LMul(G2, w)))
RefMean(v, w) == LAdd(LMul(LDiv(rho, sg), LSub(LSub(w, v), LMul(ka, LMul(th, dt)))), LMul(Drift, IntV(v, w)))
RefVar(v, w)  == LMul(LSub(ROne, LSq(rho)), IntV(v, w))

Init == rho \in Rhos /\ ka \in Kappas /\ th \in Thetas /\ sg \in Sigmas /\ dt \in Dts
Next == UNCHANGED vars
Spec == Init /\ [][Next]_vars

WeightsSumToOne == LAdd(G1, G2) = ROne
ImplementationIsDerivation == \A v \in Vs, w \in Vs : ImplMean(v, w) = RefMean(v, w) /\ ImplVar(v, w) = RefVar(v, w)
\* a larger variance move raises the return when rho > 0 and lowers it when rho < 0 (the step is small: kappa dt <= 2)
ReturnFollowsVarianceWithSignOfRho == \A v \in Vs, w1 \in Vs, w2 \in Vs :
     RLt(w1, w2) /\ RLe(LMul(ka, dt), R(2)) /\ RLe(LMul(dt, sg), RAbs(LMul(R(4), rho))) =>
         RSgn(LSub(ImplMean(v, w2), ImplMean(v, w1))) = RSgn(rho)
ZeroRhoDecouples == rho = RZero => K0 = RZero /\ K1 = RNeg(LMul(Q(1, 4), dt)) /\ K2 = K1
ConditionalVarianceIsOrthogonalShare == \A v \in Vs, w \in Vs : RLe(RZero, ImplVar(v, w)) /\ RLe(ImplVar(v, w), IntV(v, w))

Emit == PrintT(ToJson([rec |-> "heston_step", rho |-> rho, kappa |-> ka, theta |-> th, sigma |-> sg, dt |-> dt,
                       k |-> <<K0, K1, K2, K3, K4>>]))
=============================================================================
