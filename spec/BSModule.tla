------------------------------ MODULE BSModule ------------------------------
(* C07 (partial: the modules) - how a Black-Scholes pricing module obtains   *)
(* the arguments of a formula and which of its own attributes it hands to    *)
(* the functional form.                                                      *)
(*                                                                           *)
(* One run of the machine is one call  module.<method>(given inputs) :        *)
(*   Build     the module is made by its constructor (no derivative), by     *)
(*             from_derivative(d) or by BlackScholes(d) (factory dispatch on *)
(*             the class of d); call flag and strike come from d             *)
(*   Acquire   one step per input in the order of the code                   *)
(*             (acquire_params_from_derivative_0/1/2): log_moneyness,        *)
(*             time_to_maturity, volatility, max_log_moneyness; an input the *)
(*             caller gave is used as given, a missing one is read from the  *)
(*             derivative's simulated state, and it is an error if there is  *)
(*             no derivative                                                 *)
(*   Call      the functional form  bs_<product>_<method>  receives the      *)
(*             acquired inputs and the attributes listed in Passes           *)
(* Reference layer: the value is the formula of THIS product at the caller's *)
(* inputs (where given) and the derivative's state (elsewhere), for the      *)
(* derivative's own strike and call/put flag - stated without the step order.*)
EXTENDS Naturals, FiniteSets, Sequences, TLC, Json

CONSTANTS Strikes        \* strike identifiers (the harness maps them to dyadic numbers)

Products == {"european", "european_binary", "american_binary", "lookback"}
Methods  == {"price", "delta", "gamma", "vega", "theta", "forward"}
Builds   == {"ctor", "from_derivative", "BlackScholes"}

PathDependent(p) == p \in {"american_binary", "lookback"}
Inputs(p) == IF PathDependent(p) THEN <<"log_moneyness", "max_log_moneyness", "time_to_maturity", "volatility">>
             ELSE <<"log_moneyness", "time_to_maturity", "volatility">>
InputSet(p) == {Inputs(p)[i] : i \in 1..Len(Inputs(p))}
PutOffered(p) == p \in {"european", "european_binary"}
\* the order in which the code looks for the inputs
AcquireOrder(p) == IF PathDependent(p) THEN <<"log_moneyness", "time_to_maturity", "volatility", "max_log_moneyness">>
                   ELSE <<"log_moneyness", "time_to_maturity", "volatility">>

\* ---------------------------------------------------------------- reference layer
\* module attributes the mathematical value depends on (inputs are in log-moneyness, so a formula that is
\* homogeneous of degree zero in (spot, strike) does not depend on the strike)
Needs(p, m) ==
  LET mm == IF m = "forward" THEN "delta" ELSE m IN
  CASE p = "european"        -> (CASE mm = "price" -> {"call", "strike"} [] mm = "delta" -> {"call"} [] OTHER -> {"strike"})
    [] p = "european_binary" -> (CASE mm = "price" -> {"call"} [] mm \in {"delta", "gamma"} -> {"call", "strike"} [] OTHER -> {"call"})
    [] p = "american_binary" -> (CASE mm \in {"delta", "gamma"} -> {"strike"} [] OTHER -> {})
    [] p = "lookback"        -> (CASE mm = "delta" -> {} [] OTHER -> {"strike"})

RefSource(given, n) == IF n \in given THEN "explicit" ELSE "derivative"
RefOutcome(p, built, given) == IF built = "ctor" /\ given # InputSet(p) THEN "ValueError" ELSE "value"

\* ---------------------------------------------------------------- implementation-shaped layer
\* what each method hands to the functional form besides the inputs (transcribed from pfhedge/nn/modules/bs/*.py)
Passes(p, m) ==
  LET mm == IF m = "forward" THEN "delta" ELSE m IN
  CASE p = "european"        -> (CASE mm = "price" -> {"call", "strike"} [] mm = "delta" -> {"call"} [] OTHER -> {"strike"})
    [] p = "european_binary" -> (CASE mm = "price" -> {"call"} [] OTHER -> {"call", "strike"})
    [] p = "american_binary" -> (CASE mm = "price" -> {} [] OTHER -> {"strike"})
    [] p = "lookback"        -> {"strike"}

\* how the value is obtained: the closed form of pfhedge.nn.functional, or automatic differentiation of the module's own
\* price (BSModuleMixin defaults: American binary gamma/vega/theta; the lookback Greeks differentiate inside the functional)
Via(p, m) == IF p = "american_binary" /\ m \in {"gamma", "vega", "theta"} THEN "autogreek_of_price" ELSE "closed_form"

VARIABLES p, call, strike, built, meth, given, pc, src, outcome
vars == <<p, call, strike, built, meth, given, pc, src, outcome>>

Init == /\ p \in Products
        /\ call \in (IF PutOffered(p) THEN BOOLEAN ELSE {TRUE})
        /\ strike \in Strikes
        /\ built \in Builds
        /\ meth \in Methods
        /\ given \in (IF meth = "forward" THEN {InputSet(p)} ELSE SUBSET InputSet(p))
        /\ pc = 1
        /\ src = [n \in InputSet(p) |-> "unset"]
        /\ outcome = "running"

\* one step of acquire_params_from_derivative_*: the pc-th input
Acquire == /\ outcome = "running" /\ pc <= Len(AcquireOrder(p))
           /\ LET n == AcquireOrder(p)[pc] IN
              IF n \in given THEN /\ src' = [src EXCEPT ![n] = "explicit"] /\ pc' = pc + 1 /\ UNCHANGED outcome
              ELSE IF built = "ctor" THEN /\ outcome' = "ValueError" /\ UNCHANGED <<src, pc>>
              ELSE /\ src' = [src EXCEPT ![n] = "derivative"] /\ pc' = pc + 1 /\ UNCHANGED outcome
           /\ UNCHANGED <<p, call, strike, built, meth, given>>
Call == /\ outcome = "running" /\ pc > Len(AcquireOrder(p))
        /\ outcome' = "value"
        /\ UNCHANGED <<p, call, strike, built, meth, given, pc, src>>
Next == Acquire \/ Call
Spec == Init /\ [][Next]_vars
Done == outcome # "running"

\* ---------------------------------------------------------------- properties
TypeOK == /\ outcome \in {"running", "value", "ValueError"} /\ pc \in 1..5
          /\ \A n \in InputSet(p) : src[n] \in {"unset", "explicit", "derivative"}
\* the outcome is the reference outcome, whatever the order of the steps
OutcomeIsReference == Done => outcome = RefOutcome(p, built, given)
\* an input the caller gave is never replaced by the derivative's, and everything else comes from the derivative
ExplicitWins == outcome = "value" => \A n \in InputSet(p) : src[n] = RefSource(given, n)
\* an error is raised before anything is computed from a partially acquired argument list
NoPartialValue == outcome = "ValueError" => \E n \in InputSet(p) : src[n] = "unset"
\* the functional form receives every attribute the value depends on
PassesWhatIsNeeded == Needs(p, meth) \subseteq Passes(p, meth)
\* a put is never built for a product that does not offer one
PutOnlyWhereOffered == ~call => PutOffered(p)

\* ---------------------------------------------------------------- records for the replay
Emit == Done => PrintT(ToJson([rec |-> "bsmodule", p |-> p, call |-> call, strike |-> strike, built |-> built, meth |-> meth,
                                given |-> given, src |-> src, outcome |-> outcome, passes |-> Passes(p, meth), via |-> Via(p, meth),
                                inputs |-> Inputs(p)]))
=============================================================================
