------------------------------- MODULE MC_Grad -------------------------------
EXTENDS Grad
G(feats, kind, Wt, Bs, cost) == [feats |-> feats, kind |-> kind, W |-> Wt, B |-> Bs, cost |-> cost]
GConfigsA == {
  G(<<"moneyness", "time_to_maturity", "prev_hedge">>, "linear", <<1, 2, 1>>, 0, <<1, 2>>),
  G(<<"moneyness", "time_to_maturity", "prev_hedge">>, "relu", <<2, -1, -1>>, 1, <<1, 4>>),
  G(<<"moneyness", "volatility">>, "linear", <<2, -1>>, 1, <<1, 2>>),
  G(<<"moneyness", "time_to_maturity">>, "relu", <<1, -2>>, 1, <<0, 1>>),
  G(<<"max_moneyness", "zeros", "prev_hedge">>, "linear", <<1, 3, -1>>, -1, <<1, 1>>),
  G(<<"log_moneyness", "barrier_up_3">>, "relu", <<1, 2>>, 1, <<1, 2>>)
}
CritsA == {"es_half", "es_one", "mse", "oce"}
AllPaths3 == [1..3 -> {1, 2, 4}]
AllPaths4 == [1..4 -> {1, 2, 4}]
FewPaths3 == { <<2, 4, 1>>, <<1, 1, 4>> }
FewPaths4 == { <<2, 4, 1, 2>>, <<1, 1, 4, 4>>, <<4, 2, 2, 1>> }
=============================================================================
