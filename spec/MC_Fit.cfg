SPECIFICATION Spec
CONSTANTS
  Configs <- AllConfigs
INVARIANT StepsEqualEpochs
INVARIANT ExactlyKSteps
INVARIANT NoAccumulation
INVARIANT TrainForwardInTrainMode
INVARIANT ValidationInEvalMode
INVARIANT HistoryLength
INVARIANT SimulationCount
PROPERTY ParamsChangeOnlyInStep
PROPERTY Terminates
CHECK_DEADLOCK FALSE
