------------------------------ MODULE AutoGreek ------------------------------
(* C08 (partial: automatic Greeks) - pfhedge.autogreek differentiates a user  *)
(* pricer with respect to spot / volatility / time to maturity under every    *)
(* supported parameterisation.                                               *)
(*                                                                           *)
(* Dataflow modelled (one action per step of autogreek.delta/gamma/vega/theta)*)
(*   ParseLeaf     the differentiation leaf: spot from (spot | moneyness *    *)
(*                 strike | exp(log_moneyness) * strike) in this priority;   *)
(*                 volatility from (volatility | sqrt(variance))             *)
(*   Rederive      every spelling that depends on the leaf is recomputed     *)
(*                 from it (moneyness, log_moneyness when a strike is given; *)
(*                 variance = volatility^2), so the result is the TOTAL      *)
(*                 derivative                                                *)
(*   Filter        arguments not in the pricer's signature are dropped       *)
(*   Differentiate d/d leaf (twice for gamma); theta is minus d/dt           *)
(* Pricers are polynomials in their own arguments; values are second-order   *)
(* jets <<f, f', f''>> of exact rationals in the leaf.                        *)
EXTENDS Rat, TLC, Json

CONSTANTS Points,      \* evaluation points [S, K, sigma, t] (rationals as integers / powers of two)
          Pricers,     \* [xarg, yarg, strike, c] : spelling of the price argument, of the volatility argument,
                       \*   whether the pricer takes `strike`, polynomial coefficients c[1..7]
          Callers      \* how the caller spells the inputs: "spot", "spot+strike", "moneyness+strike", "log_moneyness+strike"

VARIABLES pt, pr, caller, volcaller, greek, step, args
vars == <<pt, pr, caller, volcaller, greek, step, args>>

\* ---------------------------------------------------------------- second-order jets
J(v, a, b)   == <<v, a, b>>
JC(q)        == <<q, RZero, RZero>>
JAdd(x, y)   == <<RAdd(x[1], y[1]), RAdd(x[2], y[2]), RAdd(x[3], y[3])>>
JScale(x, q) == <<RMul(x[1], q), RMul(x[2], q), RMul(x[3], q)>>
JMul(x, y)   == <<RMul(x[1], y[1]),
                  RAdd(RMul(x[2], y[1]), RMul(x[1], y[2])),
                  RAdd(RAdd(RMul(x[3], y[1]), RMul(R(2), RMul(x[2], y[2]))), RMul(x[1], y[3]))>>

S == R(pt.S)  KK == R(pt.K)  Sig == Q(pt.sig, 4)  Tm == Q(pt.t, 4)
\* the polynomial  c1 + c2 x + c3 x^2 + c4 x y + c5 y^2 + c6 x t + c7 y t (+ strike * x)
Poly(x, y, t) ==
  LET c == pr.c IN
  JAdd(JAdd(JAdd(JAdd(JAdd(JAdd(JAdd(JC(R(c[1])), JScale(x, R(c[2]))), JScale(JMul(x, x), R(c[3]))), JScale(JMul(x, y), R(c[4]))),
       JScale(JMul(y, y), R(c[5]))), JScale(JMul(x, t), R(c[6]))), JScale(JMul(y, t), R(c[7]))),
       IF pr.strike THEN JScale(x, KK) ELSE JC(RZero))

\* the pricer's price argument as a jet in the SPOT (log-moneyness only at S = K, where log(S/K) = 0 exactly)
XofSpot == CASE pr.xarg = "spot" -> J(S, ROne, RZero)
             [] pr.xarg = "moneyness" -> J(RDiv(S, KK), RDiv(ROne, KK), RZero)
             [] pr.xarg = "log_moneyness" -> J(RZero, RDiv(ROne, S), RNeg(RDiv(ROne, RMul(S, S))))
\* the pricer's volatility argument as a jet in the VOLATILITY
YofVol == IF pr.yarg = "volatility" THEN J(Sig, ROne, RZero) ELSE J(RMul(Sig, Sig), RMul(R(2), Sig), R(2))
Yconst == IF pr.yarg = "volatility" THEN JC(Sig) ELSE JC(RMul(Sig, Sig))
Xconst == JC(XofSpot[1])

Delta == Poly(XofSpot, Yconst, JC(Tm))[2]
Gamma == Poly(XofSpot, Yconst, JC(Tm))[3]
Vega  == Poly(Xconst, YofVol, JC(Tm))[2]
Theta == RNeg(Poly(Xconst, Yconst, J(Tm, ROne, RZero))[2])
Price == Poly(Xconst, Yconst, JC(Tm))[1]

\* ---------------------------------------------------------------- the dataflow machine
\* what the caller provides
Given == (CASE caller = "spot" -> {"spot"} [] caller = "spot+strike" -> {"spot", "strike"}
            [] caller = "moneyness+strike" -> {"moneyness", "strike"} [] caller = "log_moneyness+strike" -> {"log_moneyness", "strike"})
         \cup {volcaller, "time_to_maturity"}
HasStrike == "strike" \in Given
Signature == {pr.xarg, pr.yarg, "time_to_maturity"} \cup (IF pr.strike THEN {"strike"} ELSE {})
\* arguments available to the pricer after ParseLeaf and Rederive, per Greek (this is what the code does):
\*   delta, gamma  the spot is parsed from any spelling and, when a strike is given, moneyness and log_moneyness are
\*                 recomputed from it; volatility-side arguments are passed through as given
\*   vega          volatility is parsed (volatility | sqrt(variance)) and variance recomputed from it; price-side
\*                 arguments are passed through as given
\*   theta         everything is passed through as given
Available ==
  CASE greek \in {"delta", "gamma"} -> Given \cup {"spot"} \cup (IF HasStrike THEN {"moneyness", "log_moneyness"} ELSE {})
    [] greek = "vega"  -> Given \cup {"volatility", "variance"}
    [] greek = "theta" -> Given
\* the combinations autogreek accepts: the pricer gets every argument of its signature
Accepted == Signature \subseteq Available
Admissible == /\ Accepted
              /\ (pr.xarg = "log_moneyness" => pt.S = pt.K)                 \* exactness of log(S/K)
Init == pt \in Points /\ pr \in Pricers /\ caller \in Callers /\ volcaller \in {"volatility", "variance"}
        /\ greek \in {"delta", "gamma", "vega", "theta"} /\ Admissible /\ step = "parse" /\ args = {}
ParseLeaf == /\ step = "parse"
             /\ args' = Given \cup (CASE greek \in {"delta", "gamma"} -> {"spot"} [] greek = "vega" -> {"volatility"} [] OTHER -> {})
             /\ step' = "rederive" /\ UNCHANGED <<pt, pr, caller, volcaller, greek>>
Rederive == /\ step = "rederive"
            /\ args' = Available
            /\ step' = "filter" /\ UNCHANGED <<pt, pr, caller, volcaller, greek>>
Filter == /\ step = "filter"
          /\ args' = args \cap Signature
          /\ step' = "differentiate" /\ UNCHANGED <<pt, pr, caller, volcaller, greek>>
Differentiate == /\ step = "differentiate" /\ step' = "done" /\ UNCHANGED <<pt, pr, caller, volcaller, greek, args>>
Next == ParseLeaf \/ Rederive \/ Filter \/ Differentiate
Spec == Init /\ [][Next]_vars /\ WF_vars(Next)

\* every argument the pricer needs is available after filtering, and nothing else is passed
PricerCallable == step \in {"differentiate", "done"} => args = Signature
\* whenever a spelling that depends on the leaf is passed to the pricer it was recomputed from the leaf: the result is
\* the total derivative (for delta/gamma: moneyness spellings; for vega: variance)
TotalDerivative == step = "done" =>
   /\ (greek \in {"delta", "gamma"} /\ pr.xarg \in {"moneyness", "log_moneyness"}) => HasStrike
   /\ (greek = "vega" /\ pr.yarg = "variance") => "variance" \in Available
Value == CASE greek = "delta" -> Delta [] greek = "gamma" -> Gamma [] greek = "vega" -> Vega [] greek = "theta" -> Theta
\* the property's own definition: for these (at most quadratic) pricers the jets equal exact central differences of the
\* price as a function of the SPOT (volatility, time) with every other spelling recomputed from it
XofS(sp) == IF pr.xarg = "spot" THEN sp ELSE RDiv(sp, KK)
PriceAtSpot(sp) == Poly(JC(XofS(sp)), Yconst, JC(Tm))[1]
PriceAtVol(sg)  == Poly(Xconst, JC(sg), JC(Tm))[1]
PriceAtTime(tt) == Poly(Xconst, Yconst, JC(tt))[1]
JetEqualsCentralDifference ==
  /\ (pr.xarg # "log_moneyness") =>
        /\ Delta = RDiv(RSub(PriceAtSpot(RAdd(S, ROne)), PriceAtSpot(RSub(S, ROne))), R(2))
        /\ Gamma = RAdd(RSub(PriceAtSpot(RAdd(S, ROne)), RMul(R(2), PriceAtSpot(S))), PriceAtSpot(RSub(S, ROne)))
  /\ (pr.yarg = "volatility") => Vega = RDiv(RSub(PriceAtVol(RAdd(Sig, ROne)), PriceAtVol(RSub(Sig, ROne))), R(2))
  /\ Theta = RNeg(RDiv(RSub(PriceAtTime(RAdd(Tm, ROne)), PriceAtTime(RSub(Tm, ROne))), R(2)))
Terminates == <>(step = "done")

Emit == step = "done" => PrintT(ToJson([pt |-> pt, pr |-> pr, caller |-> caller, volcaller |-> volcaller, greek |-> greek, given |-> Given, value |-> Value]))
=============================================================================
