SPECIFICATION Spec
CONSTANTS
  Strikes <- StrikesA
INVARIANT TypeOK
INVARIANT OutcomeIsReference
INVARIANT ExplicitWins
INVARIANT NoPartialValue
INVARIANT PassesWhatIsNeeded
INVARIANT PutOnlyWhereOffered
INVARIANT Emit
CHECK_DEADLOCK FALSE
