SPECIFICATION TSpec
CONSTANTS
  Configs <- NoConfigs
INVARIANT StepsEqualEpochs
INVARIANT NoAccumulation
INVARIANT TrainForwardInTrainMode
INVARIANT ValidationInEvalMode
CONSTRAINT Progress
POSTCONDITION Accepted
CHECK_DEADLOCK FALSE
