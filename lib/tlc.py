"""Thin runner around TLC (tla2tools 1.8) for the pfhedge specification tree.

Every call runs TLC with cwd = /verif/spec on one MC_*.tla wrapper and one .cfg, parses the
banner numbers (states generated / distinct / depth), the per-action coverage counts, the
JSON records printed by `PrintT(ToJson(..))` invariants, and the verdict.

exit-code discipline lives in the callers: a TLC crash or a parse mismatch is a *machinery*
failure (MachineryError), never a property violation.
"""
from __future__ import annotations

import json
import os
import re
import shutil
import subprocess
import time
from dataclasses import dataclass, field
from pathlib import Path
from typing import Any, Dict, List, Optional

VERIF = Path(__file__).resolve().parent.parent
SPEC = VERIF / "spec"
# VERIF_SCRATCH (optional): keep work files, evidence and replays of this run apart (used by tools/matrix.py, which runs the
# checks against scratch copies of the repository in parallel and must not overwrite the evidence of the real tree)
_SCRATCH = os.environ.get("VERIF_SCRATCH")
WORK = (Path(_SCRATCH) if _SCRATCH else VERIF) / ".work"

JAVA_CP = "/opt/veriftools/tla/tla2tools.jar:/opt/veriftools/tla/CommunityModules-deps.jar"


class MachineryError(RuntimeError):
    """The verification machinery itself failed (exit code 2)."""


@dataclass
class TLCResult:
    module: str
    cfg: str
    ok: bool                      # finished, no invariant/property violation
    violated: Optional[str]       # name of violated invariant / property, if any
    generated: int = 0
    distinct: int = 0
    depth: int = 0
    init_states: int = 0
    wall_s: float = 0.0
    records: List[Any] = field(default_factory=list)
    actions: Dict[str, List[int]] = field(default_factory=dict)   # name -> [distinct, generated]
    stdout: str = ""
    error_trace: str = ""
    cmd: str = ""

    @property
    def transitions(self) -> int:
        return max(self.generated - self.init_states, 0)

    def summary(self) -> Dict[str, Any]:
        return {
            "module": self.module, "cfg": self.cfg, "ok": self.ok, "violated": self.violated,
            "states_generated": self.generated, "distinct_states": self.distinct,
            "depth": self.depth, "records": len(self.records), "wall_s": round(self.wall_s, 2),
            "actions": self.actions,
        }


_RE_STATES = re.compile(r"^(\d+) states generated, (\d+) distinct states found, (\d+) states left on queue")
_RE_DEPTH = re.compile(r"The depth of the complete state graph search is (\d+)")
_RE_INIT = re.compile(r"Finished computing initial states: (\d+) distinct state")
_RE_INIT2 = re.compile(r"Finished computing initial states: (\d+) states generated, with (\d+) of them distinct")
_RE_ACTION = re.compile(r"^<(\w+) line \d+, col \d+ to line \d+, col \d+ of module (\w+)(?: \([\d ]+\))?>: (\d+):(\d+)")
_RE_VIOL_INV = re.compile(r"Error: Invariant (\S+) is violated")
_RE_VIOL_PROP = re.compile(r"Error: (?:Action|Temporal) propert(?:y|ies) (\S*)")


def _decode_record(line: str) -> Optional[Any]:
    """A PrintT(ToJson(x)) line is a TLA+ string literal holding JSON."""
    if not (line.startswith('"') and line.endswith('"')):
        return None
    try:
        inner = json.loads(line)
    except Exception:
        return None
    if not isinstance(inner, str):
        return None
    inner = inner.strip()
    if not inner or inner[0] not in "[{":
        return None
    try:
        return json.loads(inner)
    except Exception:
        return None


def run_tlc(module: str, cfg: str, *, tag: str, workers: int = 1, coverage: bool = True,
            simulate: Optional[str] = None, depth: Optional[int] = None, seed: Optional[int] = None,
            env: Optional[Dict[str, str]] = None, timeout: int = 1800, deadlock: bool = False,
            heap: str = "8g", dfs_queue: bool = False, extra: Optional[List[str]] = None) -> TLCResult:
    """Run TLC on spec/<module>.tla with spec/<cfg>. `tag` names the scratch directory."""
    meta = WORK / tag / ("meta_" + cfg.replace(".cfg", ""))
    if meta.exists():
        shutil.rmtree(meta, ignore_errors=True)
    meta.mkdir(parents=True, exist_ok=True)
    if not (SPEC / (module + ".tla")).exists():
        raise MachineryError(f"missing spec module {module}.tla")
    if not (SPEC / cfg).exists():
        raise MachineryError(f"missing config {cfg}")
    java = ["java", "-XX:+UseParallelGC", f"-Xmx{heap}"]
    if dfs_queue:
        java.append("-Dtlc2.tool.queue.IStateQueue=StateDeque")
    cmd = java + ["-cp", JAVA_CP, "tlc2.TLC", "-workers", str(workers), "-metadir", str(meta),
                  "-noGenerateSpecTE", "-config", cfg]
    if coverage and simulate is None:
        cmd += ["-coverage", "1"]
    if simulate is not None:
        cmd += ["-simulate", simulate]
    if depth is not None:
        cmd += ["-depth", str(depth)]
    if seed is not None:
        cmd += ["-seed", str(seed)]
    if deadlock:
        cmd += ["-deadlock"]
    if extra:
        cmd += extra
    cmd += [module + ".tla"]
    full_env = dict(os.environ)
    if env:
        full_env.update(env)
    t0 = time.time()
    try:
        proc = subprocess.run(cmd, cwd=SPEC, env=full_env, capture_output=True, text=True, timeout=timeout)
    except subprocess.TimeoutExpired as e:
        raise MachineryError(f"TLC timed out after {timeout}s on {module}/{cfg}") from e
    wall = time.time() - t0
    out = proc.stdout
    res = TLCResult(module=module, cfg=cfg, ok=False, violated=None, wall_s=wall, stdout=out,
                    cmd=" ".join(cmd))
    finished = False
    err_lines: List[str] = []
    in_err = False
    for line in out.splitlines():
        rec = _decode_record(line)
        if rec is not None:
            res.records.append(rec)
            continue
        m = _RE_STATES.match(line)
        if m:
            res.generated, res.distinct = int(m.group(1)), int(m.group(2))
            continue
        m = _RE_DEPTH.search(line)
        if m:
            res.depth = int(m.group(1))
            continue
        m = _RE_INIT.search(line)
        if m:
            res.init_states = int(m.group(1))
            continue
        m = _RE_INIT2.search(line)
        if m:
            res.init_states = int(m.group(2))
            continue
        m = _RE_ACTION.match(line)
        if m:
            prev = res.actions.get(m.group(1), [0, 0])
            res.actions[m.group(1)] = [prev[0] + int(m.group(3)), prev[1] + int(m.group(4))]
            continue
        m = _RE_VIOL_INV.search(line)
        if m:
            res.violated = m.group(1)
            in_err = True
        m = _RE_VIOL_PROP.search(line)
        if m and res.violated is None:
            res.violated = m.group(1) or "temporal property"
            in_err = True
        if "Model checking completed. No error has been found." in line:
            finished = True
        if line.startswith("Error:") and res.violated is None and "violated" not in line:
            in_err = True
        if in_err and len(err_lines) < 400:
            err_lines.append(line)
    res.error_trace = "\n".join(err_lines)
    if simulate is not None and proc.returncode == 0:
        finished = True
    res.ok = finished and res.violated is None and proc.returncode == 0
    if not res.ok and res.violated is None:
        # neither completed nor a clean property violation: machinery problem
        tail = "\n".join(out.splitlines()[-40:]) + "\n" + proc.stderr[-2000:]
        raise MachineryError(f"TLC failed on {module}/{cfg} (rc={proc.returncode}):\n{tail}")
    shutil.rmtree(meta, ignore_errors=True)
    return res


def require_actions(res: TLCResult, names: List[str]) -> None:
    """Anti-vacuity: every named action must have been taken at least once."""
    for n in names:
        if n not in res.actions:
            raise MachineryError(f"{res.module}/{res.cfg}: action {n} missing from coverage output")
        if res.actions[n][1] == 0:
            raise MachineryError(f"{res.module}/{res.cfg}: action {n} never taken (vacuous model)")


def sany(module: str) -> None:
    cmd = ["java", "-cp", JAVA_CP, "tla2sany.SANY", module + ".tla"]
    proc = subprocess.run(cmd, cwd=SPEC, capture_output=True, text=True)
    if proc.returncode != 0 or "Semantic errors" in proc.stdout or "***Parse Error***" in proc.stdout \
            or "Fatal errors" in proc.stdout:
        raise MachineryError(f"SANY rejects {module}:\n{proc.stdout[-3000:]}")
