"""The numeric lattice behind the indices of BSAlgebra.tla, and the evaluation of pfhedge's Black-Scholes functional
forms (and their derivatives by torch.autograd) on it.

Axes are dyadic so that every argument handed to the code is an exact double; indices are 1-based as in the spec.
A value tensor has shape (NSpot, NTime, NVol, NStrike, NMax).
"""
from __future__ import annotations

import inspect
import math
from typing import Any, Callable, Dict, List, Optional, Tuple

import torch

AXES = {
    "quick": {
        "spot": [1 / 2, 3 / 4, 7 / 8, 1.0, 9 / 8, 5 / 4, 2.0],            # S / K
        "time": [1 / 16, 1.0, 5.0],
        "vol": [1 / 8, 1 / 2, 2.0],
        "strike": [1 / 4, 1.1, 3.0],                                 # 1.1: not representable in float32
        "max": [1.0, 5 / 4, 2.0],                                          # M / S  (running maximum >= spot)
    },
    "thorough": {
        "spot": [1 / 4, 3 / 8, 1 / 2, 5 / 8, 3 / 4, 7 / 8, 15 / 16, 1.0, 17 / 16, 9 / 8, 5 / 4, 3 / 2, 2.0, 5 / 2, 3.0],
        "time": [1 / 256, 1 / 64, 1 / 16, 1 / 4, 1.0, 2.0, 5.0],
        "vol": [1 / 32, 1 / 16, 1 / 8, 1 / 4, 1 / 2, 1.0, 2.0],
        "strike": [1 / 8, 1 / 2, 1.0, 1.1, 3.0, 10.0],
        "max": [1.0, 17 / 16, 9 / 8, 3 / 2, 4.0],
    },
}
# The same index lattices on a different physical regime: short-dated, near the money, low-priced underliers (sigma*sqrt(t) between
# 2^-11 and 2^-7, |log-moneyness| up to 2^-8, strikes down to 2^-30).  Same sizes, so every obligation TLC emits applies as it is.
AXES["quick_micro"] = {
    "spot": [1 - 2.0 ** -8, 1 - 2.0 ** -9, 1 - 2.0 ** -10, 1.0, 1 + 2.0 ** -10, 1 + 2.0 ** -9, 1 + 2.0 ** -8],
    "time": [2.0 ** -12, 2.0 ** -10, 2.0 ** -8],
    "vol": [2.0 ** -5, 2.0 ** -4, 2.0 ** -3],
    "strike": [2.0 ** -20, 1.1 * 2.0 ** -12, 2.0 ** -30],
    "max": [1.0, 1 + 2.0 ** -10, 1 + 2.0 ** -8],
}

PRODUCTS = ["european", "european_binary", "american_binary", "lookback"]
PATH_DEPENDENT = {"american_binary", "lookback"}
PUT_OFFERED = {"european", "european_binary"}
GREEKS = ["price", "delta", "gamma", "vega", "theta"]


def call_sig(fn: Callable[..., torch.Tensor], **kw: Any) -> torch.Tensor:
    """Call a functional form with exactly the keyword arguments it declares."""
    ps = inspect.signature(fn).parameters
    return fn(**{k: v for k, v in kw.items() if k in ps})


def functional(p: str, greek: str) -> Callable[..., torch.Tensor]:
    import pfhedge.nn.functional as F
    return getattr(F, f"bs_{p}_{greek}")


class Grid:
    def __init__(self, tier: str, dtype: torch.dtype = torch.float64) -> None:
        self.ax = AXES[tier]
        self.dtype = dtype
        self.shape = tuple(len(self.ax[a]) for a in ("spot", "time", "vol", "strike", "max"))
        g = torch.meshgrid(*[torch.tensor(self.ax[a], dtype=dtype) for a in ("spot", "time", "vol", "strike", "max")], indexing="ij")
        self.ratio, self.t, self.v, self.k, self.f = g                      # S/K, t, sigma, K, M/S
        self.lm = self.ratio.log()
        self.mlm = (self.ratio * self.f).log()
        # exact comparison of the running maximum with the strike (products of dyadics are exact)
        self.reached = (self.ratio * self.f) >= 1.0
        self._cache: Dict[Tuple[str, bool, str, float], torch.Tensor] = {}
        self._ad: Dict[Tuple[str, bool], Dict[str, torch.Tensor]] = {}

    def sizes(self) -> Dict[str, int]:
        return {"NSpot": self.shape[0], "NTime": self.shape[1], "NVol": self.shape[2], "NStrike": self.shape[3], "NMax": self.shape[4]}

    def kwargs(self, scale: float = 1.0, lm: Optional[torch.Tensor] = None, mlm: Optional[torch.Tensor] = None) -> Dict[str, Any]:
        return dict(log_moneyness=self.lm if lm is None else lm, max_log_moneyness=self.mlm if mlm is None else mlm,
                    time_to_maturity=self.t, volatility=self.v, strike=self.k * scale)

    def value(self, p: str, call: bool, greek: str, scale: float = 1.0) -> torch.Tensor:
        key = (p, call, greek, scale)
        if key not in self._cache:
            with torch.no_grad() if not (p == "lookback" and greek != "price") else torch.enable_grad():
                out = call_sig(functional(p, greek), call=call, **self.kwargs(scale))
            self._cache[key] = out.detach().expand(self.shape).clone()
        return self._cache[key]

    def value_at(self, p: str, call: bool, greek: str, lm: torch.Tensor, mlm: torch.Tensor) -> torch.Tensor:
        out = call_sig(functional(p, greek), call=call, **self.kwargs(1.0, lm, mlm))
        return out.detach().expand(self.shape)

    def derivatives(self, p: str, call: bool) -> Dict[str, torch.Tensor]:
        """delta, gamma, vega, theta of the code's own PRICE by automatic differentiation (the harness's own graph:
        spot is the leaf, log-moneyness and max-log-moneyness are recomputed from it with the running maximum held fixed)."""
        key = (p, call)
        if key in self._ad:
            return self._ad[key]
        spot = (self.ratio * self.k).clone().requires_grad_(True)
        mx = (self.ratio * self.k * self.f).clone()
        t = self.t.clone().requires_grad_(True)
        v = self.v.clone().requires_grad_(True)
        price = call_sig(functional(p, "price"), call=call, log_moneyness=(spot / self.k).log(), max_log_moneyness=(mx / self.k).log(),
                         time_to_maturity=t, volatility=v, strike=self.k)
        price = price.expand(self.shape)
        (delta,) = torch.autograd.grad(price.sum(), spot, create_graph=True)
        (gamma,) = torch.autograd.grad(delta.sum(), spot, retain_graph=True, allow_unused=True)
        vega, dt = torch.autograd.grad(price.sum(), [v, t], retain_graph=False, allow_unused=True)
        z = torch.zeros(self.shape, dtype=self.dtype)
        out = {"price": price.detach(), "delta": delta.detach(), "gamma": z if gamma is None else gamma.detach(),
               "vega": z if vega is None else vega.detach(), "theta": z if dt is None else -dt.detach()}
        self._ad[key] = out
        return out

    # natural magnitude of a Greek at each lattice point: tolerances are relative to it
    def unit(self, p: str, greek: str) -> torch.Tensor:
        u = self.k if p in ("european", "lookback") else torch.ones_like(self.k)
        s = self.ratio * self.k
        if greek == "delta":
            return u / s
        if greek == "gamma":
            return u / (s * s)
        return u

    def index(self, pt: Dict[str, int], mx: int = 1) -> Tuple[int, int, int, int, int]:
        return (pt["s"] - 1, pt["t"] - 1, pt["v"] - 1, pt["k"] - 1, mx - 1)

    def describe(self, idx: Tuple[int, int, int, int, int]) -> Dict[str, float]:
        i, t, v, k, m = idx
        return {"S/K": self.ax["spot"][i], "time_to_maturity": self.ax["time"][t], "volatility": self.ax["vol"][v], "strike": self.ax["strike"][k],
                "M/S": self.ax["max"][m], "log_moneyness": math.log(self.ax["spot"][i]), "max_log_moneyness": math.log(self.ax["spot"][i] * self.ax["max"][m])}
