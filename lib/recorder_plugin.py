"""pytest plugin (loaded with `-p lib.recorder_plugin`, PYTHONPATH=/verif): records traces of the REPOSITORY'S OWN
tests at public entry points of pfhedge, for validation by DtypeTrace.tla (C17) and for the purity verdict of C16.

No file of /repo is changed: the plugin wraps public methods at import time of the test session
(BasePrimary.to / register_buffer, every concrete primary's simulate, torch.set_default_dtype, Feature.get,
BaseDerivative.payoff, Hedger.compute_hedge/compute_portfolio/compute_pl) and logs one event per outermost call at its
return (error path included).  Enabled only when PFHEDGE_VERIF_TRACE is set (path of the output file).

Per primary instrument it writes the stream of dtype-machine events with the projected post-state (declared dtype,
dtype of each buffer, global default); per read-only call it writes the content hashes of every buffer of the
instruments involved before and after the call.
"""
from __future__ import annotations

import functools
import hashlib
import json
import os
from typing import Any, Dict, List

import torch

OUT = os.environ.get("PFHEDGE_VERIF_TRACE")
NAME = {torch.float16: "f16", torch.bfloat16: "bf16", torch.float32: "f32", torch.float64: "f64"}

_state: Dict[str, Any] = {"depth": 0, "test": None, "objects": {}, "purity": [], "next_id": 0, "live": []}


def _dt(d: Any) -> str:
    return "none" if d is None else NAME.get(d, "other")


def _project(obj: Any) -> Dict[str, Any]:
    bufs = {n: _dt(b.dtype) for n, b in obj.named_buffers()}
    return {"default": _dt(torch.get_default_dtype()), "declared": _dt(getattr(obj, "dtype", None)), "bufs": bufs}


def _stream(obj: Any) -> Dict[str, Any]:
    key = id(obj)
    s = _state["objects"].get(key)
    if s is None or s["obj"]() is not obj:
        import weakref
        s = {"obj": weakref.ref(obj), "cls": type(obj).__name__, "test": _state["test"], "init": None, "events": [], "dead": False}
        _state["objects"][key] = s
        _state["live"].append(s)
    return s


def _hash(t: torch.Tensor) -> str:
    t = t.detach()
    try:
        return hashlib.sha1(t.contiguous().cpu().view(torch.uint8).numpy().tobytes() if t.dtype != torch.bfloat16 else t.float().cpu().numpy().tobytes()).hexdigest()[:12]
    except Exception:
        return "unhashable"


def _buffers_of(x: Any) -> Dict[str, str]:
    out: Dict[str, str] = {}
    try:
        from pfhedge.instruments import BaseDerivative, BasePrimary
    except Exception:
        return out
    if isinstance(x, BasePrimary):
        for n, b in x.named_buffers():
            out[f"{id(x)}.{n}"] = _hash(b)
    elif isinstance(x, BaseDerivative):
        for u in x.underliers():
            out.update(_buffers_of(u))
    return out


def _install() -> None:
    import pfhedge.instruments as inst
    from pfhedge.instruments import BaseDerivative, BasePrimary
    from pfhedge.features._base import Feature
    from pfhedge.nn import Hedger

    def outermost(fn):
        @functools.wraps(fn)
        def wrapper(*a, **k):
            _state["depth"] += 1
            try:
                return fn(*a, **k)
            finally:
                _state["depth"] -= 1
        return wrapper

    # ---------------------------------------------------------------- dtype machine events
    orig_to = BasePrimary.to

    def to(self, *args, **kwargs):
        nested = _state["depth"] > 0
        _state["depth"] += 1
        ok = True
        try:
            return orig_to(self, *args, **kwargs)
        except TypeError:
            ok = False
            raise
        except Exception:
            ok = None
            raise
        finally:
            _state["depth"] -= 1
            if not nested and _state["test"] is not None:
                s = _stream(self)
                if s["init"] is None:             # the constructor's own to(): the object's initial state
                    s["init"] = _project(self) if ok else None
                    if s["init"] is None:
                        s["dead"] = True
                elif not s["dead"]:
                    if ok is None:
                        s["dead"] = True
                    else:
                        try:
                            _, dtype, *_ = self._parse_to(*args, **kwargs)
                        except Exception:
                            dtype = "unparsable"
                        if ok and dtype is None:
                            ev = {"op": "ToNoArg", "d": "none"}
                        elif ok:
                            ev = {"op": "To", "d": _dt(dtype)}
                        else:
                            ev = {"op": "ToNonFloat", "d": "i64"}
                        ev.update(ok=bool(ok), post=_project(self))
                        s["events"].append(ev)
    BasePrimary.to = to
    # the concrete primaries carry their own copy of `to` (assigned for documentation purposes at import time)
    for sub in _all_subclasses(BasePrimary):
        if "to" in sub.__dict__:
            sub.to = to

    orig_reg = BasePrimary.register_buffer

    def register_buffer(self, name, tensor):
        nested = _state["depth"] > 0
        _state["depth"] += 1
        try:
            return orig_reg(self, name, tensor)
        finally:
            _state["depth"] -= 1
            if not nested and _state["test"] is not None and isinstance(tensor, torch.Tensor):
                s = _stream(self)
                if s["init"] is not None and not s["dead"]:
                    s["events"].append({"op": "RegisterBuffer", "d": _dt(tensor.dtype), "how": name, "ok": True, "post": _project(self)})
    BasePrimary.register_buffer = register_buffer

    for cname in dir(inst):
        cls = getattr(inst, cname)
        if isinstance(cls, type) and issubclass(cls, BasePrimary) and "simulate" in cls.__dict__:
            orig = cls.__dict__["simulate"]

            def simulate(self, *a, __orig=orig, **k):
                nested = _state["depth"] > 0
                _state["depth"] += 1
                ok = True
                try:
                    return __orig(self, *a, **k)
                except Exception:
                    ok = False
                    raise
                finally:
                    _state["depth"] -= 1
                    if not nested and _state["test"] is not None:
                        s = _stream(self)
                        if s["init"] is not None and not s["dead"]:
                            if ok:
                                s["events"].append({"op": "Simulate", "d": "none", "ok": True, "post": _project(self)})
                            else:
                                s["dead"] = True          # an exception leaves the object in an unknown state
            cls.simulate = simulate

    orig_sdd = torch.set_default_dtype

    def set_default_dtype(d):
        orig_sdd(d)
        if _state["test"] is not None:
            for s in _state["live"]:
                o = s["obj"]()
                if o is not None and s["init"] is not None and not s["dead"] and (not s["events"] and s["init"]["default"] != _dt(d) or s["events"] and s["events"][-1]["post"]["default"] != _dt(d)):
                    s["events"].append({"op": "SetDefault", "d": _dt(d), "ok": True, "post": _project(o)})
    torch.set_default_dtype = set_default_dtype

    # ---------------------------------------------------------------- purity of read-only computations
    def pure(cls, meth, label, involved):
        orig = getattr(cls, meth)

        @functools.wraps(orig)
        def wrapper(self, *a, **k):
            if _state["depth"] > 0 or _state["test"] is None:
                return orig(self, *a, **k)
            objs = involved(self, a, k)
            before: Dict[str, str] = {}
            for o in objs:
                before.update(_buffers_of(o))
            _state["depth"] += 1
            ok = True
            try:
                return orig(self, *a, **k)
            except Exception:
                ok = False
                raise
            finally:
                _state["depth"] -= 1
                after: Dict[str, str] = {}
                for o in objs:
                    after.update(_buffers_of(o))
                changed = sorted(n.split(".", 1)[1] for n in before if n in after and before[n] != after[n])
                _state["purity"].append({"test": _state["test"], "op": label, "cls": type(self).__name__, "ok": ok, "n_buffers": len(before), "changed": changed})
        setattr(cls, meth, wrapper)

    def deriv_of_feature(self, a, k):
        d = getattr(self, "derivative", None)
        return [d] if d is not None else []

    for fcls in list(_all_subclasses(Feature)):
        if "get" in fcls.__dict__:
            pure(fcls, "get", "FeatureGet", deriv_of_feature)
    pure(BaseDerivative, "payoff", "Payoff", lambda self, a, k: [self])
    for meth in ("compute_hedge", "compute_portfolio", "compute_pl"):
        pure(Hedger, meth, meth, lambda self, a, k: [x for x in list(a) + list(k.values()) if isinstance(x, BaseDerivative)] +
             [h for x in list(a) + list(k.values()) if isinstance(x, (list, tuple)) for h in x])


def _all_subclasses(cls):
    for sub in cls.__subclasses__():
        yield sub
        yield from _all_subclasses(sub)


def pytest_configure(config):
    if OUT:
        import pfhedge.features  # noqa: F401  (registers the feature classes)
        import pfhedge.nn  # noqa: F401
        _install()


def pytest_runtest_setup(item):
    _state["test"] = item.nodeid


def pytest_runtest_teardown(item):
    _state["test"] = None


def pytest_sessionfinish(session, exitstatus):
    if not OUT:
        return
    streams = [{"cls": s["cls"], "test": s["test"], "init": s["init"], "events": s["events"]} for s in _state["live"] if s["init"] is not None and s["events"]]
    with open(OUT, "w") as f:
        json.dump({"dtype_streams": streams, "purity": _state["purity"]}, f)
