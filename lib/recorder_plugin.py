"""pytest plugin (loaded with `-p lib.recorder_plugin`, PYTHONPATH=/verif): records traces of the REPOSITORY'S OWN
tests at public entry points of pfhedge, for validation by DtypeTrace.tla (C17) and for the purity verdict of C16.

No file of /repo is changed: the plugin wraps public methods at import time of the test session
(BasePrimary.to / register_buffer, every concrete primary's simulate, torch.set_default_dtype, Feature.get,
BaseDerivative.payoff, Hedger.compute_hedge/compute_portfolio/compute_pl) and logs one event per outermost call at its
return (error path included).  Enabled only when PFHEDGE_VERIF_TRACE is set (path of the output file).

Per primary instrument it writes the stream of dtype-machine events with the projected post-state (declared dtype,
dtype of each buffer, global default); per read-only call it writes the content hashes of every buffer of the
instruments involved before and after the call.
"""
from __future__ import annotations

import functools
import hashlib
import json
import os
from typing import Any, Dict, List

import torch

OUT = os.environ.get("PFHEDGE_VERIF_TRACE")
NAME = {torch.float16: "f16", torch.bfloat16: "bf16", torch.float32: "f32", torch.float64: "f64"}

_state: Dict[str, Any] = {"depth": 0, "test": None, "objects": {}, "purity": [], "next_id": 0, "live": []}


def _dt(d: Any) -> str:
    return "none" if d is None else NAME.get(d, "other")


def _project(obj: Any) -> Dict[str, Any]:
    bufs = {n: _dt(b.dtype) for n, b in obj.named_buffers()}
    return {"default": _dt(torch.get_default_dtype()), "declared": _dt(getattr(obj, "dtype", None)), "bufs": bufs}


def _stream(obj: Any) -> Dict[str, Any]:
    key = id(obj)
    s = _state["objects"].get(key)
    if s is None or s["obj"]() is not obj:
        import weakref
        s = {"obj": weakref.ref(obj), "cls": type(obj).__name__, "test": _state["test"], "init": None, "events": [], "dead": False}
        _state["objects"][key] = s
        _state["live"].append(s)
    return s


def _hash(t: torch.Tensor) -> str:
    t = t.detach()
    try:
        return hashlib.sha1(t.contiguous().cpu().view(torch.uint8).numpy().tobytes() if t.dtype != torch.bfloat16 else t.float().cpu().numpy().tobytes()).hexdigest()[:12]
    except Exception:
        return "unhashable"


def _buffers_of(x: Any) -> Dict[str, str]:
    out: Dict[str, str] = {}
    try:
        from pfhedge.instruments import BaseDerivative, BasePrimary
    except Exception:
        return out
    if isinstance(x, BasePrimary):
        for n, b in x.named_buffers():
            out[f"{id(x)}.{n}"] = _hash(b)
    elif isinstance(x, BaseDerivative):
        for u in x.underliers():
            out.update(_buffers_of(u))
    return out


def _install() -> None:
    import pfhedge.instruments as inst
    from pfhedge.instruments import BaseDerivative, BasePrimary
    from pfhedge.features._base import Feature
    from pfhedge.nn import Hedger

    def outermost(fn):
        @functools.wraps(fn)
        def wrapper(*a, **k):
            _state["depth"] += 1
            try:
                return fn(*a, **k)
            finally:
                _state["depth"] -= 1
        return wrapper

    # ---------------------------------------------------------------- dtype machine events
    orig_to = BasePrimary.to

    def to(self, *args, **kwargs):
        nested = _state["depth"] > 0
        _state["depth"] += 1
        ok = True
        try:
            return orig_to(self, *args, **kwargs)
        except TypeError:
            ok = False
            raise
        except Exception:
            ok = None
            raise
        finally:
            _state["depth"] -= 1
            if not nested and _state["test"] is not None:
                s = _stream(self)
                if s["init"] is None:             # the constructor's own to(): the object's initial state
                    s["init"] = _project(self) if ok else None
                    if s["init"] is None:
                        s["dead"] = True
                elif not s["dead"]:
                    if ok is None:
                        s["dead"] = True
                    else:
                        try:
                            _, dtype, *_ = self._parse_to(*args, **kwargs)
                        except Exception:
                            dtype = "unparsable"
                        if ok and dtype is None:
                            ev = {"op": "ToNoArg", "d": "none"}
                        elif ok:
                            ev = {"op": "To", "d": _dt(dtype)}
                        else:
                            ev = {"op": "ToNonFloat", "d": "i64"}
                        ev.update(ok=bool(ok), post=_project(self))
                        s["events"].append(ev)
    BasePrimary.to = to
    # the concrete primaries carry their own copy of `to` (assigned for documentation purposes at import time)
    for sub in _all_subclasses(BasePrimary):
        if "to" in sub.__dict__:
            sub.to = to

    orig_reg = BasePrimary.register_buffer

    def register_buffer(self, name, tensor):
        nested = _state["depth"] > 0
        _state["depth"] += 1
        try:
            return orig_reg(self, name, tensor)
        finally:
            _state["depth"] -= 1
            if not nested and _state["test"] is not None and isinstance(tensor, torch.Tensor):
                s = _stream(self)
                if s["init"] is not None and not s["dead"]:
                    s["events"].append({"op": "RegisterBuffer", "d": _dt(tensor.dtype), "how": name, "ok": True, "post": _project(self)})
    BasePrimary.register_buffer = register_buffer

    for cname in dir(inst):
        cls = getattr(inst, cname)
        if isinstance(cls, type) and issubclass(cls, BasePrimary) and "simulate" in cls.__dict__:
            orig = cls.__dict__["simulate"]

            def simulate(self, *a, __orig=orig, **k):
                nested = _state["depth"] > 0
                _state["depth"] += 1
                ok = True
                try:
                    return __orig(self, *a, **k)
                except Exception:
                    ok = False
                    raise
                finally:
                    _state["depth"] -= 1
                    if not nested and _state["test"] is not None:
                        s = _stream(self)
                        if s["init"] is not None and not s["dead"]:
                            if ok:
                                s["events"].append({"op": "Simulate", "d": "none", "ok": True, "post": _project(self)})
                            else:
                                s["dead"] = True          # an exception leaves the object in an unknown state
            cls.simulate = simulate

    orig_sdd = torch.set_default_dtype

    def set_default_dtype(d):
        orig_sdd(d)
        if _state["test"] is not None:
            for s in _state["live"]:
                o = s["obj"]()
                if o is not None and s["init"] is not None and not s["dead"] and (not s["events"] and s["init"]["default"] != _dt(d) or s["events"] and s["events"][-1]["post"]["default"] != _dt(d)):
                    s["events"].append({"op": "SetDefault", "d": _dt(d), "ok": True, "post": _project(o)})
    torch.set_default_dtype = set_default_dtype

    # ---------------------------------------------------------------- purity of read-only computations
    def pure(cls, meth, label, involved):
        orig = getattr(cls, meth)

        @functools.wraps(orig)
        def wrapper(self, *a, **k):
            if _state["depth"] > 0 or _state["test"] is None:
                return orig(self, *a, **k)
            objs = involved(self, a, k)
            before: Dict[str, str] = {}
            for o in objs:
                before.update(_buffers_of(o))
            _state["depth"] += 1
            ok = True
            try:
                return orig(self, *a, **k)
            except Exception:
                ok = False
                raise
            finally:
                _state["depth"] -= 1
                after: Dict[str, str] = {}
                for o in objs:
                    after.update(_buffers_of(o))
                changed = sorted(n.split(".", 1)[1] for n in before if n in after and before[n] != after[n])
                _state["purity"].append({"test": _state["test"], "op": label, "cls": type(self).__name__, "ok": ok, "n_buffers": len(before), "changed": changed})
        setattr(cls, meth, wrapper)

    def deriv_of_feature(self, a, k):
        d = getattr(self, "derivative", None)
        return [d] if d is not None else []

    for fcls in list(_all_subclasses(Feature)):
        if "get" in fcls.__dict__:
            pure(fcls, "get", "FeatureGet", deriv_of_feature)
    pure(BaseDerivative, "payoff", "Payoff", lambda self, a, k: [self])
    for meth in ("compute_hedge", "compute_portfolio", "compute_pl"):
        pure(Hedger, meth, meth, lambda self, a, k: [x for x in list(a) + list(k.values()) if isinstance(x, BaseDerivative)] +
             [h for x in list(a) + list(k.values()) if isinstance(x, (list, tuple)) for h in x])


# -------------------------------------------------------------------- functional oracles on the repository's own tests
# (PFHEDGE_VERIF_CALLS = comma separated families): every call of a public entry point whose meaning the specifications
# define is recorded WITH its arguments and its result; the owning check judges each record with the reference that is bound
# to the TLA+ module (PnL.tla / Payoff.tla / Grid.tla / Clamp.tla).  Nothing is judged here.
CALLS = [c for c in os.environ.get("PFHEDGE_VERIF_CALLS", "").split(",") if c]
_calls: List[Dict[str, Any]] = []
_per_test: Dict[Any, int] = {}
MAX_NUMEL = 4000
MAX_PER_TEST = 12


def _enc(x: Any) -> Any:
    if isinstance(x, torch.Tensor):
        if x.is_complex():
            return {"t": "complex", "s": list(x.shape), "big": True}
        shape, n0 = list(x.shape), (x.shape[0] if x.dim() else 1)
        if x.numel() > MAX_NUMEL:
            # the leading dimension indexes independent paths in every recorded family: keep the first rows only
            if x.dim() < 2 or x.numel() // x.shape[0] > MAX_NUMEL:
                return {"t": _dt(x.dtype), "s": shape, "big": True}
            n0 = max(1, MAX_NUMEL // (x.numel() // x.shape[0]))
            x = x[:n0]
        if x.dtype == torch.bool:
            return {"t": "bool", "s": shape, "n0": n0, "v": x.detach().flatten().tolist()}
        return {"t": _dt(x.dtype) if x.dtype.is_floating_point else "int", "s": shape, "n0": n0, "v": x.detach().double().flatten().tolist()}
    if isinstance(x, (bool, int, float, str)) or x is None:
        return x
    if isinstance(x, (list, tuple)):
        return [_enc(y) for y in x]
    if isinstance(x, dict):
        return {str(k): _enc(v) for k, v in x.items()}
    return {"repr": repr(x)[:80]}


def _record(family: str, fn: str, args: Dict[str, Any], out: Any, error: Any = None) -> None:
    test = _state["test"]
    if test is None:
        return
    k = (test, family, fn)
    _per_test[k] = _per_test.get(k, 0) + 1
    if _per_test[k] > MAX_PER_TEST:
        return
    try:
        _calls.append({"family": family, "fn": fn, "test": test, "args": {n: _enc(v) for n, v in args.items()}, "out": _enc(out), "error": error})
    except Exception as e:          # the recorder must never disturb the test
        _calls.append({"family": family, "fn": fn, "test": test, "unencodable": repr(e)[:100]})


def _rebind(module_attr_name: str, orig: Any, new: Any) -> None:
    """`from pfhedge.nn.functional import pl` in library modules bound the original before the plugin ran."""
    import sys
    for m in list(sys.modules.values()):
        if m is not None and getattr(m, "__name__", "").startswith("pfhedge") and getattr(m, module_attr_name, None) is orig:
            setattr(m, module_attr_name, new)


def _install_oracles() -> None:
    import inspect
    import pfhedge.nn.functional as F
    import pfhedge.instruments as inst
    from pfhedge.instruments import BaseDerivative

    def wrap_function(family: str, name: str) -> None:
        orig = getattr(F, name)
        sig = inspect.signature(orig)

        @functools.wraps(orig)
        def wrapper(*a, **k):
            try:
                bound = sig.bind(*a, **k)
                bound.apply_defaults()
                args = {n: (v.clone() if isinstance(v, torch.Tensor) else v) for n, v in bound.arguments.items()}
            except Exception:
                return orig(*a, **k)
            try:
                out = orig(*a, **k)
            except Exception as e:
                _record(family, name, args, None, type(e).__name__)
                raise
            _record(family, name, args, out)
            return out
        setattr(F, name, wrapper)
        _rebind(name, orig, wrapper)

    if "pl" in CALLS:
        wrap_function("pl", "pl")
    if "clamp" in CALLS:
        wrap_function("clamp", "clamp")
        wrap_function("clamp", "leaky_clamp")
    if "payoff" in CALLS:
        for name in ("european_payoff", "lookback_payoff", "american_binary_payoff", "european_binary_payoff", "european_forward_start_payoff"):
            wrap_function("payoff", name)
        for cname in dir(inst):
            cls = getattr(inst, cname)
            if isinstance(cls, type) and issubclass(cls, BaseDerivative) and "payoff_fn" in cls.__dict__:
                orig = cls.__dict__["payoff_fn"]

                def payoff_fn(self, __orig=orig, __cname=cname):
                    out = __orig(self)
                    try:
                        ul = self.ul()
                        attrs = {a: getattr(self, a) for a in ("strike", "call", "maturity", "start") if hasattr(self, a)}
                        _record("payoff", "class:" + __cname, {"spot": ul.spot.clone(), "dt": ul.dt, **attrs}, out)
                    except Exception:
                        pass
                    return out
                cls.payoff_fn = payoff_fn
    if "grid" in CALLS:
        orig_sim = BaseDerivative.simulate

        def simulate(self, *a, **k):
            out = orig_sim(self, *a, **k)
            try:
                shapes = {}
                for uname, u in self.named_underliers():
                    for bname, b in u.named_buffers():
                        shapes[f"{uname}.{bname}"] = list(b.shape)
                _record("grid", "simulate:" + type(self).__name__, {"maturity": getattr(self, "maturity", None), "dts": [u.dt for u in self.underliers()],
                                                                     "n_paths": k.get("n_paths", a[0] if a else 1), "shapes": shapes, "prims": [type(u).__name__ for u in self.underliers()],
                                                                     # (tests replace a primary's simulate by a stub to inject their own series: not a simulation)
                                                                     "sim_from": [getattr(type(u).simulate, "__module__", "?") for u in self.underliers()]}, None)
            except Exception:
                pass
            return out
        BaseDerivative.simulate = simulate
        for sub in _all_subclasses(BaseDerivative):
            if "simulate" in sub.__dict__:
                sub.simulate = simulate


def _all_subclasses(cls):
    for sub in cls.__subclasses__():
        yield sub
        yield from _all_subclasses(sub)


def pytest_configure(config):
    if OUT:
        import pfhedge.features  # noqa: F401  (registers the feature classes)
        import pfhedge.nn  # noqa: F401
        if CALLS:
            _install_oracles()
        _install()


def pytest_runtest_setup(item):
    _state["test"] = item.nodeid


def pytest_runtest_teardown(item):
    _state["test"] = None


def pytest_sessionfinish(session, exitstatus):
    if not OUT:
        return
    streams = [{"cls": s["cls"], "test": s["test"], "init": s["init"], "events": s["events"]} for s in _state["live"] if s["init"] is not None and s["events"]]
    with open(OUT, "w") as f:
        json.dump({"dtype_streams": streams, "purity": _state["purity"], "calls": _calls}, f)
