"""Test doubles that use only pfhedge's public extension points (no source hooks).

ScriptedPrimary   BasePrimary subclass whose simulate() registers the next scripted buffers
DecodeLinear      torch module: integer-weight Linear (+ReLU); columns of logarithmic features are
                  decoded to units of ln 2 before the affine map; records every input it is given
RecordingSGD      torch.optim.SGD that logs zero_grad/step
build_market      real instruments with injected buffers for a Hedge.tla configuration
"""
from __future__ import annotations

import math
from fractions import Fraction
from typing import Any, Dict, List, Optional, Sequence, Tuple

import torch
from torch import Tensor

from pfhedge.instruments import BasePrimary

LN2 = math.log(2.0)
LOG_FEATURES = {"log_moneyness", "max_log_moneyness", "underlier_log_spot", "log_spot"}


def fr(x: Any) -> Fraction:
    """spec rational [n, d] (or int) -> Fraction"""
    if isinstance(x, (list, tuple)):
        return Fraction(x[0], x[1])
    return Fraction(x)


def frf(x: Any) -> float:
    return float(fr(x))


class ScriptedPrimary(BasePrimary):
    """A primary instrument whose 'simulation' replays scripted buffers.

    script: list of dicts name -> Tensor (n_paths, n_steps); simulate() consumes one entry per call
    (cycling) and records (n_paths, time_horizon, init_state)."""

    def __init__(self, script: List[Dict[str, Tensor]], cost: float = 0.0, dt: float = 0.25,
                 dtype: Optional[torch.dtype] = None, device: Optional[torch.device] = None) -> None:
        super().__init__()
        self.script = script
        self.cost = cost
        self.dt = dt
        self.calls: List[Dict[str, Any]] = []
        self.pos = 0
        self.to(dtype=dtype, device=device)

    @property
    def default_init_state(self) -> Tuple[float, ...]:
        return (1.0,)

    @property
    def volatility(self) -> Tensor:
        return self.get_buffer("variance").clamp(min=0.0).sqrt()

    def simulate(self, n_paths: int = 1, time_horizon: float = 1.0, init_state: Any = None) -> None:
        entry = self.script[self.pos % len(self.script)]
        self.pos += 1
        self.calls.append({"n_paths": n_paths, "time_horizon": time_horizon, "init_state": init_state})
        for name, t in entry.items():
            self.register_buffer(name, t.clone())


class DecodeLinear(torch.nn.Module):
    """y = [relu](W . decode(x) + b); decode divides logarithmic columns by ln 2 and rounds."""

    def __init__(self, W: Sequence[Sequence[float]], B: Sequence[float], relu: bool, log_cols: Sequence[int],
                 dtype: torch.dtype = torch.float64, record: bool = True) -> None:
        super().__init__()
        self.lin = torch.nn.Linear(len(W[0]), len(W), dtype=dtype)
        with torch.no_grad():
            self.lin.weight.copy_(torch.tensor(W, dtype=dtype))
            self.lin.bias.copy_(torch.tensor(B, dtype=dtype))
        self.relu = relu
        self.log_cols = list(log_cols)
        self.record = record
        self.seen: List[Dict[str, Any]] = []

    def decode(self, x: Tensor) -> Tensor:
        if not self.log_cols:
            return x
        cols = []
        for c in range(x.size(-1)):
            col = x[..., c]
            if c in self.log_cols:
                col = (col / LN2).round()
            cols.append(col)
        return torch.stack(cols, dim=-1)

    def forward(self, x: Tensor) -> Tensor:
        z = self.decode(x)
        if self.record:
            self.seen.append({"input": z.detach().clone(), "training": self.training,
                              "grad": torch.is_grad_enabled()})
        y = self.lin(z)
        return torch.relu(y) if self.relu else y


class RecordingSGD(torch.optim.SGD):
    """SGD that logs protocol events into `log` (a list shared with the recorder)."""

    def __init__(self, params: Any, lr: float = 2.0 ** -6, log: Optional[List[Any]] = None, **kw: Any) -> None:
        super().__init__(params, lr=lr, **kw)
        self.log = log if log is not None else []

    def _flat(self, what: str) -> List[float]:
        out: List[float] = []
        for g in self.param_groups:
            for p in g["params"]:
                t = p if what == "p" else p.grad
                out += [float("nan")] * p.numel() if t is None else t.detach().flatten().tolist()
        return out

    def zero_grad(self, set_to_none: bool = True) -> None:  # type: ignore[override]
        super().zero_grad(set_to_none=set_to_none)
        self.log.append({"op": "ZeroGrad"})

    def step(self, closure: Any = None) -> Any:  # type: ignore[override]
        before = self._flat("p")
        grad = self._flat("g")
        out = super().step(closure)
        self.log.append({"op": "OptStep", "grad": grad, "before": before, "after": self._flat("p")})
        return out


# ---------------------------------------------------------------------------------------------
def make_feature(name: str, H: int, dtype: torch.dtype) -> Any:
    from pfhedge import features as ft
    from pfhedge.features.features import UnderlierLogSpot

    if name == "ones":
        return ft.Ones()
    if name == "underlier_log_spot":
        return UnderlierLogSpot()
    if name == "log_spot":
        return ft.Spot(log=True)
    if name.startswith("barrier_"):
        _, d, th = name.split("_")
        return ft.Barrier(float(th), up=(d == "up"))
    if name == "module_a":
        lin = torch.nn.Linear(2, 1, dtype=dtype)
        with torch.no_grad():
            lin.weight.copy_(torch.tensor([[2.0, -1.0]], dtype=dtype))
            lin.bias.copy_(torch.tensor([1.0], dtype=dtype))
        return ft.ModuleOutput(lin, [ft.Moneyness(), ft.TimeToMaturity()])
    if name == "module_prev":
        lin = torch.nn.Linear(H + 1, 1, dtype=dtype)
        with torch.no_grad():
            lin.weight.copy_(torch.ones(1, H + 1, dtype=dtype))
            lin.bias.zero_()
        return ft.ModuleOutput(lin, [ft.PrevHedge(), ft.Variance()])
    if name == "peek_max":          # harness-only: deliberately anticipating feature (binding self-test)
        from pfhedge.features._base import StateIndependentFeature

        class PeekMax(StateIndependentFeature):
            name = "peek_max"

            def get(self, time_step=None):
                spot = self.derivative.ul().spot
                mx = spot.max(dim=-1, keepdim=True).values
                out = mx.expand_as(spot) if time_step is None else mx
                return out.unsqueeze(-1)
        return PeekMax()
    if name == "lagging_moneyness":  # harness-only: single-step form lags by one column (binding self-test)
        from pfhedge.features._base import StateIndependentFeature

        class Lagging(StateIndependentFeature):
            name = "lagging_moneyness"

            def get(self, time_step=None):
                spot = self.derivative.ul().spot
                if time_step is None:
                    return spot.unsqueeze(-1)
                return spot[:, [max(time_step - 1, 0)]].unsqueeze(-1)
        return Lagging()
    return name  # registered by name


def feature_columns(feats: Sequence[str], H: int) -> List[str]:
    cols: List[str] = []
    for f in feats:
        cols += [f] * (H if f == "prev_hedge" else 1)
    return cols


def build_market(cfg: Dict[str, Any], paths: List[Dict[str, Any]], K: float, dt: float, dtype: torch.dtype,
                 scripted: bool = False):
    """Real instruments carrying the given paths. Returns (derivative, hedge_list, stocks)."""
    from pfhedge.instruments import BrownianStock, EuropeanOption, HestonStock

    H = len(cfg["W"])
    T = len(paths[0]["spot"])
    cost = cfg["cost"] if cfg["cost"] else [0.0] * H
    spot = torch.tensor([p["spot"] for p in paths], dtype=dtype)
    var = torch.tensor([p["var"] for p in paths], dtype=dtype)
    if scripted:
        stock = ScriptedPrimary([{"spot": spot, "variance": var}], cost=float(cost[0]), dt=dt, dtype=dtype)
        stock.simulate(n_paths=len(paths), time_horizon=(T - 1) * dt)
    else:
        stock = HestonStock(cost=float(cost[0]), dt=dt, dtype=dtype)
        stock.register_buffer("spot", spot)
        stock.register_buffer("variance", var)
    deriv = EuropeanOption(stock, call=cfg["call"], strike=K, maturity=(T - 1) * dt)
    if cfg.get("clause") == "double_plus_one":
        deriv.add_clause("double_plus_one", lambda d, payoff: 2 * payoff + 1)
    if any(f in ("spot", "log_spot") for f in cfg["feats"]):
        deriv.list(lambda d: 4 * d.ul().spot)
    hedge: List[Any] = [stock]
    stocks = [stock]
    if H == 2:
        s2 = BrownianStock(dt=dt, dtype=dtype)
        s2.register_buffer("spot", torch.tensor([p["spot2"] for p in paths], dtype=dtype))
        inst2 = EuropeanOption(s2, strike=1.0, maturity=(T - 1) * dt)
        inst2.list(lambda d: d.ul().spot, cost=float(cost[1]))
        hedge.append(inst2)
        stocks.append(s2)
    return deriv, hedge, stocks


def build_hedger(cfg: Dict[str, Any], dtype: torch.dtype, criterion: Any = None, force_step: bool = False):
    from pfhedge.nn import Hedger
    from pfhedge import features as ft

    H = len(cfg["W"])
    feats = list(cfg["feats"])
    W = [list(map(float, w)) for w in cfg["W"]]
    if force_step:
        feats = feats + ["prev_hedge"]
        W = [w + [0.0] * H for w in W]
    cols = feature_columns(feats, H)
    log_cols = [i for i, c in enumerate(cols) if c in LOG_FEATURES]
    model = DecodeLinear(W, [float(b) for b in cfg["B"]], cfg["kind"] == "relu", log_cols, dtype=dtype)
    inputs = [make_feature(f, H, dtype) for f in feats]
    kw = {} if criterion is None else {"criterion": criterion}
    hedger = Hedger(model, inputs, **kw)
    return hedger, model
