"""Check context: TLC bookkeeping, violation/known-finding handling, evidence, exit codes.

exit 0  property held on everything explored (KNOWN-FINDING lines allowed)
exit 1  at least one violation not listed in known_findings.json (VIOLATION line printed)
exit 2  machinery failure (never a verdict about the property)
"""
from __future__ import annotations

import json
import os
import shutil
import subprocess
import sys
import time
import traceback
from fractions import Fraction
from pathlib import Path
from typing import Any, Callable, Dict, List, Optional

from . import tlc as tlcmod
from .tlc import MachineryError, TLCResult, VERIF, WORK

_OUT = Path(os.environ["VERIF_SCRATCH"]) if os.environ.get("VERIF_SCRATCH") else VERIF
EVIDENCE = _OUT / "evidence"
REPLAYS = _OUT / "replays"
FINDINGS = VERIF / "known_findings.json"


def jsonable(x: Any) -> Any:
    if isinstance(x, Fraction):
        return [x.numerator, x.denominator]
    if isinstance(x, (list, tuple)):
        return [jsonable(v) for v in x]
    if isinstance(x, dict):
        return {str(k): jsonable(v) for k, v in x.items()}
    if isinstance(x, (str, int, float, bool)) or x is None:
        return x
    try:
        import torch
        if isinstance(x, torch.Tensor):
            return x.detach().cpu().tolist()
        if isinstance(x, torch.dtype):
            return str(x)
    except Exception:
        pass
    return repr(x)


class Ctx:
    def __init__(self, pid: str, tier: str, seed: int, level: str = "model_checking") -> None:
        self.pid = pid
        self.tier = tier
        self.seed = seed
        self.level = level
        self.t0 = time.time()
        self.tlc_runs: List[TLCResult] = []
        self.evaluations = 0
        self.distinct: set = set()
        self.distinct_count_extra = 0
        self.traces_validated = 0
        self.samples: List[Any] = []
        self.violations: List[Dict[str, Any]] = []
        self.known_hits: Dict[str, int] = {}
        self._per_key: Dict[str, int] = {}
        self.sections: Dict[str, Any] = {}
        self.assumptions: List[str] = []
        self.rule = ""
        self.exhaustive = False
        self.selftests: List[Dict[str, Any]] = []
        self.skipped: Dict[str, int] = {}
        self.work = WORK / pid
        if self.work.exists():
            shutil.rmtree(self.work, ignore_errors=True)
        self.work.mkdir(parents=True, exist_ok=True)
        self.replay_dir = REPLAYS / pid
        if self.replay_dir.exists():
            shutil.rmtree(self.replay_dir, ignore_errors=True)
        self.findings = self._load_findings()

    # ------------------------------------------------------------------ findings
    def _load_findings(self) -> List[Dict[str, Any]]:
        if not FINDINGS.exists():
            return []
        data = json.loads(FINDINGS.read_text())
        return [f for f in data.get("findings", []) if f.get("property") == self.pid and f.get("status") == "open"]

    # ------------------------------------------------------------------ TLC
    def tlc(self, module: str, cfg: str, **kw: Any) -> TLCResult:
        kw.setdefault("tag", self.pid)
        res = tlcmod.run_tlc(module, cfg, **kw)
        self.tlc_runs.append(res)
        if not res.ok:
            # The specification is independent of /repo: a violated invariant here is a defect of
            # the design model itself and is reported as machinery failure, not as a verdict.
            raise MachineryError(
                f"TLC reports {res.violated} violated in {module}/{cfg} - the specification itself is "
                f"inconsistent:\n{res.error_trace[:3000]}")
        return res

    # ------------------------------------------------------------------ counting
    def count(self, key: Any = None, n: int = 1) -> None:
        self.evaluations += n
        if key is not None:
            self.distinct.add(key)

    def sample(self, s: Any, cap: int = 6) -> None:
        if len(self.samples) < cap:
            self.samples.append(jsonable(s))

    def skip(self, why: str, n: int = 1) -> None:
        self.skipped[why] = self.skipped.get(why, 0) + n

    # ------------------------------------------------------------------ violations
    def violation(self, key: str, what: str, detail: Any = None) -> None:
        """key identifies the failing input class / call site (matched against known findings)."""
        for f in self.findings:
            if f["key"] == key:
                self.known_hits[key] = self.known_hits.get(key, 0) + 1
                return
        self._per_key[key] = self._per_key.get(key, 0) + 1
        if self._per_key[key] <= 20:
            self.violations.append({"key": key, "what": what, "detail": jsonable(detail)})
        else:
            self.violations.append({"key": key, "what": what})

    def selftest(self, name: str, rejected: bool, note: str = "") -> None:
        """Binding demonstration: a deliberately corrupted record/trace must be rejected."""
        self.selftests.append({"name": name, "rejected": bool(rejected), "note": note})
        # judged in finish(): a failing self-test is a machinery failure unless genuine violations were found
        # (a defective library may also break the machinery the self-test drives)

    # ------------------------------------------------------------------ finish
    def finish(self) -> int:
        wall = time.time() - self.t0
        states = sum(r.distinct for r in self.tlc_runs)
        transitions = sum(r.transitions for r in self.tlc_runs)
        nviol = len(self.violations)
        failed = [t["name"] for t in self.selftests if not t["rejected"]]
        if failed and nviol == 0:
            raise MachineryError(f"binding self-test(s) not rejected - the check would be vacuous: {failed}")
        replay_paths: List[str] = []
        if nviol:
            self.replay_dir.mkdir(parents=True, exist_ok=True)
            by_key: Dict[str, List[Dict[str, Any]]] = {}
            for v in self.violations:
                by_key.setdefault(v["key"], []).append(v)
            for i, (k, vs) in enumerate(sorted(by_key.items())):
                p = self.replay_dir / f"{self.tier}_{i:02d}.json"
                p.write_text(json.dumps({"property": self.pid, "key": k, "count": len(vs), "tier": self.tier,
                                         "seed": self.seed, "cases": vs[:20]}, indent=1))
                replay_paths.append(str(p))
        cov: Dict[str, Any] = {
            "states": max(states, 0),
            "transitions": max(transitions, 0),
            "traces_validated_against_impl": self.traces_validated,
            "samples": self.samples if self.samples else [{"note": "no sample recorded"}],
            "evaluations": self.evaluations,
            "distinct_nontrivial": len(self.distinct) + self.distinct_count_extra,
            "rule": self.rule,
            "exhaustive": self.exhaustive,
            "tlc_runs": [r.summary() for r in self.tlc_runs],
            "binding_selftests": self.selftests,
            "skipped": self.skipped,
            "known_findings_observed": self.known_hits,
            "trusted_base": ["TLC 1.8 (tla2tools)", "torch elementary kernels", "harness abstraction functions in /verif/checks"],
        }
        cov.update(self.sections)
        ev = {
            "property_id": self.pid, "tier": self.tier, "seed": self.seed, "level": self.level,
            "coverage": cov, "assumptions": self.assumptions, "wall_s": round(wall, 2),
            "violations": nviol,
        }
        EVIDENCE.mkdir(exist_ok=True)
        (EVIDENCE / f"{self.pid}.json").write_text(json.dumps(jsonable(ev), indent=1) + "\n")
        for f in self.findings:
            hits = self.known_hits.get(f["key"], 0)
            tail = f"(reproduced on {hits} case(s) in this run)" if hits else "(not exercised in this tier)"
            print(f"KNOWN-FINDING: property={self.pid} {f['what']} {tail}")
        # wipe scratch except replay files
        shutil.rmtree(self.work, ignore_errors=True)
        if nviol:
            keys = sorted({v['key'] for v in self.violations})
            for k, p in zip(keys, replay_paths):
                n = sum(1 for v in self.violations if v["key"] == k)
                first = next(v for v in self.violations if v["key"] == k)
                print(f"VIOLATION property={self.pid} replay={p}   [{k}] x{n}: {first['what']}")
            print(f"{self.pid} {self.tier}: {nviol} violation(s) in {self.evaluations} evaluations, {wall:.1f}s")
            return 1
        print(f"{self.pid} {self.tier}: OK  states={states} transitions={transitions} "
              f"evaluations={self.evaluations} distinct={cov['distinct_nontrivial']} "
              f"traces={self.traces_validated} {wall:.1f}s")
        return 0


def run_check(pid: str, fn: Callable[[Ctx], None], argv: Optional[List[str]] = None, level: str = "model_checking") -> int:
    import argparse
    ap = argparse.ArgumentParser()
    ap.add_argument("--tier", default=os.environ.get("VERIF_TIER", "quick"), choices=["quick", "thorough"])
    ap.add_argument("--seed", type=int, default=int(os.environ.get("VERIF_SEED", "0") or 0))
    ap.add_argument("--replay", default=None)
    args = ap.parse_args(argv)
    try:
        ctx = Ctx(pid, args.tier, args.seed, level=level)
        if args.replay:
            ctx.sections["replay_of"] = args.replay
        fn(ctx)
        return ctx.finish()
    except MachineryError as e:
        print(f"MACHINERY-FAILURE property={pid}: {e}", file=sys.stderr)
        return 2
    except Exception as e:
        # an exception raised inside pfhedge itself on an input the specification accepts is a violation,
        # an exception of the harness is a machinery failure
        frames = traceback.extract_tb(e.__traceback__)
        # attributed to the library when pfhedge code is on the stack below the harness: either pfhedge itself raised, or it
        # called a user-supplied double (model, primary, optimiser) with arguments the double cannot accept
        first_verif = min([i for i, f in enumerate(frames) if str(VERIF) + "/" in f.filename] or [len(frames)])
        repo = os.environ.get("VERIF_REPO", "/repo").rstrip("/") + "/pfhedge/"
        if any(repo in f.filename for f in frames[first_verif + 1:]):
            where = next((f"{f.filename}:{f.lineno}" for f in reversed(frames) if repo in f.filename), "?")
            ctx.violation(f"library-exception:{type(e).__name__}", f"pfhedge raised {type(e).__name__} at {where} on an input the specification accepts",
                          {"error": repr(e)[:300], "traceback": traceback.format_exc()[-1500:]})
            try:
                return ctx.finish()
            except MachineryError as e2:
                print(f"MACHINERY-FAILURE property={pid}: {e2}", file=sys.stderr)
                return 2
        print(f"MACHINERY-FAILURE property={pid}: unexpected exception in the harness", file=sys.stderr)
        traceback.print_exc()
        return 2
