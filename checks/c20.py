"""C20 - clamps, the Whalley-Wilmott band and small helpers follow their formulas.

Clamp.tla: case analysis of the property (inside / below / above / one-sided / inverted bounds with both modes) as the
reference, the max-min-where pipeline as the implementation-shaped layer, PipelineIsCases as invariant.  WW.tla: band
step, width relation 2 a w^3 = 3 c Gamma^2 S over integer tuples, SVI on Pythagorean pairs, bilinear interpolation with
dyadic weights, Box-Muller at u1 = 2^-j, u2 in quarters.  TLC enumerates all lattice cases; the harness replays them into
clamp / leaky_clamp / Clamp / LeakyClamp (functions and modules, both modes, scalar and tensor bounds), into
WhalleyWilmott with a scripted Black-Scholes stub (band logic and width exactly) and with the real Black-Scholes module
(relationally), and into the helper functions.
"""
from __future__ import annotations

import json
import math
from collections import defaultdict
from typing import Any, Dict, List

import torch

from lib.core import Ctx, run_check
from lib.doubles import LN2, fr, frf
from lib.tlc import MachineryError


def opt(b: Any, like: torch.Tensor, form: str):
    if b == []:
        return None
    v = frf(b)
    if form == "number":
        return v                      # plain Python number
    if form == "int":                 # a Python integer where the bound is integral
        return int(v) if float(v).is_integer() else v
    return torch.full_like(like, v) if form == "tensor" else torch.tensor(v, dtype=like.dtype)


def replay_clamp(ctx: Ctx, recs: List[Dict[str, Any]]) -> None:
    import pfhedge.nn.functional as F
    from pfhedge.nn import Clamp, LeakyClamp
    groups: Dict[str, List[Dict[str, Any]]] = defaultdict(list)
    for r in recs:
        groups[json.dumps([r["lo"], r["hi"], r["slope"], r["mode"]])].append(r)
    for gk, rs in groups.items():
        r0 = rs[0]
        lo, hi, slope, mode = r0["lo"], r0["hi"], frf(r0["slope"]), r0["mode"]
        inverted = lo != [] and hi != [] and fr(hi) < fr(lo)
        if lo == [] and hi == []:
            ctx.skip("no bound at all (min=None, max=None): outside the property's quantifier (one-sided bounds are covered)", len(rs))
            continue
        for dtype in (torch.float64, torch.float32):
            x = torch.tensor([frf(r["x"]) for r in rs], dtype=dtype)
            exp_leaky = torch.tensor([frf(r["leaky"]) for r in rs], dtype=dtype)
            exp_clamp = torch.tensor([frf(r["clamp"]) for r in rs], dtype=dtype)
            for as_tensor in ("scalar-tensor", "tensor", "number", "int"):
                l, h = opt(lo, x, as_tensor), opt(hi, x, as_tensor)
                calls = [("leaky_clamp", lambda: F.leaky_clamp(x, l, h, clamped_slope=slope, inverted_output=mode), exp_leaky),
                         ("LeakyClamp", lambda: _module(LeakyClamp, ctx, "LeakyClamp", {"clamped_slope": slope, "inverted_output": mode})(x, l, h), exp_leaky)]
                if slope == 0.0:
                    calls += [("clamp", lambda: F.clamp(x, l, h, inverted_output=mode), exp_clamp),
                              ("Clamp", lambda: _module(Clamp, ctx, "Clamp", {"inverted_output": mode})(x, l, h), exp_clamp),
                              ("leaky_clamp(slope=0)", lambda: F.leaky_clamp(x, l, h, clamped_slope=0.0, inverted_output=mode), exp_clamp)]
                if mode == "mean":
                    calls.append(("leaky_clamp default mode", lambda: F.leaky_clamp(x, l, h, clamped_slope=slope), exp_leaky))
                    calls.append(("LeakyClamp default mode", lambda: LeakyClamp(slope)(x, l, h), exp_leaky))
                    if slope == 0.0:
                        calls.append(("clamp default mode", lambda: F.clamp(x, l, h), exp_clamp))
                        calls.append(("Clamp default mode", lambda: Clamp()(x, l, h), exp_clamp))
                for name, call, exp in calls:
                    fam = name.split(" ")[0].split("(")[0]
                    try:
                        got = call()
                    except _NoOption as e:
                        key = f"{fam}:no-inverted-output-option"
                        ctx.violation(key, f"{fam} module does not accept the inverted_output option ({e})", {"mode": mode})
                        continue
                    except Exception as e:
                        ctx.violation(f"{fam}:raises", f"{name} raised {type(e).__name__}", {"lo": lo, "hi": hi, "slope": slope, "mode": mode, "error": repr(e)[:200]})
                        continue
                    ctx.count(n=len(rs))
                    if got.shape != exp.shape or not torch.equal(got, exp):
                        bad = (got != exp).nonzero().flatten().tolist() if got.shape == exp.shape else [0]
                        i = bad[0]
                        kind = "inverted-bounds" if inverted else "value"
                        if inverted and fam in ("LeakyClamp", "Clamp") and mode == "max":
                            kind = "module-ignores-inverted-output"
                        ctx.violation(f"{fam}:{kind}", f"{name} differs from the documented cases", {"x": rs[i]["x"], "lo": lo, "hi": hi, "slope": slope, "mode": mode,
                                      "tensor_bounds": as_tensor, "expected": exp[i].item(), "observed": got.flatten()[i].item() if got.numel() > i else None})


class _NoOption(Exception):
    pass


def clamp_double_precision(ctx: Ctx) -> None:
    """Bounds that single precision cannot represent (0.1, 1.3, -0.7), given as Python numbers, 0-dim float64 tensors and full
    float64 tensors, on float64 inputs: outside the interval the result is THE BOUND (the double 0.1, not its float32
    rounding), inside it the input; inverted bounds give the mean / the upper bound - function and module forms, both modes."""
    import pfhedge.nn.functional as F
    from pfhedge.nn import Clamp, LeakyClamp
    dtype = torch.float64
    # (inputs far outside the interval too: the value there is the bound itself, not the input minus a rounded difference)
    x = torch.tensor([-2.0, 0.05, 0.1, 0.7, 1.3, 1.31, 5.0, -1e6, 1e6, -1e12, 1e12], dtype=dtype)
    for lo, hi in ((0.1, 1.3), (-0.7, 0.3), (0.1, None), (None, 1.3), (1.3, 0.1)):
        for slope in (0.0, 0.01):
            for mode in ("mean", "max"):
                exp = []
                for v in x.tolist():
                    if lo is not None and hi is not None and lo > hi:
                        e = hi if mode == "max" else (lo + hi) / 2
                    elif lo is not None and v < lo:
                        e = lo + slope * (v - lo)
                    elif hi is not None and v > hi:
                        e = hi + slope * (v - hi)
                    else:
                        e = v
                    exp.append(e)
                want = torch.tensor(exp, dtype=dtype)
                for spelling in ("number", "0-dim tensor", "tensor"):
                    def b(v):
                        if v is None:
                            return None
                        return v if spelling == "number" else (torch.tensor(v, dtype=dtype) if spelling == "0-dim tensor" else torch.full_like(x, v))
                    calls = [("leaky_clamp", lambda: F.leaky_clamp(x.clone(), b(lo), b(hi), clamped_slope=slope, inverted_output=mode)),
                             ("LeakyClamp", lambda: LeakyClamp(clamped_slope=slope, inverted_output=mode)(x.clone(), b(lo), b(hi)))]
                    if slope == 0.0:
                        calls += [("clamp", lambda: F.clamp(x.clone(), b(lo), b(hi), inverted_output=mode)), ("Clamp", lambda: Clamp(inverted_output=mode)(x.clone(), b(lo), b(hi)))]
                    for name, call in calls:
                        ctx.count(n=len(exp))
                        try:
                            got = call()
                        except Exception as e:
                            ctx.violation(f"clamp:{name}:raises", f"{name} raised {type(e).__name__} for bounds ({lo}, {hi}) given as {spelling}", {"error": repr(e)[:200]})
                            continue
                        if got.dtype != dtype or not bool(((got - want).abs() <= 1e-15 * (1 + want.abs())).all()):
                            i = int(((got - want).abs() > 1e-15 * (1 + want.abs())).nonzero()[0]) if got.shape == want.shape else 0
                            ctx.violation(f"clamp:{name}:double-precision", f"{name} on float64 inputs with bounds ({lo}, {hi}) given as {spelling}: not the documented value to double precision "
                                          "(the bound itself outside the interval)", {"input": x[i].item(), "min": lo, "max": hi, "slope": slope, "mode": mode, "spelling": spelling,
                                                                                  "expected": want[i].item(), "observed": got.flatten()[i].item()})


def ww_at_gamma_singularity(ctx: Ctx) -> None:
    """Exactly at the money at expiry (or with zero volatility) the Black-Scholes gamma is infinite and so is the half-width of
    the no-transaction band for any positive cost: the previous hedge lies inside the band and is kept, whatever it is."""
    from pfhedge.instruments import BrownianStock, EuropeanOption
    from pfhedge.nn import WhalleyWilmott
    for dtype in (torch.float64, torch.float32):
        for cost in (1e-3, 1e-1):
            d = EuropeanOption(BrownianStock(cost=cost, dtype=dtype), strike=1.0)
            m = WhalleyWilmott(d)
            names = [str(f) for f in m.inputs()]
            for t, v in ((0.0, 0.2), (0.25, 0.0), (0.0, 0.0)):
                prev = torch.tensor([-0.75, 0.0, 0.3, 1.0, 2.5], dtype=dtype)
                cols = {"log_moneyness": torch.zeros_like(prev), "time_to_maturity": torch.full_like(prev, t), "expiry_time": torch.full_like(prev, t),
                        "volatility": torch.full_like(prev, v), "prev_hedge": prev}
                try:
                    x = torch.stack([cols[n] for n in names], dim=-1).unsqueeze(1)           # (N, 1, F)
                    out = m(x).reshape(-1)
                except Exception as e:
                    ctx.violation("ww:gamma-singularity:raises", f"WhalleyWilmott raised {type(e).__name__} at the money at expiry / zero volatility", {"error": repr(e)[:200]})
                    continue
                ctx.count(("ww-singular", str(dtype), cost, t, v), n=len(prev))
                # ... and WITHOUT transaction cost the band has no width there either: the strategy is the Black-Scholes delta hedge
                d0 = EuropeanOption(BrownianStock(cost=0.0, dtype=dtype), strike=1.0)
                m0 = WhalleyWilmott(d0)
                try:
                    out0 = m0(x).reshape(-1)
                    delta0 = m0.bs(x[..., :-1]).reshape(-1)
                except Exception as e:
                    ctx.violation("ww:gamma-singularity:raises", f"WhalleyWilmott (zero cost) raised {type(e).__name__} at the money at expiry / zero volatility", {"error": repr(e)[:200]})
                else:
                    if not torch.equal(out0, delta0) or bool(out0.isnan().any()):
                        ctx.violation("ww:zero-cost:gamma-singularity", "WhalleyWilmott with zero cost is not the Black-Scholes delta hedge at the money at expiry / zero volatility (where gamma is infinite)",
                                      {"dtype": str(dtype), "time_to_maturity": t, "volatility": v, "output": out0.tolist(), "black_scholes_delta": delta0.tolist()})
                if not torch.equal(out, prev):
                    ctx.violation("ww:gamma-singularity", "WhalleyWilmott does not keep the previous hedge where the band is infinitely wide (at the money at expiry / zero volatility, positive cost)",
                                  {"dtype": str(dtype), "cost": cost, "time_to_maturity": t, "volatility": v, "previous": prev.tolist(), "output": out.tolist()})


def reconfigured_modules(ctx: Ctx) -> None:
    """Long-lived helper modules whose public attributes are re-assigned after they were used: the module behaves like a freshly
    built one with the attributes it REPORTS - Clamp / LeakyClamp after valid re-assignments of `inverted_output` and after an
    assignment that was rejected with an error; SVIVariance after each of its five parameters was re-assigned (number or tensor)."""
    from pfhedge.nn import Clamp, LeakyClamp, SVIVariance
    dtype = torch.float64
    x = torch.tensor([-1.0, 0.25, 0.5, 2.0], dtype=dtype)
    lo, hi = torch.tensor(0.75, dtype=dtype), torch.tensor(0.125, dtype=dtype)         # inverted bounds
    for cls, kw in ((Clamp, {}), (LeakyClamp, {"clamped_slope": 0.125})):
        for start in ("mean", "max"):
            try:
                m = cls(inverted_output=start, **kw)
            except TypeError:
                ctx.skip(f"{cls.__name__} does not take the inverted_output option")
                continue
            m(x, hi, lo); m(x, lo, hi)
            for value in ("max", "mean", "maximum", "mean", "max", None, "max"):
                try:
                    m.inverted_output = value
                except (ValueError, TypeError):
                    pass
                reported = m.inverted_output
                if reported not in ("mean", "max"):                      # an invalid value that was accepted: put a valid one back
                    m.inverted_output = start
                    reported = m.inverted_output
                fresh = cls(inverted_output=reported, **kw)
                for a_, b_ in ((lo, hi), (hi, lo)):
                    try:
                        got, want = m(x, a_, b_), fresh(x, a_, b_)
                    except Exception as e:
                        ctx.violation(f"clamp:{cls.__name__}:reconfigured:raises", f"{cls.__name__} raised {type(e).__name__} after inverted_output was re-assigned", {"error": repr(e)[:200]})
                        continue
                    ctx.count(("reconfigured", cls.__name__, start, str(value)), n=1)
                    if not torch.equal(got, want):
                        ctx.violation(f"clamp:{cls.__name__}:reconfigured", f"{cls.__name__} reports inverted_output={reported!r} after the assignments but does not behave like a fresh module with that option",
                                      {"started_as": start, "last_assigned": value, "bounds": [a_.item(), b_.item()], "module": got.tolist(), "fresh": want.tolist()})
    base = {"a": 0.03, "b": 0.1, "rho": -0.5, "m": 0.05, "sigma": 0.25}
    k = torch.tensor([-0.5, -0.1, 0.0, 0.2, 0.75], dtype=dtype)
    for name in base:
        for spelled in ("number", "tensor"):
            m = SVIVariance(**base)
            m(k)
            new = dict(base, **{name: base[name] * 0.5 + 0.0625})
            setattr(m, name, new[name] if spelled == "number" else torch.tensor(new[name], dtype=dtype))
            got, want = m(k), SVIVariance(**new)(k)
            ctx.count(("reconfigured", "SVIVariance", name, spelled), n=1)
            if got.shape != want.shape or not bool(((got - want).abs() <= 1e-15).all()):
                ctx.violation("svi:reconfigured", f"SVIVariance after its parameter {name} was re-assigned ({spelled}) does not return the variance of the new parameters",
                              {"parameter": name, "module": got.tolist(), "fresh": want.tolist()})


def _module(cls, ctx: Ctx, name: str, kw: Dict[str, Any]):
    try:
        return cls(**kw)
    except TypeError as e:
        raise _NoOption(str(e)[:120])


class BSStub(torch.nn.Module):
    """Scripted Black-Scholes module: delta and gamma are given tensors (public attribute `bs` of WhalleyWilmott)."""

    def __init__(self, delta: torch.Tensor, gamma: torch.Tensor) -> None:
        super().__init__()
        self.delta_t, self.gamma_t = delta, gamma

    def forward(self, input: torch.Tensor) -> torch.Tensor:
        return self.delta_t

    def gamma(self, *args: Any) -> torch.Tensor:
        return self.gamma_t

    def inputs(self) -> List[str]:
        return ["log_moneyness", "time_to_maturity", "volatility"]


def replay_ww(ctx: Ctx, recs: List[Dict[str, Any]], cost_den: int) -> None:
    import pfhedge.nn.functional as F
    from pfhedge.instruments import BrownianStock, EuropeanOption
    from pfhedge.nn import BlackScholes, WhalleyWilmott
    dtype = torch.float64
    band = [r for r in recs if r["kind"] == "band"]
    width = [r for r in recs if r["kind"] == "width"]
    if not any(r["c"]["cn"] > 0 and fr(r["c"]["w"]) > 0 for r in width):
        raise MachineryError("WW.tla: no non-trivial width tuple")
    # ---- ww_width on exact cube tuples
    for r in width:
        c = r["c"]
        got = F.ww_width(gamma=torch.tensor([float(c["gamma"])], dtype=dtype), spot=torch.tensor([float(c["spot"])], dtype=dtype),
                         cost=c["cn"] / cost_den, a=frf(c["a"]))
        ctx.count(n=1)
        e = frf(r["out"])
        if not abs(got.item() - e) <= 1e-14 * (1 + e):
            ctx.violation("ww:width", "ww_width is not (3 c Gamma^2 S / (2 a))^(1/3)", {"case": c, "expected": e, "observed": got.item()})
        # gamma enters squared: a NEGATIVE gamma (binary options in the money) gives the same width
        neg = F.ww_width(gamma=torch.tensor([-float(c["gamma"])], dtype=dtype), spot=torch.tensor([float(c["spot"])], dtype=dtype), cost=c["cn"] / cost_den, a=frf(c["a"]))
        ctx.count(n=1)
        if not abs(neg.item() - e) <= 1e-14 * (1 + e):
            ctx.violation("ww:width:negative-gamma", "ww_width of a negative gamma is not (3 c Gamma^2 S / (2 a))^(1/3)", {"case": c, "expected": e, "observed": neg.item()})
    # ---- band logic through the module with a scripted Black-Scholes stub, width from exact tuples
    nz = [r for r in width if fr(r["c"]["w"]) in {fr(b["c"]["w"]) for b in band}]
    for wr in nz:
        c = wr["c"]
        bs_ = [b for b in band if fr(b["c"]["w"]) == fr(c["w"])]
        if not bs_:
            continue
        prev = torch.tensor([[frf(b["c"]["prev"])] for b in bs_], dtype=dtype)
        delta = torch.tensor([[frf(b["c"]["delta"])] for b in bs_], dtype=dtype)
        gamma = torch.full_like(delta, float(c["gamma"]))
        stock = BrownianStock(cost=c["cn"] / cost_den)
        deriv = EuropeanOption(stock, strike=float(c["spot"]))        # log-moneyness 0 => spot = strike
        ww = WhalleyWilmott(deriv, a=frf(c["a"]))
        ww.bs = BSStub(delta, gamma)
        inp = torch.cat([torch.zeros(len(bs_), 3, dtype=dtype), prev], dim=-1)
        try:
            got = ww(inp)
        except Exception as e:
            ctx.violation("ww:raises", f"WhalleyWilmott raised {type(e).__name__}", {"error": repr(e)[:200]})
            continue
        exp = torch.tensor([[frf(b["out"])] for b in bs_], dtype=dtype)
        ctx.count(n=len(bs_))
        if got.shape != exp.shape or not bool(((got - exp).abs() <= 1e-14).all()):
            i = int(((got - exp).abs() > 1e-14).any(dim=-1).nonzero()[0]) if got.shape == exp.shape else 0
            ctx.violation("ww:band", "WhalleyWilmott does not keep the previous hedge inside delta +/- width and move to the nearest edge outside",
                          {"width_case": c, "band_case": bs_[i]["c"], "expected": exp[i].item(), "observed": got[i].tolist()})
    # ---- the strategy on European binary options (negative gamma in the money): finite, and for zero cost the delta hedge
    from pfhedge.instruments import EuropeanBinaryOption
    for cost in (0.0, 1e-3):
        stock = BrownianStock(cost=cost)
        dbin = EuropeanBinaryOption(stock, strike=1.0)
        wwb = WhalleyWilmott(dbin)
        bsb = BlackScholes(dbin)
        lmb = torch.tensor([-0.2, -0.05, 0.05, 0.2, 0.4], dtype=dtype)
        x3 = torch.stack([lmb, torch.full_like(lmb, 0.5), torch.full_like(lmb, 0.2)], dim=-1)
        prevb = torch.tensor([0.0, 0.5, 1.0, 2.0, -1.0], dtype=dtype)
        outb = wwb(torch.cat([x3, prevb[:, None]], dim=-1))
        deltab = bsb(x3)
        gammab = bsb.gamma(lmb[:, None], x3[:, [1]], x3[:, [2]])
        wb = (3 * cost * gammab.square() * lmb[:, None].exp() / 2) ** (1 / 3)
        expb = torch.where((prevb[:, None] - deltab).abs() <= wb, prevb[:, None], torch.where(prevb[:, None] < deltab, deltab - wb, deltab + wb))
        ctx.count(n=5)
        if not bool(outb.isfinite().all()) or not bool(((outb - expb).abs() <= 1e-12).all()):
            ctx.violation("ww:module-band:binary", "WhalleyWilmott on a European binary option (gamma negative in the money) differs from the band around the Black-Scholes delta",
                          {"cost": cost, "gamma": gammab.flatten().tolist(), "observed": outb.flatten().tolist(), "expected": expb.flatten().tolist()})
    # ---- real Black-Scholes inside: zero cost = delta hedge; positive cost = clamp of prev into delta +/- ww_width
    torch.manual_seed(ctx.seed)
    for cost in (0.0, 1e-3, 1e-2):
        for a in (0.5, 1.0, 2.0, 8.0):
            stock = BrownianStock(cost=cost)
            deriv = EuropeanOption(stock, strike=1.25)
            ww = WhalleyWilmott(deriv, a=a)
            bsm = BlackScholes(deriv)
            n = 256
            lm = torch.linspace(-0.3, 0.3, n, dtype=dtype)
            tm = torch.rand(n, dtype=dtype) * 0.5 + 0.01
            vol = torch.rand(n, dtype=dtype) * 0.4 + 0.05
            prev = torch.rand(n, dtype=dtype) * 1.4 - 0.2
            x3 = torch.stack([lm, tm, vol], dim=-1)
            got = ww(torch.cat([x3, prev[:, None]], dim=-1))
            delta = bsm(x3)
            gamma = bsm.gamma(lm[:, None], tm[:, None], vol[:, None])
            w = F.ww_width(gamma=gamma, spot=1.25 * lm[:, None].exp(), cost=cost, a=a)
            exp = torch.where((prev[:, None] - delta).abs() <= w, prev[:, None], torch.where(prev[:, None] < delta, delta - w, delta + w))
            ctx.count(n=n)
            if got.shape != exp.shape or not bool(((got - exp).abs() <= 1e-12).all()):
                ctx.violation("ww:module-band", "WhalleyWilmott differs from the band around the Black-Scholes delta", {"cost": cost, "a": a})
            if cost == 0.0 and not bool(((got - delta).abs() <= 1e-12).all()):
                ctx.violation("ww:zero-cost", "with zero cost WhalleyWilmott differs from the Black-Scholes delta hedge", {"a": a})
            wexp = (3 * cost * gamma.square() * 1.25 * lm[:, None].exp() / (2 * a)) ** (1 / 3)
            if not bool(((ww.width(x3) - wexp).abs() <= 1e-12 * (1 + wexp)).all()):
                ctx.violation("ww:module-width", "WhalleyWilmott.width is not (3 c Gamma^2 S / (2 a))^(1/3)", {"cost": cost, "a": a})
            # the SAME module after the underlier's cost rate has changed (a cost sweep re-using one derivative and one model):
            # the band is the one of the cost in force now
            for new_cost in (0.0, 4e-3):
                stock.cost = new_cost
                w2 = (3 * new_cost * gamma.square() * 1.25 * lm[:, None].exp() / (2 * a)) ** (1 / 3)
                exp2 = torch.where((prev[:, None] - delta).abs() <= w2, prev[:, None], torch.where(prev[:, None] < delta, delta - w2, delta + w2))
                got2 = ww(torch.cat([x3, prev[:, None]], dim=-1))
                ctx.count(n=n)
                if not bool(((got2 - exp2).abs() <= 1e-12).all()) or not bool(((ww.width(x3) - w2).abs() <= 1e-12 * (1 + w2)).all()):
                    ctx.violation("ww:cost-changed", "a WhalleyWilmott module built before the underlier's cost rate was changed keeps the band of the old rate",
                                  {"cost_at_construction": cost, "cost_now": new_cost, "a": a})
                    break


def replay_helpers(ctx: Ctx, recs: List[Dict[str, Any]]) -> None:
    import pfhedge.nn.functional as F
    from pfhedge.nn import SVIVariance
    dtype = torch.float64
    for r in recs:
        c = r["c"]
        if r["kind"] == "svi":
            k = torch.tensor([frf(c["m"]) + c["km"]], dtype=dtype)
            kw = dict(a=frf(c["a"]), b=frf(c["b"]), rho=frf(c["rho"]), m=frf(c["m"]), sigma=float(c["sigma"]))
            e = frf(r["out"])
            for name, got in (("svi_variance", F.svi_variance(k, **kw)), ("SVIVariance", SVIVariance(**kw)(k))):
                ctx.count(n=1)
                if got.shape != (1,) or got.item() != e:
                    ctx.violation(f"helper:{name}", f"{name} is not a + b (rho (k-m) + sqrt((k-m)^2 + sigma^2))", {"case": c, "expected": e, "observed": got.tolist()})
        elif r["kind"] == "bilerp":
            t = lambda v: torch.tensor([frf(v)], dtype=dtype)
            got = F.bilerp(t(c["i1"]), t(c["i2"]), t(c["i3"]), t(c["i4"]), frf(c["w1"]), frf(c["w2"]))
            ctx.count(n=1)
            if got.item() != frf(r["out"]):
                ctx.violation("helper:bilerp", "bilerp is not lerp(lerp(i1,i2,w1), lerp(i3,i4,w1), w2)", {"case": c, "expected": frf(r["out"]), "observed": got.item()})
            # the weights as tensors, broadcast against the corners in every documented way: 0-dim, same shape, and of HIGHER
            # rank than the corners (interpolation points along new leading dimensions)
            corners3 = [torch.full((3,), frf(c[k]), dtype=dtype) for k in ("i1", "i2", "i3", "i4")]
            scalars = [torch.tensor(frf(c[k]), dtype=dtype) for k in ("i1", "i2", "i3", "i4")]
            w1, w2 = frf(c["w1"]), frf(c["w2"])
            for label, cs, wa, wb, shape in (("0-dim weights", corners3, torch.tensor(w1, dtype=dtype), torch.tensor(w2, dtype=dtype), (3,)),
                                             ("weights of the corners' shape", corners3, torch.full((3,), w1, dtype=dtype), torch.full((3,), w2, dtype=dtype), (3,)),
                                             ("weights (2, 3) over corners (3,)", corners3, torch.full((2, 3), w1, dtype=dtype), torch.full((2, 3), w2, dtype=dtype), (2, 3)),
                                             ("weights (4, 1) over corners (3,)", corners3, torch.full((4, 1), w1, dtype=dtype), torch.full((4, 1), w2, dtype=dtype), (4, 3)),
                                             ("weight vectors over scalar corners", scalars, torch.full((2,), w1, dtype=dtype), torch.full((2,), w2, dtype=dtype), (2,))):
                try:
                    gt = F.bilerp(*cs, wa, wb)
                except Exception as e:
                    ctx.violation("helper:bilerp:tensor-weights", f"bilerp raised {type(e).__name__} for broadcastable tensor weights ({label})", {"case": c, "error": repr(e)[:200]})
                    continue
                ctx.count(n=1)
                if tuple(gt.shape) != shape or not bool((gt == frf(r["out"])).all()):
                    ctx.violation("helper:bilerp:tensor-weights", f"bilerp with tensor weights ({label}) is not lerp(lerp(i1,i2,w1), lerp(i3,i4,w1), w2) broadcast over the weights",
                                  {"case": c, "expected": frf(r["out"]), "expected_shape": list(shape), "observed": gt.flatten().tolist()[:4], "observed_shape": list(gt.shape)})
        elif r["kind"] == "box":
            u1 = 0.0 if c["j"] < 0 else 2.0 ** -c["j"]
            rad = math.sqrt(-2 * math.log(1e-10)) if c["j"] < 0 else math.sqrt(2 * c["j"] * LN2)
            z1, z2 = F.box_muller(torch.tensor([u1], dtype=dtype), torch.tensor([c["quarter"] / 4], dtype=dtype))
            ctx.count(n=1)
            e1, e2 = rad * r["out"][0], rad * r["out"][1]
            if not (abs(z1.item() - e1) <= 1e-14 * (1 + rad) and abs(z2.item() - e2) <= 1e-14 * (1 + rad)):
                ctx.violation("helper:box_muller", "box_muller is not sqrt(-2 ln u1) (cos, sin)(2 pi u2)", {"case": c, "expected": [e1, e2], "observed": [z1.item(), z2.item()]})
    # SVI with parameters that single precision cannot represent (0.1, 0.3, ...), float64 inputs: the documented formula to
    # double precision, parameters given as Python numbers and as float64 tensors, function and module
    for a, b, rho, m, sg in ((0.04, 0.4, -0.7, 0.1, 0.3), (0.01, 0.1, 0.3, -0.2, 0.1), (-0.03, 0.7, 0.9, 0.05, 1e-3)):
        ks = [-1.3, -0.2, 0.0, 0.1, 0.7, 2.9]
        k = torch.tensor(ks, dtype=dtype)
        want = torch.tensor([a + b * (rho * (x - m) + math.sqrt((x - m) ** 2 + sg ** 2)) for x in ks], dtype=dtype)
        t64 = lambda v: torch.tensor(v, dtype=dtype)   # noqa: E731
        for label, got in (("svi_variance, Python-number parameters", F.svi_variance(k, a=a, b=b, rho=rho, m=m, sigma=sg)),
                           ("SVIVariance module", SVIVariance(a=a, b=b, rho=rho, m=m, sigma=sg)(k)),
                           ("svi_variance, float64 tensor parameters", F.svi_variance(k, a=t64(a), b=t64(b), rho=t64(rho), m=t64(m), sigma=t64(sg)))):
            ctx.count(n=len(ks))
            if got.dtype != dtype or not bool(((got - want).abs() <= 1e-14 * (1 + want.abs())).all()):
                ctx.violation("helper:svi:double-precision", f"{label}: not a + b (rho (k-m) + sqrt((k-m)^2 + sigma^2)) to double precision on float64 inputs",
                              {"a": a, "b": b, "rho": rho, "m": m, "sigma": sg, "max_abs_error": float((got.double() - want).abs().max()), "dtype": str(got.dtype)})
    # realized volatility = sqrt(realized variance), exact on power-of-two paths with a perfect-square result
    path = torch.tensor([[1.0, 4.0, 1.0, 4.0, 1.0], [2.0, 2.0, 2.0, 2.0, 2.0], [1.0, 2.0, 4.0, 8.0, 16.0]], dtype=dtype)
    var = F.realized_variance(path, dt=0.25)
    vol = F.realized_volatility(path, dt=0.25)
    exp_var = torch.tensor([4 * LN2 * LN2 / 0.25, 0.0, LN2 * LN2 / 0.25], dtype=dtype)
    ctx.count(n=3)
    if not bool(((var - exp_var).abs() <= 1e-12).all()) or not bool(((vol - exp_var.sqrt()).abs() <= 1e-12).all()):
        ctx.violation("helper:realized_volatility", "realized volatility is not the square root of the annualised mean squared log return", {"var": var.tolist(), "vol": vol.tolist()})
    # ... along the LAST axis of an input of any rank (documented shape (*, T)): one path (T,), and a stack (2, N, T)
    for label, inp, exp in (("one path of shape (T,)", path[0], exp_var[0]), ("a stack of shape (2, N, T)", torch.stack([path, path.flip(0)]), torch.stack([exp_var, exp_var.flip(0)])),
                            ("a (N, 1, T) batch", path.unsqueeze(1), exp_var.unsqueeze(1))):
        for fname, e in (("realized_variance", exp), ("realized_volatility", exp.sqrt())):
            ctx.count(n=1)
            try:
                got = getattr(F, fname)(inp, dt=0.25)
            except Exception as ex:
                ctx.violation(f"helper:{fname}:rank", f"{fname} raised {type(ex).__name__} on {label}", {"error": repr(ex)[:200]})
                continue
            if got.shape != e.shape or not bool(((got - e).abs() <= 1e-12).all()):
                ctx.violation(f"helper:{fname}:rank", f"{fname} of {label} is not the annualised mean squared log return along the last axis", {"expected": e.tolist(), "observed": got.tolist(), "observed_shape": list(got.shape)})


def check(ctx: Ctx) -> None:
    rc = ctx.tlc("MC_Clamp", "MC_Clamp_q.cfg", workers=4)
    rw = ctx.tlc("WW", "MC_WW_q.cfg", workers=4)
    if not rc.records or not rw.records:
        raise MachineryError("no record")
    replay_clamp(ctx, rc.records)
    clamp_double_precision(ctx)
    ww_at_gamma_singularity(ctx)
    reconfigured_modules(ctx)
    replay_ww(ctx, rw.records, 8)
    replay_helpers(ctx, rw.records)
    for r in rc.records + rw.records:
        ctx.distinct.add(json.dumps(r, sort_keys=True))
    ctx.sample(rc.records[777]); ctx.sample(rw.records[100]); ctx.sample(rw.records[-1]); ctx.sample(next(r for r in rw.records if r["kind"] == "width" and r["c"]["cn"] > 0))
    probe = Ctx.__new__(Ctx)
    probe.__dict__.update({"_per_key": {}, "violations": [], "findings": [], "known_hits": {}, "evaluations": 0, "distinct": set()})
    bad = [json.loads(json.dumps(r)) for r in rc.records if r["lo"] == [4, 1] and r["hi"] == [0, 1] and r["mode"] == "mean"]
    for b in bad:
        b["leaky"] = b["hi"]; b["clamp"] = b["hi"]                   # expect the upper bound where the mean is documented
    replay_clamp(probe, bad)
    ctx.selftest("an expected inverted-bounds value of the wrong mode is rejected", len(probe.violations) > 0)
    from checks import suite_oracles
    suite_oracles.suite(ctx, "clamp")     # every clamp / leaky_clamp call of the repository's own tests against the documented cases
    ctx.traces_validated = len(rc.records) + len(rw.records)
    ctx.exhaustive = True
    ctx.rule = ("every lattice case of Clamp.tla (7 inputs x 5x5 bounds incl. absent/inverted/tied x 4 slopes x 2 modes) and WW.tla (band, exact width tuples, "
                "SVI on Pythagorean pairs, bilerp, Box-Muller) replayed bitwise (float64 and float32 for clamps); distinct = distinct emitted case")
    ctx.assumptions += ["the helper formulas are one pure function each: the specification is an exact independent transcription",
                        "ww_width and box_muller compared through one cube root / square root with tolerance 1e-14"]


if __name__ == "__main__":
    raise SystemExit(run_check("C20", check))
