"""C15 - fit() performs exactly the documented training protocol.

Fit.tla is the protocol automaton (Configure / Materialise, per epoch Train; ZeroGrad; Simulate; Forward; Backward;
Step; Eval; n_times x (Simulate; Forward); AppendHistory, Finish) with bookkeeping of optimiser steps, contributing
batches, parameter version and mode/grad flags; TLC checks StepsEqualEpochs, ExactlyKSteps, NoAccumulation,
ParamsChangeOnlyInStep, Train/Validation mode invariants, HistoryLength, SimulationCount and termination for every
configuration (k, n_paths, n_times, validation, optimiser class/instance, lazy model, initial state).

Binding:
  code -> spec   real Hedger.fit() runs for EVERY configuration with recording doubles (optimiser, model, primary; no
                 source hooks); FitTrace.tla (TLC) accepts a trace iff every event - with its arguments, mode/grad
                 flags and observed parameter version - is explained by the automaton.
  reference loop the final parameters and the returned history equal, bitwise, those of an explicit
                 simulate/loss/backward/step loop on a fresh clone under the same scripted draws (and, with real
                 primaries, under the same torch seed).
"""
from __future__ import annotations

import copy
import hashlib
import itertools
import json
import random
import re
import warnings
from typing import Any, Dict, List, Optional, Tuple

import torch

from lib.core import Ctx, run_check
from lib.doubles import RecordingSGD, ScriptedPrimary
from lib.tlc import MachineryError, WORK

DT = torch.float64
T_STEPS = 4
DTSTEP = 0.25


class RecModel(torch.nn.Module):
    def __init__(self, n_in: int, lazy: bool, log: List[Any], n_out: int = 1) -> None:
        super().__init__()
        self.lin = torch.nn.LazyLinear(n_out, dtype=DT) if lazy else torch.nn.Linear(n_in, n_out, dtype=DT)
        self.log = log

    def forward(self, x: torch.Tensor) -> torch.Tensor:
        self.log.append({"op": "fwd", "mode": "train" if self.training else "eval", "grad": torch.is_grad_enabled(), "rows": x.size(0)})
        return torch.tanh(self.lin(x))



class LoggingPrimary(ScriptedPrimary):
    def __init__(self, script, log, **kw):
        super().__init__(script, **kw)
        self.log = log
        self.holder: Dict[str, Any] = {}

    def simulate(self, n_paths: int = 1, time_horizon: float = 1.0, init_state: Any = None) -> None:
        super().simulate(n_paths, time_horizon, init_state)
        # the scripted draw has its own number of paths: register only the first n_paths rows
        for name, b in list(self.named_buffers()):
            self.register_buffer(name, b[:n_paths].clone())
        self.log.append({"op": "Simulate", "n": n_paths, "init": "default" if init_state is None else "custom", "clear": self.grads_clear()})

    def grads_clear(self) -> bool:
        """Effect of zero_grad, observed: every gradient the optimiser owns is None or zero right now."""
        opt = self.holder.get("opt")
        if opt is None:
            return True
        return all(p.grad is None or not bool(p.grad.ne(0).any()) for g in opt.param_groups for p in g["params"])


def make_script(rng: random.Random, draws: int) -> List[Dict[str, torch.Tensor]]:
    out = []
    for _ in range(draws):
        spot = torch.tensor([[rng.choice([0.5, 1.0, 1.5, 2.0]) for _ in range(T_STEPS)] for _ in range(4)], dtype=DT)
        out.append({"spot": spot, "variance": torch.full_like(spot, 0.04)})
    return out


def build(cfg: Dict[str, Any], script, log, feats, criterion):
    from pfhedge.instruments import EuropeanOption
    from pfhedge.nn import Hedger
    stock = LoggingPrimary(copy.deepcopy(script), log, cost=1e-2, dt=DTSTEP, dtype=DT)
    deriv = EuropeanOption(stock, strike=1.0, maturity=(T_STEPS - 1) * DTSTEP)
    torch.manual_seed(1234)
    H = 2 if cfg.get("hedge2") else 1
    n_in = len(feats) + (H - 1 if "prev_hedge" in feats else 0)
    model = RecModel(n_in, cfg["lazy"], log, n_out=H)
    hedger = Hedger(model, feats, criterion=criterion)
    if cfg.get("hedge2"):      # an explicit hedge list: the underlier and a listed option on it (with its own cost rate)
        other = EuropeanOption(stock, strike=1.25, maturity=(T_STEPS - 1) * DTSTEP)
        other.list(lambda d: (d.ul().spot - 1.0) * 0.5 + 0.25, cost=5e-3)
        hedger.verif_hedge = [stock, other]
    else:
        hedger.verif_hedge = None
    return stock, deriv, model, hedger


def phash(model: torch.nn.Module) -> str:
    h = hashlib.sha1()
    for p in model.parameters():
        if isinstance(p, torch.nn.parameter.UninitializedParameter):
            h.update(b"lazy")
        else:
            h.update(p.detach().numpy().tobytes())
    return h.hexdigest()[:12]


def owned(hedger, model, cfg):
    """Parameters handed to an optimiser INSTANCE: the model's, or (extra) all of the hedger's incl. the criterion's."""
    return list(hedger.parameters()) if cfg.get("extra") else list(model.parameters())


def run_fit(cfg: Dict[str, Any], seed: int, feats, criterion_fn) -> Dict[str, Any]:
    """One real fit() run with recording doubles; returns the event trace and the observable outcome."""
    rng = random.Random(seed)
    n_draws = 1 + cfg["k"] * (1 + cfg["ntimes"])
    script = make_script(rng, n_draws)
    log: List[Any] = []
    stock, deriv, model, hedger = build(cfg, script, log, feats, criterion_fn())
    init_state = None if cfg["init"] == "default" else (1.25,)
    vers: Dict[str, int] = {}

    def ver() -> int:
        # a lazy (not yet materialised) parameter set and its first materialisation are the same version 0:
        # materialising creates the parameters, it does not update them
        if any(isinstance(p, torch.nn.parameter.UninitializedParameter) for p in hedger.parameters()):
            return 0
        h = phash(hedger)
        if h not in vers:
            vers[h] = len(vers)
        return vers[h]

    class Stamped(list):            # parameter version stamped on every event as it happens
        def append(self, ev):  # type: ignore[override]
            ev["pver"] = ver()
            super().append(ev)
    slog = Stamped()
    stock.log = slog; model.log = slog

    class BoundSGD(RecordingSGD):
        def __init__(self, params, **kw):
            super().__init__(params, lr=2.0 ** -3, log=slog)
            stock.holder["opt"] = self

    if cfg["optclass"]:
        optimizer: Any = BoundSGD
    else:
        if cfg["lazy"]:            # an instance needs materialised parameters: the documented placeholder forward
            deriv.simulate(n_paths=1)
            hedger.compute_pl(deriv, hedge=hedger.verif_hedge)
            slog.clear(); vers.clear(); stock.calls.clear()
            stock.pos = 0
        optimizer = BoundSGD(owned(hedger, model, cfg))
    if cfg.get("pre_eval"):
        hedger.eval()              # history: the hedger was used for pricing before this fit()
    if cfg.get("model_eval"):      # history: only the MODEL was put in evaluation mode (a pre-trained network handed over in eval mode)
        hedger.model.eval()
    if cfg.get("pre_forward"):     # history: the hedger was CALLED directly on an input of the training batch's shape before this fit()
        with torch.no_grad():      # (a position other than zero is left in the state the prev_hedge input reads)
            hedger(torch.full((cfg["n"], 1, model.lin.in_features), 0.5, dtype=DT))
        slog.clear(); stock.calls.clear()
    if cfg.get("stale"):           # history: a loss was back-propagated by hand before this fit(); its gradient is still there
        for p_ in hedger.parameters():
            if not isinstance(p_, torch.nn.parameter.UninitializedParameter):
                p_.grad = torch.full_like(p_, 0.5)
    vers.clear()
    ver()
    import contextlib
    import io
    with contextlib.redirect_stderr(io.StringIO()):      # (verbose=True draws a progress bar on stderr; the protocol is the same)
        history = hedger.fit(deriv, hedge=hedger.verif_hedge, n_epochs=cfg["k"], n_paths=cfg["n"], n_times=cfg["ntimes"], optimizer=optimizer,
                             init_state=init_state, verbose=bool(cfg.get("verbose")), validation=cfg["validation"])
    events: List[Dict[str, Any]] = []
    for ev in slog:
        if ev["op"] == "fwd":
            if events and events[-1]["op"] == "Forward" and events[-1].get("_open"):
                if events[-1]["mode"] != ev["mode"] or events[-1]["grad"] != ev["grad"]:
                    events[-1]["mode"] = "mixed"
                continue
            events.append({"op": "Forward", "mode": ev["mode"], "grad": ev["grad"], "pver": ev["pver"], "_open": True})
        elif ev["op"] in ("Simulate", "OptStep"):
            for e in events:
                e.pop("_open", None)
            events.append({k: v for k, v in ev.items() if k in ("op", "n", "init", "clear", "pver")})
        # zero_grad calls of the recording optimiser are not events: their effect is the `clear` flag of Simulate
    for e in events:
        e.pop("_open", None)
    events.append({"op": "FitEnd", "hist": -1 if history is None else len(history), "pver": ver()})
    for e in events:               # keep only the shape TLC needs
        e.setdefault("n", 0); e.setdefault("init", "-"); e.setdefault("mode", "-"); e.setdefault("grad", False); e.setdefault("hist", 0); e.setdefault("clear", True)
    calls = list(stock.calls)
    return {"cfg": cfg, "events": events, "history": history, "params": [p.detach().clone() for p in hedger.parameters()],
            "script": script, "sim_calls": calls}


def reference_loop(cfg: Dict[str, Any], script, feats, criterion_fn) -> Tuple[List[torch.Tensor], Optional[List[float]]]:
    """The explicit simulate / loss / backward / step loop the property names, on a fresh clone."""
    log: List[Any] = []
    stock, deriv, model, hedger = build(cfg, script, log, feats, criterion_fn())
    init_state = None if cfg["init"] == "default" else (1.25,)
    if cfg["lazy"]:
        deriv.simulate(n_paths=1)
        hedger.compute_pl(deriv, hedge=hedger.verif_hedge)         # the placeholder forward of fit(): on the hedge list fit() was given
        if not cfg["optclass"]:
            stock.pos = 0
    opt = torch.optim.SGD(list(model.parameters()) if cfg["optclass"] else owned(hedger, model, cfg), lr=2.0 ** -3)
    history: List[float] = []
    for _ in range(cfg["k"]):
        hedger.train()
        opt.zero_grad()
        deriv.simulate(n_paths=cfg["n"], init_state=init_state)
        loss = hedger.criterion(hedger.compute_portfolio(deriv, hedge=hedger.verif_hedge), deriv.payoff())
        loss.backward()
        opt.step()
        if cfg["validation"]:
            hedger.eval()
            with torch.no_grad():
                vals = []
                for _ in range(cfg["ntimes"]):
                    deriv.simulate(n_paths=cfg["n"], init_state=init_state)
                    vals.append(hedger.criterion(hedger.compute_portfolio(deriv, hedge=hedger.verif_hedge), deriv.payoff()))
                history.append(torch.stack(vals).mean(dim=0).item() if cfg["ntimes"] > 1 else vals[0].item())
    return [p.detach().clone() for p in hedger.parameters()], (history if cfg["validation"] else None)


def validate(ctx: Ctx, traces: List[Dict[str, Any]], tag: str) -> List[Tuple[int, int, int]]:
    path = WORK / ctx.pid / f"fit_{tag}.json"
    path.parent.mkdir(parents=True, exist_ok=True)
    path.write_text(json.dumps([{"cfg": t["cfg"], "events": t["events"]} for t in traces]))
    res = ctx.tlc("MC_FitTrace", "MC_FitTrace.cfg", workers=1, coverage=False, env={"TRACE_FILE": str(path)}, dfs_queue=True)
    out = [(int(a), int(b), int(c)) for a, b, c in re.findall(r'<<"TRACE", (\d+), (\d+), (\d+)>>', res.stdout)]
    if len(out) != len(traces):
        raise MachineryError(f"FitTrace reported {len(out)} verdicts for {len(traces)} traces")
    return out


def real_primary_seeded(ctx: Ctx) -> None:
    """Same parameters as an explicit loop under the same torch seed, with real primaries, Adam as a class, an MLP."""
    from pfhedge.instruments import BrownianStock, EuropeanOption, HestonStock, LookbackOption
    from pfhedge.nn import ExpectedShortfall, Hedger, MultiLayerPerceptron
    for k, n, ntimes, validation, stockcls, dcls in itertools.product((1, 3), (8,), (1, 2), (True, False), (BrownianStock, HestonStock), (EuropeanOption, LookbackOption)):
        def mk():
            torch.manual_seed(7)
            d = dcls(stockcls(cost=1e-3, dt=1 / 50), maturity=5 / 50)
            h = Hedger(MultiLayerPerceptron(in_features=3, n_layers=2, n_units=4), ["log_moneyness", "time_to_maturity", "prev_hedge"], criterion=ExpectedShortfall(0.5))
            return d, h
        d1, h1 = mk()
        torch.manual_seed(99)
        hist = h1.fit(d1, n_epochs=k, n_paths=n, n_times=ntimes, optimizer=torch.optim.Adam, verbose=False, validation=validation)
        d2, h2 = mk()
        torch.manual_seed(99)
        opt = torch.optim.Adam(h2.model.parameters())
        ref_hist = []
        for _ in range(k):
            h2.train(); opt.zero_grad()
            loss = h2.compute_loss(d2, n_paths=n)
            loss.backward(); opt.step()
            if validation:
                h2.eval()
                ref_hist.append(h2.compute_loss(d2, n_paths=n, n_times=ntimes, enable_grad=False).item())
        ctx.count(("seeded", k, ntimes, validation, stockcls.__name__, dcls.__name__), n=1)
        same = all(torch.equal(a, b) for a, b in zip(h1.model.parameters(), h2.model.parameters()))
        if not same:
            ctx.violation("fit:params-vs-explicit-loop:seeded", "fit() yields different parameters than an explicit simulate/loss/backward/step loop under the same seed",
                          {"k": k, "n_times": ntimes, "validation": validation, "primary": stockcls.__name__})
        if (hist if validation else None) != (ref_hist if validation else None):
            ctx.violation("fit:history-vs-explicit-loop:seeded", "fit() returns a different history than the explicit loop under the same seed",
                          {"k": k, "n_times": ntimes, "validation": validation, "fit": hist, "loop": ref_hist})


def refit(ctx: Ctx) -> None:
    """Two consecutive fit() calls on ONE hedger with an optimiser CLASS: each call constructs its own optimiser, so a stateful
    one (momentum) starts from scratch - the parameters equal two explicit loops, each with a newly constructed optimiser."""
    from pfhedge.nn import EntropicRiskMeasure

    class Momentum(torch.optim.SGD):
        def __init__(self, params):
            super().__init__(params, lr=2.0 ** -3, momentum=0.5)

    for feats in (["moneyness", "time_to_maturity", "prev_hedge"], ["log_moneyness", "time_to_maturity", "volatility"]):
        for k1, k2, validation in ((2, 2, False), (1, 3, True)):
            cfg = {"k": k1, "n": 3, "ntimes": 1, "validation": validation, "optclass": True, "lazy": False, "init": "default", "pre_eval": False, "extra": False, "stale": False}
            script = make_script(random.Random(ctx.seed * 7 + k1), 2 + (k1 + k2) * 2)
            stock, deriv, model, hedger = build(cfg, script, [], feats, EntropicRiskMeasure(0.5))
            hedger.fit(deriv, n_epochs=k1, n_paths=3, n_times=1, optimizer=Momentum, verbose=False, validation=validation)
            hedger.fit(deriv, n_epochs=k2, n_paths=3, n_times=1, optimizer=Momentum, verbose=False, validation=validation)
            got = [p.detach().clone() for p in hedger.parameters()]
            stock2, deriv2, model2, ref = build(cfg, script, [], feats, EntropicRiskMeasure(0.5))
            for k in (k1, k2):
                opt = Momentum(model2.parameters())
                for _ in range(k):
                    ref.train()
                    opt.zero_grad()
                    deriv2.simulate(n_paths=3)
                    ref.criterion(ref.compute_portfolio(deriv2), deriv2.payoff()).backward()
                    opt.step()
                    if validation:
                        ref.eval()
                        with torch.no_grad():
                            deriv2.simulate(n_paths=3)
                            ref.criterion(ref.compute_portfolio(deriv2), deriv2.payoff())
            want = [p.detach().clone() for p in ref.parameters()]
            ctx.count(json.dumps(["refit", feats, k1, k2, validation]), n=1)
            if not all(torch.equal(a, b) for a, b in zip(got, want)):
                ctx.violation("fit:refit-optimizer-state", "a second fit() with the same optimiser class does not start from a newly constructed optimiser (parameters differ from two explicit loops, "
                              "each with its own optimiser)", {"features": feats, "epochs": [k1, k2], "validation": validation})


def partial_optimizer(ctx: Ctx) -> None:
    """An optimiser INSTANCE that owns only part of the model: fit() updates through it and through nothing else - the other
    parameters keep their values, and the owned ones equal the explicit loop with that very optimiser."""
    from pfhedge.nn import EntropicRiskMeasure
    for feats in (["moneyness", "time_to_maturity", "prev_hedge"], ["log_moneyness", "time_to_maturity", "volatility"]):
        for k, validation in ((1, False), (3, True)):
            cfg = {"k": k, "n": 3, "ntimes": 1, "validation": validation, "optclass": False, "lazy": False, "init": "default", "pre_eval": False, "extra": False, "stale": False}
            script = make_script(random.Random(ctx.seed * 11 + k), 2 + k * 2)
            stock, deriv, model, hedger = build(cfg, script, [], feats, EntropicRiskMeasure(0.5))
            params = list(model.parameters())
            owned_, frozen = params[:1], params[1:]
            if not frozen:
                raise MachineryError("the recording model has a single parameter tensor")
            before = [p.detach().clone() for p in frozen]
            hedger.fit(deriv, n_epochs=k, n_paths=3, n_times=1, optimizer=torch.optim.SGD(owned_, lr=2.0 ** -3), verbose=False, validation=validation)
            stock2, deriv2, model2, ref = build(cfg, script, [], feats, EntropicRiskMeasure(0.5))
            opt = torch.optim.SGD(list(model2.parameters())[:1], lr=2.0 ** -3)
            for _ in range(k):
                ref.train(); opt.zero_grad()
                deriv2.simulate(n_paths=3)
                ref.criterion(ref.compute_portfolio(deriv2), deriv2.payoff()).backward()
                opt.step()
                if validation:
                    ref.eval()
                    with torch.no_grad():
                        deriv2.simulate(n_paths=3)
                        ref.criterion(ref.compute_portfolio(deriv2), deriv2.payoff())
            ctx.count(json.dumps(["partial-optimizer", feats, k, validation]), n=1)
            if not all(torch.equal(a, b.detach()) for a, b in zip(before, frozen)):
                ctx.violation("fit:updates-outside-optimizer", "fit() changed parameters that the supplied optimiser instance does not own", {"features": feats, "epochs": k})
            elif not all(torch.equal(a.detach(), b.detach()) for a, b in zip(model.parameters(), model2.parameters())):
                ctx.violation("fit:params-vs-explicit-loop", "fit() with an optimiser instance owning part of the model yields different parameters than the explicit loop with that optimiser",
                              {"features": feats, "epochs": k})


def shared_stateful_optimizer(ctx: Ctx) -> None:
    """ONE stateful optimiser instance (Adam; SGD with momentum and weight decay) owning the parameters of TWO hedgers that are fitted
    alternately: while one is fitted the parameters of the other are not in the loss and have no gradient - they keep their values,
    exactly as in the explicit loop `zero_grad(); loss.backward(); step()` with that optimiser."""
    from pfhedge.nn import EntropicRiskMeasure
    feats = ["log_moneyness", "time_to_maturity", "volatility"]
    for oname, mk in (("Adam", lambda ps: torch.optim.Adam(ps, lr=2.0 ** -6)), ("SGD(momentum, weight_decay)", lambda ps: torch.optim.SGD(ps, lr=2.0 ** -4, momentum=0.5, weight_decay=0.125))):
        cfg = {"k": 1, "n": 3, "ntimes": 1, "validation": False, "optclass": False, "lazy": False, "init": "default", "pre_eval": False, "extra": False, "stale": False}
        script = make_script(random.Random(ctx.seed * 13 + 5), 12)

        def world():
            a = build(cfg, script, [], feats, EntropicRiskMeasure(0.5))
            b = build(cfg, script, [], feats, EntropicRiskMeasure(0.5))
            with torch.no_grad():
                for p_ in b[2].parameters():
                    p_.mul_(0.5)
            return a, b
        (s1, d1, m1, h1), (s2, d2, m2, h2) = world()
        opt = mk(list(m1.parameters()) + list(m2.parameters()))
        (r1s, r1d, r1m, r1h), (r2s, r2d, r2m, r2h) = world()
        ropt = mk(list(r1m.parameters()) + list(r2m.parameters()))
        order = [0, 1, 0, 1]
        for turn, who in enumerate(order):
            hed, der, other_model = (h1, d1, m2) if who == 0 else (h2, d2, m1)
            idle_before = [p_.detach().clone() for p_ in other_model.parameters()]
            hed.fit(der, n_epochs=1, n_paths=3, optimizer=opt, verbose=False, validation=False)
            rhed, rder = (r1h, r1d) if who == 0 else (r2h, r2d)
            rhed.train(); ropt.zero_grad()
            rder.simulate(n_paths=3)
            rhed.criterion(rhed.compute_portfolio(rder), rder.payoff()).backward()
            ropt.step()
            ctx.count(json.dumps(["shared-optimizer", oname, turn]), n=1)
            if turn == 0:
                continue            # (before the idle hedger was ever fitted its parameters have no optimiser state at all)
            if not all(torch.equal(a_, b_.detach()) for a_, b_ in zip(idle_before, other_model.parameters())):
                ctx.violation("fit:updates-parameters-outside-the-loss", f"fit() of one hedger moved the parameters of ANOTHER hedger that share its optimiser instance ({oname}) but are not in the loss",
                              {"optimizer": oname, "turn": turn})
                break
            if not all(torch.equal(a_.detach(), b_.detach()) for a_, b_ in zip(list(m1.parameters()) + list(m2.parameters()), list(r1m.parameters()) + list(r2m.parameters()))):
                ctx.violation("fit:params-vs-explicit-loop", f"two hedgers fitted alternately with one {oname} instance end with other parameters than the explicit loops with that optimiser",
                              {"optimizer": oname, "turn": turn})
                break


def check(ctx: Ctx) -> None:
    warnings.filterwarnings("ignore")
    from pfhedge.nn import EntropicRiskMeasure, ExpectedShortfall
    mc = ctx.tlc("MC_Fit", "MC_Fit.cfg" if ctx.tier == "quick" else "MC_Fit_t.cfg", workers=8)
    for a in ("Configure", "MaterialiseSim", "Train", "ZeroGrad", "Simulate", "Forward", "Backward", "Step", "Eval", "VSimulate", "VForward", "AppendHistory", "Finish"):
        if mc.actions.get(a, [0, 0])[1] == 0:
            raise MachineryError(f"Fit.tla: action {a} never taken")
    ks = (0, 1, 2, 3, 6) if ctx.tier == "thorough" else (0, 1, 3)
    cfgs = [{"k": k, "n": n, "ntimes": nt, "validation": v, "optclass": oc, "lazy": lz, "init": ini, "pre_eval": (i % 3 == 1), "extra": False}
            for i, (k, n, nt, v, oc, lz, ini) in enumerate(itertools.product(ks, (2, 3) if ctx.tier == "quick" else (1, 2, 3), (1, 2, 3), (True, False), (True, False), (True, False), ("default", "custom")))]
    # the optimiser instance also owns a parameter outside the model: the learnable w of an OCE criterion
    extra_cfgs = [{"k": k, "n": 3, "ntimes": nt, "validation": v, "optclass": False, "lazy": False, "init": "default", "pre_eval": pe, "extra": True}
                  for k in (1, 2, 3) for nt in (1, 2) for v in (True, False) for pe in (False, True)]
    setups = [(["moneyness", "time_to_maturity", "prev_hedge"], lambda: EntropicRiskMeasure(0.5)),
              (["moneyness", "time_to_maturity", "volatility"], lambda: ExpectedShortfall(0.5)),
              (["log_moneyness", "time_to_maturity", "volatility"], lambda: torch.nn.MSELoss())]
    # an explicit hedge list with two instruments (materialised models; a lazy model with an optimiser CLASS is materialised
    # by fit() itself on the default hedge, which is a different - documented - usage)
    hedge_cfgs = [{"k": k, "n": 3, "ntimes": nt, "validation": v, "optclass": oc, "lazy": False, "init": ini, "pre_eval": False, "extra": False, "hedge2": True}
                  for k in (1, 2) for nt in (1, 2) for v in (True, False) for oc in (True, False) for ini in ("default", "custom")]
    # ... and LAZY models with the hedge list: fit() materialises them itself (optimiser class), on the instruments it was asked to hedge with
    hedge_cfgs += [{"k": k, "n": 3, "ntimes": 1, "validation": v, "optclass": True, "lazy": True, "init": ini, "pre_eval": False, "extra": False, "hedge2": True}
                   for k in (1, 2) for v in (True, False) for ini in ("default", "custom")]
    from pfhedge.nn.modules.loss import OCE

    def oce():
        return OCE(lambda z: z - z.square() / 8)
    # gradients already populated when fit() is entered (materialised models)
    stale_cfgs = [{"k": k, "n": 2, "ntimes": 1, "validation": v, "optclass": oc, "lazy": False, "init": "default", "pre_eval": False, "extra": False, "stale": True}
                  for k in (1, 2) for v in (True, False) for oc in (True, False)]
    # the model alone in evaluation mode when fit() is entered (the hedger's own flag still says training)
    stale_cfgs += [{"k": k, "n": 2, "ntimes": 1, "validation": v, "optclass": oc, "lazy": False, "init": "default", "pre_eval": False, "extra": False, "stale": False, "model_eval": True}
                   for k in (1, 2) for v in (True, False) for oc in (True, False)]
    # the progress display switched on (verbose=True, the default of fit()): the same protocol, with and without validation
    stale_cfgs += [{"k": k, "n": 2, "ntimes": nt, "validation": v, "optclass": oc, "lazy": False, "init": "default", "pre_eval": False, "extra": False, "stale": False, "verbose": True}
                   for k in (0, 2, 3) for nt in (1, 2) for v in (True, False) for oc in (True, False)]
    # batches on which the criterion is not finite (an overflowing utility): the protocol is the same - k steps on the gradient of
    # each batch.  (The criterion below is +inf with a FINITE gradient, so that the parameters stay comparable numbers.)
    from pfhedge.nn import HedgeLoss

    class InfLoss(HedgeLoss):
        def forward(self, input, target=0.0):
            return -(input - target).mean(0) + float("inf")
    inf_cfgs = [{"k": k, "n": 2, "ntimes": 1, "validation": v, "optclass": oc, "lazy": False, "init": "default", "pre_eval": False, "extra": False, "stale": False, "nonfinite": True}
                for k in (1, 3) for v in (True, False) for oc in (True, False)]
    stale_cfgs += inf_cfgs
    # the hedger called directly (hedger(input)) before fit(): every training batch still starts from a zero position, as the explicit
    # loop on a fresh hedger does
    stale_cfgs += [{"k": k, "n": 2, "ntimes": 1, "validation": v, "optclass": oc, "lazy": False, "init": "default", "pre_eval": False, "extra": False, "stale": False, "pre_forward": True}
                   for k in (1, 2) for v in (True, False) for oc in (True, False)]
    for c_ in cfgs + extra_cfgs + hedge_cfgs:
        c_.setdefault("stale", False)
    traces = []
    plan = [(i, cfg, i % len(setups)) for i, cfg in enumerate(cfgs + extra_cfgs + hedge_cfgs + stale_cfgs)]
    if ctx.tier == "thorough":                    # every configuration with every feature set / criterion, not a rotation
        plan = [(i * len(setups) + j, cfg, j) for i, cfg in enumerate(cfgs + extra_cfgs + hedge_cfgs + stale_cfgs) for j in range(len(setups))]
    for i, cfg, si in plan:
        if cfg.get("pre_forward"):
            si = 0                       # (the feature set with prev_hedge)
        feats, crit = setups[si]
        if cfg["extra"]:
            crit = oce
        if cfg.get("nonfinite"):
            crit = InfLoss
        try:
            t = run_fit(cfg, ctx.seed * 1000 + i, feats, crit)
        except MachineryError:
            raise
        t["setup"] = si
        traces.append(t)
        ctx.count(json.dumps([cfg, si], sort_keys=True), n=1)
        if cfg["extra"] and cfg["optclass"]:
            continue
        # ---- reference loop: same parameters, same history, same simulate arguments
        ref_params, ref_hist = reference_loop(cfg, t["script"], feats, crit)
        if not all(torch.equal(a, b) for a, b in zip(t["params"], ref_params)):
            ctx.violation("fit:params-vs-explicit-loop", "fit() yields different parameters than an explicit simulate/loss/backward/step loop on the same draws",
                          {"cfg": cfg, "setup": feats})
        if t["history"] != ref_hist:
            key = "fit:history-none" if (t["history"] is None) != (ref_hist is None) else "fit:history-values"
            ctx.violation(key, "fit() returns a different validation history than the explicit loop", {"cfg": cfg, "fit": t["history"], "loop": ref_hist})
        want_init = None if cfg["init"] == "default" else (1.25,)
        skip = 1 if (cfg["lazy"] and cfg["optclass"]) else 0
        for c in t["sim_calls"][skip:]:
            if c["n_paths"] != cfg["n"] or c["init_state"] != want_init:
                ctx.violation("fit:simulate-arguments", "fit() does not forward the requested batch size / initial state to simulate()", {"cfg": cfg, "call": str(c)})
                break
    verdicts = validate(ctx, traces, "recorded")
    for i, reached, need in verdicts:
        ctx.traces_validated += 1
        if reached != need:
            t = traces[i - 1]
            ev = t["events"][reached - 1] if reached - 1 < len(t["events"]) else {"op": "end"}
            ctx.violation(f"fit:protocol:{ev['op']}", f"recorded fit() run is not a behaviour of the protocol automaton: event #{reached} ({ev['op']}) is not enabled / has unexpected arguments",
                          {"cfg": t["cfg"], "events_up_to": [[e["op"], e["n"], e["init"], e["clear"], e["mode"], e["grad"], e["pver"]] for e in t["events"][: reached]]})
    ctx.sample({"fit_trace": {"cfg": traces[5]["cfg"], "events": traces[5]["events"][:14]}})
    ctx.sample({"fit_trace": {"cfg": traces[-1]["cfg"], "events": traces[-1]["events"][:10]}})
    real_primary_seeded(ctx)
    refit(ctx)
    partial_optimizer(ctx)
    shared_stateful_optimizer(ctx)
    # ---- binding demonstration (synthetic, independent of /repo): the canonical behaviour of the automaton is accepted,
    # and dropping ZeroGrad in the second epoch / validating in train mode / an extra optimiser step is rejected
    cfg = {"k": 2, "n": 2, "ntimes": 2, "validation": True, "optclass": False, "lazy": False, "init": "default", "pre_eval": False, "extra": False, "stale": False}
    def canon() -> List[Dict[str, Any]]:
        ev: List[Dict[str, Any]] = []
        pv = 0
        for _ in range(2):
            ev += [{"op": "Simulate", "n": 2, "init": "default", "clear": True, "pver": pv}, {"op": "Forward", "mode": "train", "grad": True, "pver": pv}]
            pv += 1
            ev += [{"op": "OptStep", "pver": pv}]
            for _ in range(2):
                ev += [{"op": "Simulate", "n": 2, "init": "default", "clear": False, "pver": pv}, {"op": "Forward", "mode": "eval", "grad": False, "pver": pv}]
        ev.append({"op": "FitEnd", "hist": 2, "pver": pv})
        for e in ev:
            e.setdefault("n", 0); e.setdefault("init", "-"); e.setdefault("mode", "-"); e.setdefault("grad", False); e.setdefault("hist", 0); e.setdefault("clear", True)
        return ev
    good = {"cfg": cfg, "events": canon()}
    no_zero = {"cfg": cfg, "events": canon()}
    [e for e in no_zero["events"] if e["op"] == "Simulate" and e["clear"]][1]["clear"] = False      # gradients not cleared before the 2nd training batch
    wrong_mode = {"cfg": cfg, "events": canon()}
    next(e for e in wrong_mode["events"] if e["op"] == "Forward" and e["mode"] == "eval")["mode"] = "train"
    grad_on = {"cfg": cfg, "events": canon()}
    next(e for e in grad_on["events"] if e["op"] == "Forward" and e["mode"] == "eval")["grad"] = True
    sneaky = {"cfg": cfg, "events": canon()}
    [e for e in sneaky["events"] if e["op"] == "Simulate"][1]["pver"] += 1      # parameters changed outside the optimiser step
    v = validate(ctx, [good, no_zero, wrong_mode, grad_on, sneaky], "selftest")
    ctx.selftest("the canonical protocol behaviour is accepted", v[0][1] == v[0][2])
    ctx.selftest("a run without zero_grad in the second epoch is rejected", v[1][1] != v[1][2])
    ctx.selftest("validation in training mode is rejected", v[2][1] != v[2][2])
    ctx.selftest("validation with gradients enabled is rejected", v[3][1] != v[3][2])
    ctx.selftest("a parameter change outside the optimiser step is rejected", v[4][1] != v[4][2])
    ctx.exhaustive = True
    ctx.rule = ("every configuration (k in 0,1,3 [thorough 0..3] x n_paths 2,3 x n_times 1..3 x validation x optimiser class/instance x lazy x init_state) run on the real fit() "
                "with recording doubles and validated by FitTrace.tla; each compared with an explicit reference loop; distinct = distinct configuration")
    ctx.assumptions += ["train()/eval()/zero_grad()/backward() are not events: their EFFECT is observed (mode and grad flags at every forward, all optimiser-owned gradients clear at the training simulate)",
                        "the constructed optimiser receives model.parameters(): a parametrised criterion (OCE) is not trained - modelled as what the code does",
                        "Backward has no observable event (it is inferred between Forward and OptStep)"]


if __name__ == "__main__":
    raise SystemExit(run_check("C15", check))
