"""C11 - simulated buffers are well-formed for every generator and instrument.

Market.tla: simulate() as the only writer of an instrument's buffers - it replaces ALL of them by fresh buffers of one
common shape (invariants UniformShape, NothingSurvives; action property SimulateReplacesAll) - and the contract table of
the eight primary kinds (buffer names, sign class of each series, arity of the initial state).  TLC explores every
history of repeated simulate(n_paths, steps, default/custom initial state) to a bounded depth for every kind.
Replay: each history is executed on the real primary instrument in several parameter regimes and dtypes; after every
simulate() the real buffers are projected (shape, dtype, first column, finiteness, sign, volatility^2 = variance, replaced)
and compared with the machine.  The nine path generators are checked against the same contract table directly.
The random draws themselves are sampled (seeded), not enumerated: level "exploration" for finiteness/sign.
"""
from __future__ import annotations

import json
import warnings
from typing import Any, Callable, Dict, List, Optional, Tuple

import torch

from lib.core import Ctx, run_check
from lib.tlc import MachineryError

DTYPES = {"quick": [torch.float32, torch.float64], "thorough": [torch.float32, torch.float64, torch.float16, torch.bfloat16]}


def regimes(kind: str) -> List[Dict[str, Any]]:
    return {
        "brownian": [{}, {"sigma": 1.5, "mu": 0.3, "dt": 0.25}, {"sigma": 0.0}],
        "heston": [{}, {"sigma": 1.0, "theta": 0.01, "kappa": 0.5}, {"rho": 0.5, "dt": 0.1}],
        "cir": [{}, {"sigma": 1.0, "theta": 0.005, "kappa": 0.3}, {"sigma": 0.0}],      # sigma = 0: the deterministic mean-reverting limit
        "vasicek": [{}, {"sigma": 0.5, "kappa": 3.0, "theta": 0.1}, {"sigma": 0.0}],
        "merton": [{}, {"jump_per_year": 300.0, "jump_std": 0.2, "jump_mean": -0.1}, {"sigma": 0.0, "jump_per_year": 0.0}],
        "kou": [{}, {"jump_per_year": 300.0, "jump_mean_up": 0.2, "jump_mean_down": 0.3}, {"sigma": 0.0, "jump_per_year": 0.0}],
        "rough_bergomi": [{}, {"eta": 3.0, "alpha": -0.45}],
        "local_volatility": [{}, {"dt": 0.1}],
    }[kind]


def make_primary(kind: str, kw: Dict[str, Any], dtype: torch.dtype):
    from pfhedge.instruments import (BrownianStock, CIRRate, HestonStock, KouJumpStock, LocalVolatilityStock, MertonJumpStock,
                                     RoughBergomiStock, VasicekRate)
    cls = {"brownian": BrownianStock, "heston": HestonStock, "cir": CIRRate, "vasicek": VasicekRate, "merton": MertonJumpStock,
           "kou": KouJumpStock, "rough_bergomi": RoughBergomiStock}.get(kind)
    if kind == "local_volatility":
        return LocalVolatilityStock(lambda t, s: 0.2 + 0.1 * (s - 1.0).abs().clamp(max=1.0), dtype=dtype, **kw)
    return cls(dtype=dtype, **kw)


def custom_init(kind: str) -> Tuple[float, ...]:
    return {"heston": (1.5, 0.09), "rough_bergomi": (1.5, 0.09), "cir": (0.03,), "vasicek": (0.03,)}.get(kind, (1.5,))


def sign_ok(t: torch.Tensor, cls: str) -> bool:
    if cls == "positive":
        return bool((t >= 0).all())          # zero only through underflow: never negative
    if cls == "nonneg":
        return bool((t >= 0).all())
    return True


def replay_history(ctx: Ctx, rec: Dict[str, Any], dtype: torch.dtype, kw: Dict[str, Any], seed: int) -> None:
    kind = rec["kind"]
    half = dtype in (torch.float16, torch.bfloat16)
    prim = make_primary(kind, kw, dtype)
    prev_ids: Dict[str, int] = {}
    prev_vals: Dict[str, torch.Tensor] = {}
    torch.manual_seed(seed)
    for i, ev in enumerate(rec["hist"]):
        n, t, custom = ev["n"], ev["t"], ev["custom"]
        init = custom_init(kind) if custom else None
        detail = {"kind": kind, "params": kw, "dtype": str(dtype), "history": [[e["n"], e["t"], e["custom"]] for e in rec["hist"][: i + 1]]}
        try:
            with warnings.catch_warnings():
                warnings.simplefilter("ignore")
                prim.simulate(n_paths=n, time_horizon=ev["h2"] * prim.dt / 2, init_state=init)
        except RecursionError:
            ctx.violation(f"simulate:{kind}:recursion", f"{kind}: simulate() does not terminate (RecursionError)", detail)
            return
        except Exception as e:
            if half and isinstance(e, (RuntimeError, NotImplementedError)):
                ctx.skip("half precision: backend does not implement an operation of the generator")
                return
            key = "one-step" if t == 1 else "raises"
            ctx.violation(f"simulate:{kind}:{key}", f"{kind}: simulate(n_paths={n}, steps={t}) raised {type(e).__name__}", {**detail, "error": repr(e)[:200]})
            return
        ctx.count(n=1)
        have = dict(prim.named_buffers())
        if set(have) != set(rec["buffers"]):
            ctx.violation(f"simulate:{kind}:buffers", f"{kind}: buffers {sorted(have)} instead of {sorted(rec['buffers'])}", detail)
            return
        want_init = init if init is not None else tuple(float(x) for x in prim.default_init_state)
        order = ["spot"] + [b for b in sorted(have) if b != "spot"]
        for j, name in enumerate(order):
            b = have[name]
            post = ev["post"][name]
            if tuple(b.shape) != (post["n"], post["t"]):
                ctx.violation(f"simulate:{kind}:shape", f"{kind}.{name} has shape {tuple(b.shape)} after simulate(n_paths={n}, steps={t})", detail)
                return
            if b.dtype != dtype:
                ctx.violation(f"simulate:{kind}:dtype", f"{kind}.{name} is {b.dtype}, requested {dtype}", detail)
            if not bool(b.isfinite().all()):
                ctx.violation(f"simulate:{kind}:nonfinite", f"{kind}.{name} contains non-finite values", detail)
            elif not sign_ok(b, rec["buffers"][name]):
                ctx.violation(f"simulate:{kind}:sign", f"{kind}.{name} must be {rec['buffers'][name]} but has minimum {b.min().item()}", detail)
            if name in ("spot", "variance") and j < len(want_init):
                tol = 1e-2 if half else (1e-6 if dtype == torch.float32 else 1e-12)
                if not bool(((b[:, 0].double() - want_init[j]).abs() <= tol * (1 + abs(want_init[j]))).all()):
                    ctx.violation(f"simulate:{kind}:first-column", f"{kind}.{name}[:, 0] is {b[0, 0].item()}, the {'requested' if custom else 'default'} initial state is {want_init[j]}", detail)
            # replaced = a new tensor object; identical CONTENT is additionally suspicious only where two independent draws
            # cannot coincide (float64, more than one time point, not a degenerate all-zero series)
            deterministic = kw.get("sigma") == 0.0                    # no randomness: two simulations legitimately coincide
            same_content = (dtype == torch.float64 and b.shape == prev_vals.get(name, b[:0]).shape and t > 1 and name == "spot" and not deterministic
                            and bool((b[:, 1:] != 0).any()) and torch.equal(b, prev_vals[name]))
            if name in prev_ids and (prev_ids[name] == id(b) or same_content):
                ctx.violation(f"simulate:{kind}:not-replaced", f"{kind}.{name} was not replaced by the new simulation", detail)
            prev_ids[name] = id(b)
            prev_vals[name] = b.clone()
        # volatility is the square root of the variance
        if not half:
            try:
                vol, var = prim.volatility, prim.variance
                tol = 1e-5 if dtype == torch.float32 else 1e-12
                if vol.shape != (n, t) or not bool(((vol.double() ** 2 - var.double().clamp(min=0)).abs() <= tol * (1 + var.double().abs())).all()):
                    ctx.violation(f"simulate:{kind}:vol-var", f"{kind}: volatility^2 differs from the (non-negative part of the) variance", detail)
            except AttributeError:
                pass
    # the dtype requested LAST is the one the buffers have: to(other) after a simulation converts the registered series (same
    # values, cast), and the next simulate() fills buffers of that dtype
    if not half and rec["hist"]:
        other = torch.float32 if dtype == torch.float64 else torch.float64
        before = {k: v.clone() for k, v in prim.named_buffers()}
        detail = {"kind": kind, "params": kw, "dtype": str(dtype), "to": str(other)}
        prim.to(other)
        ctx.count(n=1)
        for name, b in prim.named_buffers():
            if b.dtype != other:
                ctx.violation(f"simulate:{kind}:dtype-after-to", f"{kind}.{name} is {b.dtype} after to({other}) (the instrument was built with dtype={dtype} and simulated)", detail)
            elif b.shape != before[name].shape or not torch.equal(b, before[name].to(other)):
                ctx.violation(f"simulate:{kind}:values-after-to", f"{kind}.{name} changed its values under to({other})", detail)
        ev = rec["hist"][-1]
        with warnings.catch_warnings():
            warnings.simplefilter("ignore")
            prim.simulate(n_paths=ev["n"], time_horizon=(ev["t"] - 1) * prim.dt)
        for name, b in prim.named_buffers():
            if b.dtype != other or tuple(b.shape) != (ev["n"], ev["t"]):
                ctx.violation(f"simulate:{kind}:dtype-after-to", f"{kind}.{name} is {b.dtype} {tuple(b.shape)} after to({other}) and simulate()", detail)


def generators(ctx: Ctx) -> None:
    """The nine generators against the same contract (shape, first column, dtype, finiteness, sign)."""
    import pfhedge.stochastic as st
    table: List[Tuple[str, Callable[..., Any], Tuple[float, ...], Tuple[float, ...], List[str], List[Dict[str, Any]]]] = [
        ("generate_brownian", st.generate_brownian, (0.0,), (0.3,), ["real"], [{}, {"sigma": 2.0, "mu": 1.0, "dt": 0.25}, {"sigma": 0.0}]),
        ("generate_geometric_brownian", st.generate_geometric_brownian, (1.0,), (1.5,), ["positive"], [{}, {"sigma": 1.5, "dt": 0.25}, {"sigma": 0.0}]),
        ("generate_heston", st.generate_heston, (1.0, 0.04), (1.5, 0.09), ["positive", "nonneg"], [{}, {"sigma": 1.0, "theta": 0.01, "kappa": 0.5}]),
        ("generate_cir", st.generate_cir, (0.04,), (0.03,), ["nonneg"], [{}, {"sigma": 1.0, "theta": 0.005, "kappa": 0.3}, {"sigma": 0.0}, {"kappa": 5.0, "dt": 1 / 12}]),
        ("generate_vasicek", st.generate_vasicek, (0.04,), (0.03,), ["real"], [{}, {"sigma": 0.5, "kappa": 3.0, "theta": 0.1}, {"sigma": 0.0}, {"kappa": 5.0, "dt": 1 / 12}]),
        ("generate_merton_jump", st.generate_merton_jump, (1.0,), (1.5,), ["positive"], [{}, {"jump_per_year": 300.0, "jump_std": 0.2}, {"sigma": 0.0, "jump_per_year": 0.0}]),
        ("generate_kou_jump", st.generate_kou_jump, (1.0,), (1.5,), ["positive"], [{}, {"jump_per_year": 300.0, "jump_mean_up": 0.2}, {"sigma": 0.0, "jump_per_year": 0.0}]),
        ("generate_rough_bergomi", st.generate_rough_bergomi, (1.0, 0.04), (1.5, 0.09), ["positive", "nonneg"], [{}, {"eta": 3.0}]),
        ("generate_local_volatility_process", lambda *a, **k: st.generate_local_volatility_process(*a, sigma_fn=lambda t, s: torch.full_like(s, 0.3), **k), (1.0,), (1.5,), ["real", "nonneg"], [{}]),
        # ... with a volatility surface that does not depend on the spot (whatever shape sigma_fn returns, every series is (paths, steps))
        ("generate_local_volatility_process[sigma(t)]", lambda *a, **k: st.generate_local_volatility_process(*a, sigma_fn=lambda t, s: torch.full_like(t, 0.3), **k), (1.0,), (1.5,), ["real", "nonneg"], [{}]),
    ]
    torch.manual_seed(ctx.seed + 3)
    # no dtype requested: the series are in the global default dtype, also when the initial state is given as a DOUBLE scalar (a
    # numpy.float64 from a data frame, a 0-dim float64 tensor) - a scalar does not decide the dtype of a simulation
    import numpy as _np
    for name, fn, default, custom, signs, regs in table:
        for init in (_np.float64(custom[0]), torch.tensor(custom[0], dtype=torch.float64), (torch.tensor(custom[0], dtype=torch.float64),) + tuple(custom[1:])):
            if len(custom) > 1 and not isinstance(init, tuple):
                continue
            for gdef in (torch.float32, torch.float64):
                saved_default = torch.get_default_dtype()
                torch.set_default_dtype(gdef)
                try:
                    with warnings.catch_warnings():
                        warnings.simplefilter("ignore")
                        out = fn(3, 4, init_state=init)
                except Exception as e:
                    ctx.skip(f"initial state given as {type(init).__name__} is not accepted by {name.split('[')[0]} ({type(e).__name__})")
                    continue
                finally:
                    torch.set_default_dtype(saved_default)
                ctx.count((name, "dtype=None", type(init).__name__, str(gdef)), n=1)
                for srs in (list(out) if isinstance(out, tuple) else [out]):
                    if srs.dtype != gdef or tuple(srs.shape) != (3, 4):
                        ctx.violation(f"generator:{name.split('[')[0]}:default-dtype", f"{name} without a dtype returns {srs.dtype} {tuple(srs.shape)} under the default {gdef} "
                                      f"(initial state given as {type(init).__name__} double scalar)", {"generator": name, "init_state": repr(init)[:80], "default_dtype": str(gdef)})
                        break
    # the generators that take an `engine` are also run with the library's own alternative engines (antithetic sampling, Sobol
    # points through Box-Muller): same contract, for odd and even path counts alike
    with_engine = []
    for name, fn, default, custom, signs, regs in table:
        if name in ("generate_brownian", "generate_geometric_brownian", "generate_merton_jump", "generate_kou_jump"):
            for ename, eng in (("randn_antithetic", st.randn_antithetic), ("randn_sobol_boxmuller", st.randn_sobol_boxmuller)):
                with_engine.append((f"{name}[engine={ename}]", (lambda *a, __f=fn, __e=eng, **k: __f(*a, engine=__e, **k)), default, custom, signs, [regs[0]]))
    table = table + with_engine
    for name, fn, default, custom, signs, regs in table:
        for kw in regs:
            if name == "generate_heston" and "theta" in kw:
                default_eff = (1.0, kw["theta"])
            elif name in ("generate_cir", "generate_vasicek") and "theta" in kw:
                default_eff = (kw["theta"],)
            else:
                default_eff = default
            for n in (1, 3):
                for T in (1, 2, 5, 21, 300):                  # 300 steps: kappa * dt * n_steps in the hundreds for the fast mean reversions
                    if T == 300 and n != 1:
                        continue
                    inits: List[Any] = [None, custom]
                    if len(custom) == 1:
                        inits.append(custom[0])                       # the documented scalar form
                        if name in ("generate_brownian", "generate_cir", "generate_vasicek"):
                            inits += [0.0, (0.0,)]                     # an admissible zero initial state, scalar and tuple
                    for init in inits:
                        # the requested dtype under both global defaults (a request NARROWER than the default must be honoured too)
                        for gdef, dtype in ((torch.float32, torch.float32), (torch.float32, torch.float64), (torch.float64, torch.float32), (torch.float64, torch.float64),
                                            (torch.float32, torch.float16), (torch.float32, torch.bfloat16)):
                            if gdef == torch.float64 and (T not in (2, 21) or init is not None):
                                continue
                            half = dtype in (torch.float16, torch.bfloat16)      # half precision: default regime, the dtype contract above all
                            if half and (T not in (5, 300) or init is not None or kw is not regs[0]):
                                continue
                            detail = {"generator": name, "n_paths": n, "n_steps": T, "init_state": init, "dtype": str(dtype), "default_dtype": str(gdef), "params": kw}
                            try:
                                args = {"dtype": dtype, **kw}
                                if init is not None:
                                    args["init_state"] = init
                                with warnings.catch_warnings():
                                    warnings.simplefilter("ignore")
                                    saved_default = torch.get_default_dtype()
                                    torch.set_default_dtype(gdef)
                                    try:
                                        out = fn(n, T, **args)
                                    finally:
                                        torch.set_default_dtype(saved_default)
                            except RecursionError:
                                ctx.violation(f"generator:{name}:recursion", f"{name} does not terminate (RecursionError)", detail)
                                continue
                            except Exception as e:
                                if half and isinstance(e, (RuntimeError, NotImplementedError)):
                                    ctx.skip("half precision: backend does not implement an operation of the generator")
                                    continue
                                key = "one-step" if T == 1 else "raises"
                                ctx.violation(f"generator:{name}:{key}", f"{name}(n_paths={n}, n_steps={T}) raised {type(e).__name__}", {**detail, "error": repr(e)[:200]})
                                continue
                            series = list(out) if isinstance(out, tuple) else [out]
                            ctx.count((name, json.dumps(kw), n, T, repr(init), str(dtype)), n=1)
                            want = default_eff if init is None else (init if isinstance(init, tuple) else (init,))
                            for j, (srs, sg) in enumerate(zip(series, signs)):
                                if tuple(srs.shape) != (n, T):
                                    ctx.violation(f"generator:{name}:shape", f"{name} returned shape {tuple(srs.shape)} for (n_paths={n}, n_steps={T})", detail)
                                    break
                                if srs.dtype != dtype:
                                    ctx.violation(f"generator:{name}:dtype", f"{name} returned {srs.dtype}, requested {dtype}", detail)
                                if not bool(srs.isfinite().all()):
                                    ctx.violation(f"generator:{name}:nonfinite", f"{name} returned non-finite values", detail)
                                elif not sign_ok(srs, sg):
                                    ctx.violation(f"generator:{name}:sign", f"{name}: series {j} must be {sg} but has minimum {srs.min().item()}", detail)
                                if j < len(want) and not (name == "generate_local_volatility_process" and j == 1):
                                    tol = 1e-2 if half else (1e-6 if dtype == torch.float32 else 1e-12)
                                    if not bool(((srs[:, 0].double() - want[j]).abs() <= tol * (1 + abs(want[j]))).all()):
                                        ctx.violation(f"generator:{name}:first-column", f"{name}: series {j} starts at {srs[0, 0].item()}, the {'requested' if init is not None else 'default'} initial state is {want[j]}", detail)
                            if hasattr(out, "volatility") and hasattr(out, "variance") and not half:
                                tol = 1e-5 if dtype == torch.float32 else 1e-12
                                if not bool(((out.volatility.double() ** 2 - out.variance.double().clamp(min=0)).abs() <= tol * (1 + out.variance.double().abs())).all()):
                                    ctx.violation(f"generator:{name}:vol-var", f"{name}: volatility^2 differs from variance", detail)


def check(ctx: Ctx) -> None:
    res = ctx.tlc("MC_Market", "MC_Market_q.cfg" if ctx.tier == "quick" else "MC_Market_t.cfg", workers=4)
    if res.actions.get("Simulate", [0, 0])[1] == 0 or not res.records:
        raise MachineryError("Market.tla: Simulate never taken")
    k = 0
    for rec in res.records:
        regs = regimes(rec["kind"])
        dts = list(DTYPES[ctx.tier])
        if ctx.tier == "quick":
            dts.append(torch.float16)            # half precision for every kind (backend gaps are allowed outcomes, NaN or another dtype is not)
            if k % 4 == 0:
                dts.append(torch.bfloat16)
        for dtype in dts:
            kw = regs[k % len(regs)]
            replay_history(ctx, rec, dtype, kw, ctx.seed + k)
            k += 1
        ctx.distinct.add(json.dumps([rec["kind"], [[e["n"], e["t"], e["custom"]] for e in rec["hist"]]]))
    generators(ctx)
    ctx.sample(res.records[0]); ctx.sample(res.records[-1])
    # binding demonstration: a history whose expected shape is corrupted is rejected
    probe = Ctx.__new__(Ctx)
    probe.__dict__.update({"_per_key": {}, "violations": [], "findings": [], "known_hits": {}, "evaluations": 0, "distinct": set(), "skipped": {}})
    bad = json.loads(json.dumps(next(r for r in res.records if r["kind"] == "heston" and r["hist"][0]["t"] > 1)))
    bad["hist"][1]["post"]["variance"]["t"] += 1
    replay_history(probe, bad, torch.float64, {}, 1)
    ctx.selftest("a history with a corrupted expected buffer shape is rejected", any("shape" in v["key"] for v in probe.violations))
    ctx.traces_validated = len(res.records)
    ctx.exhaustive = False
    ctx.rule = ("Market.tla: every history of 2 (thorough 3) simulate(n_paths in {1,3}, horizons in half steps {0,2,3,8} [thorough {0,3,8,41}], default/custom init) per primary kind, replayed in 2 (4) dtypes "
                "and rotating parameter regimes; generators: 9 x regimes x n_paths x n_steps x init x dtype; random draws seeded; distinct = distinct history / generator case")
    ctx.assumptions += ["finiteness and sign are checked on seeded random draws (exploration), shape/dtype/first column/replacement on every enumerated history",
                        "zero is accepted for 'positive' price processes (floating-point underflow); a negative value is not"]


if __name__ == "__main__":
    raise SystemExit(run_check("C11", check, level="model_checking"))
