"""C13 - the time grid matches maturity and step size.

Grid.tla fixes Steps(M, dt) = ceil(M/dt) + 1, TTM(i) = (T-1-i) dt (indices modulo T) and the forward-start index in
exact rationals and TLC checks the grid invariants for every (dt, k, fraction) of the menu, M = (k + f) dt.  Replay:
the harness hands float(M) and float(dt) - in the spellings a user would type - to the real primary instruments and
derivatives, simulates one path and compares buffer shapes, time_to_maturity(i | None) and the hedge/payoff shapes.
"""
from __future__ import annotations

import json
import warnings
from fractions import Fraction

import torch

from lib.core import Ctx, run_check
from lib.doubles import fr
from lib.tlc import MachineryError


def primaries(dt: float):
    from pfhedge.instruments import (BrownianStock, CIRRate, HestonStock, KouJumpStock, LocalVolatilityStock,
                                     MertonJumpStock, RoughBergomiStock, VasicekRate)
    yield "BrownianStock", lambda: BrownianStock(dt=dt)
    yield "HestonStock", lambda: HestonStock(dt=dt)
    yield "CIRRate", lambda: CIRRate(dt=dt)
    yield "VasicekRate", lambda: VasicekRate(dt=dt)
    yield "MertonJumpStock", lambda: MertonJumpStock(dt=dt)
    yield "KouJumpStock", lambda: KouJumpStock(dt=dt)
    yield "MertonJumpStock(jump_per_year=0)", lambda: MertonJumpStock(dt=dt, jump_per_year=0.0)        # degenerate regimes of the jump models
    yield "KouJumpStock(jump_per_year=0)", lambda: KouJumpStock(dt=dt, jump_per_year=0.0)
    yield "BrownianStock(sigma=0)", lambda: BrownianStock(dt=dt, sigma=0.0)
    yield "RoughBergomiStock", lambda: RoughBergomiStock(dt=dt)
    yield "LocalVolatilityStock", lambda: LocalVolatilityStock(lambda t, s: torch.full_like(s, 0.2), dt=dt)


def hedged_with_a_longer_dated_listing(ctx: Ctx) -> None:
    """The grid is the HEDGED derivative's: compute_loss / price / fit with a hedge list that contains a listed option of another
    maturity on the same underlier simulate ceil(M/dt)+1 points for the maturity M of the derivative that is being hedged;
    time to maturity, payoff and hedge use that grid."""
    from pfhedge.instruments import BrownianStock, EuropeanOption, LookbackOption
    from pfhedge.nn import Hedger
    dt = torch.float64
    for m_d, m_l in ((10, 30), (30, 10), (7, 8)):
        for op in ("compute_loss", "price", "fit"):
            torch.manual_seed(3)
            stock = BrownianStock(cost=1e-3, dt=1 / 250, dtype=dt)
            d = LookbackOption(stock, maturity=m_d / 250)
            listed = EuropeanOption(stock, maturity=m_l / 250, strike=1.05)
            listed.list(lambda x: (x.ul().spot - 1.0) * 0.5 + 0.02, cost=5e-4)
            model = torch.nn.Linear(2, 2, dtype=dt)
            h = Hedger(model, ["log_moneyness", "time_to_maturity"])
            try:
                if op == "compute_loss":
                    h.compute_loss(d, hedge=[stock, listed], n_paths=3)
                elif op == "price":
                    h.price(d, hedge=[stock, listed], n_paths=3)
                else:
                    h.fit(d, hedge=[stock, listed], n_paths=3, n_epochs=1, verbose=False)
            except Exception as e:
                ctx.violation("grid:listed-hedge:raises", f"{op} with a listed option of another maturity in the hedge list raised {type(e).__name__}", {"error": repr(e)[:200]})
                continue
            ctx.count(("listed-hedge", m_d, m_l, op), n=1)
            T = stock.spot.size(1)
            ttm = d.time_to_maturity()
            if T != m_d + 1 or ttm.shape != (3, T) or not bool((ttm[:, -1] == 0).all()) or abs(ttm[0, 0].item() - m_d / 250) > 1e-12 or h.compute_hedge(d, hedge=[stock, listed]).shape != (3, 2, m_d + 1):
                ctx.violation("grid:listed-hedge", f"after {op}(derivative of maturity {m_d} steps, hedge=[underlier, listed option of maturity {m_l} steps]) the simulated grid has {T} points, "
                              f"ceil(M/dt)+1 = {m_d + 1}", {"op": op, "maturity_steps": m_d, "listed_maturity_steps": m_l, "observed_T": T, "ttm_first": ttm[0, 0].item()})


def check(ctx: Ctx) -> None:
    from pfhedge.instruments import (AmericanBinaryOption, BrownianStock, EuropeanBinaryOption, EuropeanForwardStartOption,
                                     EuropeanOption, LookbackOption, VarianceSwap)
    from pfhedge.nn import Hedger, Naked
    warnings.filterwarnings("ignore")
    hedged_with_a_longer_dated_listing(ctx)
    res = ctx.tlc("MC_Grid", "MC_Grid_q.cfg" if ctx.tier == "quick" else "MC_Grid_t.cfg", workers=4)
    recs = res.records
    if not recs:
        raise MachineryError("Grid: no record")
    torch.manual_seed(ctx.seed)
    dclasses = [EuropeanOption, LookbackOption, AmericanBinaryOption, EuropeanBinaryOption, VarianceSwap]
    recs = sorted(recs, key=lambda r: (r["k"], r["f"], r["dt"]))
    _s = BrownianStock(dt=0.25, dtype=torch.float64)
    reused = (_s, LookbackOption(_s, maturity=1.0))
    for n, r in enumerate(recs):
        dt_q, M_q, T = fr(r["dt"]), fr(r["maturity"]), r["steps"]
        k, f = r["k"], fr(r["f"])
        dt_f = r["dt"][0] / r["dt"][1]
        integral = f == 0
        spellings = {"float(M)": float(M_q), "(k+f)*dt": float(k + f) * dt_f}
        if integral:
            spellings["k/(1/dt)"] = k / (r["dt"][1] / r["dt"][0])
        if M_q.denominator == 1:
            spellings["int(M)"] = int(M_q)                       # maturity=1 rather than 1.0: the same maturity
        ctx.distinct.add(json.dumps([r["dt"], k, r["f"]]))
        for sname, M_f in spellings.items():
            # a fractional maturity whose float form is (by rounding) exactly an integer multiple is not a test of
            # the fractional case; the property then allows k+1 points as well
            for pname, make in primaries(dt_f):
                if pname != "BrownianStock" and (n % 11 != 0 or T > 80):
                    continue
                try:
                    p = make()
                    p.simulate(n_paths=1, time_horizon=M_f)
                    shapes = {name: tuple(b.shape) for name, b in p.named_buffers()}
                except RecursionError:
                    ctx.violation(f"grid:{pname}:recursion", f"{pname}.simulate does not terminate (RecursionError)", {"dt": r["dt"]})
                    continue
                except Exception as e:
                    ctx.violation(f"grid:{pname}:raises", f"{pname}.simulate raised {type(e).__name__}", {"dt": r["dt"], "k": k, "f": r["f"], "error": repr(e)[:200]})
                    continue
                ctx.count(n=1)
                bad = {nm: s for nm, s in shapes.items() if s != (1, T)}
                if bad:
                    kind = "integral-ratio" if integral else "fractional-ratio"
                    ctx.violation(f"grid:steps:{kind}", f"{pname}.simulate(time_horizon={sname}) gives {bad} time points, ceil(M/dt)+1 = {T}",
                                  {"dt": r["dt"], "k": k, "f": r["f"], "spelling": sname, "M_float": M_f, "expected_T": T, "shapes": shapes})
            # derivative level: all buffers of the underlier share T; time to maturity; payoff / hedge shapes
            if (n % 3 == 0 or sname == "int(M)") and T <= 120:
                stock = BrownianStock(dt=dt_f, dtype=torch.float64)
                dcls = dclasses[n % len(dclasses)]
                d = dcls(stock, maturity=M_f)
                d.simulate(n_paths=2)
                Tn = stock.spot.size(1)
                ctx.count(n=1)
                if Tn != T:
                    kind = "integral-ratio" if integral else "fractional-ratio"
                    ctx.violation(f"grid:derivative-steps:{kind}", f"{dcls.__name__}(maturity={sname}).simulate() on dt = {r['dt'][0]}/{r['dt'][1]} gives {Tn} time points, ceil(M/dt)+1 = {T}",
                                  {"dt": r["dt"], "k": k, "f": r["f"], "spelling": sname, "maturity": repr(M_f), "expected_T": T, "observed_T": Tn})
                    continue
                if d.payoff().shape != (2,):
                    ctx.violation("grid:payoff-shape", f"{dcls.__name__}.payoff() has shape {tuple(d.payoff().shape)}", {})
                hedge = Hedger(Naked(), ["empty"]).compute_hedge(d)
                if hedge.shape != (2, 1, Tn):
                    ctx.violation("grid:hedge-shape", f"hedge shape {tuple(hedge.shape)} does not use the instrument's grid T={Tn}", {})
                if hasattr(d, "time_to_maturity"):
                    ttm_all = d.time_to_maturity()
                    tol = 4 * torch.finfo(torch.float64).eps * max(Tn - 1, 1) * dt_f
                    exp = torch.tensor([float((Tn - 1 - i) * dt_q) for i in range(Tn)], dtype=torch.float64)
                    ctx.count(n=Tn)
                    if ttm_all.shape != (2, Tn) or not bool(((ttm_all - exp).abs() <= tol).all()):
                        ctx.violation("grid:ttm-all", "time_to_maturity() is not (T-1-i)*dt", {"dt": r["dt"], "T": Tn})
                    if not bool((ttm_all[:, -1] == 0).all()):
                        ctx.violation("grid:ttm-last-nonzero", "time to maturity at the last step is not exactly zero", {"dt": r["dt"], "T": Tn, "value": ttm_all[0, -1].item()})
                    if Tn > 1 and not bool((ttm_all.diff(dim=-1) < 0).all()):
                        ctx.violation("grid:ttm-not-decreasing", "time to maturity is not strictly decreasing", {"dt": r["dt"], "T": Tn})
                    for i in sorted({0, 1 % Tn, Tn // 2, Tn - 1, -1, -Tn}):
                        one = d.time_to_maturity(i)
                        e = float((Tn - 1 - (i % Tn)) * dt_q)
                        if one.shape != (2, 1) or not bool(((one - e).abs() <= tol).all()):
                            ctx.violation("grid:ttm-step", f"time_to_maturity({i}) is not (T-1-i)*dt", {"dt": r["dt"], "T": Tn, "i": i, "observed": one.flatten().tolist(), "expected": e})
                    # the time FEATURES read the same grid: wherever the feature accepts the index (negative ones count from the end,
                    # as for the derivative), its value is the derivative's time to maturity at that index
                    from pfhedge.features import get_feature
                    for featname in ("time_to_maturity", "expiry_time"):
                        ft = get_feature(featname).of(d)
                        for i in sorted({0, 1 % Tn, Tn - 1, -1, -Tn}):
                            try:
                                one = ft.get(i)
                            except Exception:
                                ctx.skip(f"feature {featname} does not accept step {'<0' if i < 0 else '>=0'}")
                                continue
                            ctx.count(n=1)
                            e = float((Tn - 1 - (i % Tn)) * dt_q)
                            if one.shape != (2, 1, 1) or not bool(((one - e).abs() <= tol).all()):
                                ctx.violation("grid:ttm-feature-step", f"feature {featname}.get({i}) is not (T-1-i)*dt on the simulated grid", {"dt": r["dt"], "T": Tn, "i": i,
                                              "observed": one.flatten().tolist(), "expected": e})
                        full = ft.get(None)
                        if full.shape != (2, Tn, 1) or not bool(((full[..., 0] - exp).abs() <= tol).all()):
                            ctx.violation("grid:ttm-feature-all", f"feature {featname}.get(None) is not (T-1-i)*dt on the simulated grid", {"dt": r["dt"], "T": Tn})
                    # payoffs, features and hedges use THIS grid: step i of every feature (negative indices included) is
                    # column i of the simulated series, and the contract is settled on its last column
                    if hasattr(d, "moneyness"):
                        K = d.strike
                        for i in sorted({0, Tn - 1, -1, -Tn}):
                            col = stock.spot[:, [i % Tn]]
                            for fname, got, want in (("moneyness", d.moneyness(i), col / K), ("log_moneyness", d.log_moneyness(i), (col / K).log())):
                                ctx.count(n=1)
                                if got.shape != (2, 1) or not torch.equal(got, want):
                                    ctx.violation(f"grid:{fname}-step", f"{fname}({i}) is not column {i % Tn} of the simulated series (the maturity step for -1)",
                                                  {"dt": r["dt"], "T": Tn, "i": i, "shape": list(got.shape)})
                        if dcls.__name__ == "EuropeanOption":
                            ctx.count(n=1)
                            want = (stock.spot[:, -1] - K).clamp(min=0) if d.call else (K - stock.spot[:, -1]).clamp(min=0)
                            if not torch.equal(d.payoff(), want):
                                ctx.violation("grid:payoff-not-terminal", "the European payoff is not settled on the last point of the simulated grid (where time to maturity is zero)",
                                              {"dt": r["dt"], "k": k, "f": r["f"], "T": Tn, "maturity": M_f})
        # the same derivative object re-used with a new step size and maturity (same T, different dt for consecutive
        # cases): the grid must follow the underlier's CURRENT dt
        if T <= 80:
            stock_r, d_r = reused
            stock_r.dt = dt_f
            d_r.maturity = float(M_q)
            d_r.simulate(n_paths=1)
            Tn = stock_r.spot.size(1)
            ttm_all = d_r.time_to_maturity()
            tol = 4 * torch.finfo(torch.float64).eps * max(Tn - 1, 1) * dt_f
            exp = torch.tensor([float((Tn - 1 - i) * dt_q) for i in range(Tn)], dtype=torch.float64)
            ctx.count(n=1)
            if ttm_all.shape != (1, Tn) or not bool(((ttm_all - exp).abs() <= tol).all()) or not bool(((d_r.time_to_maturity(0) - exp[0]).abs() <= tol).all()):
                ctx.violation("grid:ttm-reused-object", "time_to_maturity on a re-simulated derivative does not follow the underlier's current dt",
                              {"dt": r["dt"], "T": Tn, "observed_first": ttm_all.flatten()[0].item(), "expected_first": exp[0].item()})
        # a user-defined derivative on TWO underliers with different step sizes: every underlier gets ceil(M/dt_j)+1 points
        if n % 5 == 0 and T <= 60:
            from pfhedge.instruments import BaseDerivative
            dt2_q = fr(recs[(n * 7 + 3) % len(recs)]["dt"])
            dt2_f = dt2_q.numerator / dt2_q.denominator

            class TwoUnderliers(BaseDerivative):
                def __init__(self, a, b, maturity):
                    super().__init__()
                    self.register_underlier("first", a)
                    self.register_underlier("second", b)
                    self.maturity = maturity

                def payoff_fn(self):
                    return self.ul(0).spot[..., -1] - self.ul(1).spot[..., -1]
            sa, sb = BrownianStock(dt=dt_f), BrownianStock(dt=dt2_f)
            two = TwoUnderliers(sa, sb, float(M_q))
            two.simulate(n_paths=1)
            import math
            T2 = math.ceil(M_q / dt2_q) + 1
            ctx.count(n=1)
            if sa.spot.size(1) != T or sb.spot.size(1) != T2:
                ctx.violation("grid:steps:second-underlier", f"derivative on two underliers (dt {r['dt']} and {dt2_q}): simulated {sa.spot.size(1)} and {sb.spot.size(1)} time points, ceil(M/dt)+1 = {T} and {T2}",
                              {"dt": r["dt"], "dt2": [dt2_q.numerator, dt2_q.denominator], "k": k, "f": r["f"]})
        # the underlier of an existing derivative replaced by assignment (a primary simulated earlier over another horizon)
        if n % 9 == 0 and T <= 60:
            other = BrownianStock(dt=dt_f, dtype=torch.float64)
            other.simulate(n_paths=1, time_horizon=float(M_q) * 3 + dt_f)
            dd = EuropeanOption(BrownianStock(dt=dt_f, dtype=torch.float64), maturity=float(M_q))
            dd.simulate(n_paths=1)
            dd.underlier = other
            dd.simulate(n_paths=1)
            ctx.count(n=1)
            ok = dd.ul() is other and other.spot.size(1) == T and tuple(dd.time_to_maturity().shape) == (1, T) and tuple(dd.moneyness().shape) == (1, T)
            if not ok:
                ctx.violation("grid:replaced-underlier", "after assigning a new underlier, simulate()/time_to_maturity()/moneyness() do not use one common grid of the new underlier",
                              {"dt": r["dt"], "T": T, "ul_is_new": dd.ul() is other, "new_spot_T": other.spot.size(1), "ttm_shape": list(dd.time_to_maturity().shape)})
        # forward-start index: start = (k + f) dt  ->  floor(start / dt) = k
        for sname, s_f in spellings.items():
            fs = EuropeanForwardStartOption(BrownianStock(dt=dt_f), maturity=2 * s_f + dt_f, start=s_f)
            idx = fs._start_index()
            ctx.count(n=1)
            if idx != r["start_index"]:
                kind = "integral-ratio" if integral else "fractional-ratio"
                ctx.violation(f"grid:start-index:{kind}", f"forward-start index for start={sname} is {idx}, floor(start/dt) = {r['start_index']}",
                              {"dt": r["dt"], "k": k, "f": r["f"], "start_float": s_f, "spelling": sname})
        if n % 500 == 0:
            ctx.sample({"grid_case": r})
    # binding demonstration: an expected T shifted by one is rejected by the same comparison
    stock = BrownianStock(dt=0.25)
    stock.simulate(n_paths=1, time_horizon=1.0)
    ctx.selftest("a wrong expected number of time points is rejected", tuple(stock.spot.shape) != (1, 5 + 1))
    from checks import suite_oracles
    suite_oracles.suite(ctx, "grid")      # every derivative.simulate() of the repository's own tests against ceil(M/dt)+1
    ctx.traces_validated = len(recs)
    ctx.exhaustive = True
    ctx.rule = ("every (dt, k, fraction) of Grid.tla's menu, maturity handed over in 2-3 float spellings; BrownianStock on every case, the "
                "other 7 primaries on every 11th; distinct = distinct (dt, k, fraction)")
    ctx.assumptions += ["time to maturity compared with absolute tolerance 4*eps*(T-1)*dt, exact zero demanded at the last step",
                        "a maturity is 'within rounding distance of k*dt' when it is the correctly rounded float of k*dt or the float product k*dt"]


if __name__ == "__main__":
    raise SystemExit(run_check("C13", check))
