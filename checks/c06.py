"""C06 - cash() is the certainty equivalent and price() the indifference price.

Risk.tla gives the exact certainty equivalents (invariant CEBounds; cash invariance of the risk measures); PriceFlow.tla
models price()/compute_loss() as Simulate -> Portfolio -> Cash over n_times fresh draws with the invariants PriceShift,
PriceIsLoss, OneDrawPerTime, FreshBuffers.  Replay: every lattice sample (single column, multi-column, with target,
constants) into cash() of every criterion incl. user subclasses on the default search - against the exact value and
against the property's own relations; every PriceFlow behaviour into a real Hedger on a scripted market.
"""
import json

from lib.core import Ctx, run_check
from checks import risk_common


def check(ctx: Ctx) -> None:
    singles, _ = risk_common.run_risk_models(ctx, pairs=False)
    risk_common.cash_replay(ctx, singles)
    risk_common.cash_large_level(ctx)
    nprice = risk_common.price_replay(ctx)
    ctx.sections['price_behaviours_replayed'] = nprice
    for r in singles:
        ctx.distinct.add(json.dumps(r["x"]) + json.dumps(r["ps"]))
    ctx.sample({"single": {k: singles[len(singles) // 3][k] for k in ("x", "es", "m2", "iso", "mean")}})
    ctx.traces_validated = len(singles) + nprice
    ctx.exhaustive = True
    ctx.assumptions += ["default-search cash amounts are compared within the bisection precision 1e-6 the code documents"]
    ctx.rule = "PriceFlow.tla: all draws over the price lattice x configs x payoff shifts x criteria x n_times; Risk.tla: all lattice samples (incl. constants) as single and multi-column inputs x all criteria incl. user subclasses on the default search"


if __name__ == "__main__":
    raise SystemExit(run_check("C06", check))
