"""C05 - risk-measure values equal their mathematical definitions.

Risk.tla defines every criterion in exact rational arithmetic from the property text; TLC evaluates the definitions
(and their internal consistency: VaRProperties, QIsMinimum, ESDefinition) on every integer sample of the bounded
lattice and emits them.  The harness arranges the samples as columns of (N,M) / (N,M,K) tensors in every axis order
and replays them into the functional forms (explicit dim arguments) and the loss modules (with and without target).
"""
from lib.core import Ctx, run_check
from checks import risk_common


def check(ctx: Ctx) -> None:
    singles, _ = risk_common.run_risk_models(ctx, pairs=False)
    rr = risk_common.RiskReplay(ctx, "")
    rr.replay_values(singles)
    risk_common.spellings(ctx, singles)
    risk_common.levels_near_a_count(ctx)
    risk_common.selftest_values(ctx, singles)
    import json
    for r in singles:
        ctx.distinct.add(json.dumps(r["x"]) + json.dumps(r["ps"]))
    for r in singles[:: max(1, len(singles) // 4)]:
        ctx.sample({"x": r["x"], "es": r["es"], "qcvar": r["qcvar"], "m2": r["m2"], "var": r["var"]}, cap=4)
    ctx.traces_validated = len(singles)
    ctx.exhaustive = True
    ctx.rule = ("all integer samples x in Lattice^N (N = 1..4 quick, ..6 thorough; ties and constants included) x quantile levels x "
                "lambdas x risk aversions, replayed in 3-6 tensor layouts, float64 and float32; distinct = distinct (sample, parameter menu)")
    ctx.assumptions += ["ERM/entropic loss compared through one log2/exp; tolerance 1e-12 (float64), 2e-6 (float32)",
                        "quadratic CVaR compared within 1e-6 (the bisection precision the code documents)",
                        "value_at_risk between the prescribed points is only required to be monotone in p and inside [min,max]",
                        "expected_shortfall(dim=None) is replayed on 1-D samples only"]


if __name__ == "__main__":
    raise SystemExit(run_check("C05", check))
