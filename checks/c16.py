"""C16 - computations never mutate market data nor depend on call history.

Session.tla: primaries with buffer VERSIONS, derivatives sharing underliers, hedgers with parameter versions and the
state they carry (prev_output), a memo of results keyed by (operation, parameters, derivative, versions read).  TLC
checks Purity, Locality, FreshOnSimulate (action properties) and HistoryIndependent / CarriedStateIsOwn on all
interleavings of simulate / payoff / features / listed price / compute_hedge / compute_portfolio / compute_pl /
compute_loss / price to a bounded depth.

Binding:
  spec -> code   TLC's interleavings (exhaustive depth 3, simulated depth 9 with two hedgers) are executed on real
                 objects for several hedger kinds; after every operation the content hash of every buffer of every
                 primary is compared with the machine's versions (read-only operations must not change any), and every
                 result is compared bitwise with the result of a FRESH hedger holding the same parameters on the same
                 buffers.
  code -> spec   seeded random sessions are run with a recorder (public calls only, hashes renamed to versions);
                 SessionTrace.tla (TLC) accepts a trace iff every line is explained.
  sweep          every public functional / module computation is called on cloned arguments; caller tensors must be
                 bitwise unchanged afterwards.
"""
from __future__ import annotations

import copy
import os
import hashlib
import json
import random
import re
import warnings
from typing import Any, Callable, Dict, List, Optional, Tuple

import torch

from lib.core import Ctx, run_check
from lib.tlc import MachineryError, WORK, VERIF as VERIF_ROOT
REPO = os.environ.get("VERIF_REPO", "/repo")

KINDS = ["recurrent-linear", "batched-log-module", "identity-single", "inplace-single", "shared-module-prev", "module-listed-spot", "whalley-wilmott", "black-scholes", "mlp-tanh"]


def thash(*ts: torch.Tensor) -> str:
    h = hashlib.sha1()
    for t in ts:
        t = t.detach().contiguous()
        h.update(str(t.dtype).encode()); h.update(str(tuple(t.shape)).encode())
        h.update(t.cpu().numpy().tobytes() if t.dtype != torch.bfloat16 else t.float().cpu().numpy().tobytes())
    return h.hexdigest()[:16]


class World:
    def __init__(self, kind: str, seed: int) -> None:
        from pfhedge.instruments import BrownianStock, EuropeanOption, HestonStock, LookbackOption
        dtype = torch.float64
        self.kind = kind
        # the two primaries have DIFFERENT step sizes but give series of the same length (5 time points): whatever a hedger or a
        # feature remembers about a derivative must not be keyed on shapes alone
        self.costs = {"p1": 1e-3, "p2": 2e-3}                            # the CONFIGURATION of the market: everything a freshly
        self.strikes = {"d1": 1.0, "d2": 1.1, "d3": 1.0}                  # built copy of it needs (fresh_world)
        self.nclauses: Dict[str, int] = {"d1": 0, "d2": 0, "d3": 0}
        self.nlist: Dict[str, int] = {"d1": 0, "d2": 0, "d3": 0}
        self.nstrike: Dict[str, int] = {"d1": 0, "d2": 0, "d3": 0}
        self.ncost: Dict[str, int] = {"p1": 0, "p2": 0}
        self.build_market()
        self.bound: Dict[str, Any] = {}                                   # feature objects that stay bound between operations
        self.base: Dict[str, Any] = {}                                    # one unbound feature object per kind ...
        self.handles: Dict[Any, Any] = {}                                 # ... and the handles f.of(d) obtained from it, kept per derivative
        torch.manual_seed(seed)
        self.hedgers = {"h1": self.make_hedger()}
        self.hedgers["h2"] = self.clone_hedger(self.hedgers["h1"], sibling=True)   # same parameters: must agree with h1
        self.seed = seed * 1000
        self.vmap: Dict[str, int] = {}
        self.rmap: Dict[str, int] = {}
        self.pmap: Dict[str, int] = {}

    CLAUSES = [lambda dd, p: p * 2 + 1, lambda dd, p: p.clamp(max=1.25)]
    PRICERS = {"d1": [lambda d: d.ul().spot * 0.5 + 0.1, lambda d: d.ul().spot * 0.25 + 0.3, lambda d: (d.ul().spot - 0.5).abs() + 0.2],
               "d2": [lambda d: d.ul().spot, lambda d: d.ul().spot * 0.25 + 0.3, lambda d: (d.ul().spot - 0.5).abs() + 0.2],   # [0] hands out the buffer itself
               "d3": [lambda d: (d.ul().spot - 1.0).abs() + 0.05, lambda d: d.ul().spot * 0.25 + 0.3, lambda d: (d.ul().spot - 0.5).abs() + 0.2]}
    LIST_COST = {"d1": 1e-4, "d2": 5e-4, "d3": 2e-4}

    def build_market(self) -> None:
        """Instruments for the current configuration (costs, strikes, clauses, listings), without simulated data.  The two
        primaries have DIFFERENT step sizes but give series of the same length (5 time points): whatever a hedger or a feature
        remembers about a derivative must not be keyed on shapes alone."""
        from pfhedge.instruments import BrownianStock, EuropeanOption, HestonStock, LookbackOption
        dtype = torch.float64
        self.prim = {"p1": BrownianStock(dt=0.25, cost=self.costs["p1"], dtype=dtype), "p2": HestonStock(dt=0.125, cost=self.costs["p2"], dtype=dtype)}
        self.deriv = {"d1": EuropeanOption(self.prim["p1"], maturity=1.0, strike=self.strikes["d1"]),
                      "d2": LookbackOption(self.prim["p1"], maturity=1.0, strike=self.strikes["d2"]),
                      "d3": EuropeanOption(self.prim["p2"], call=False, maturity=0.5, strike=self.strikes["d3"])}
        for d, dv in self.deriv.items():
            for k in range(self.nclauses[d]):
                dv.add_clause(f"clause{k}", self.CLAUSES[k])
            dv.list(self.PRICERS[d][self.nlist[d]], cost=self.LIST_COST[d])

    def fresh_world(self, h: str) -> "World":
        """A freshly built market with the CURRENT configuration and copies of the current simulated series, and a freshly built
        hedger with the parameters of hedger h: the reference every long-lived object is compared with."""
        w = World.__new__(World)
        w.kind = self.kind
        w.costs, w.strikes = dict(self.costs), dict(self.strikes)
        w.nclauses, w.nlist, w.nstrike, w.ncost = dict(self.nclauses), dict(self.nlist), dict(self.nstrike), dict(self.ncost)
        w.build_market()
        for pn, prim in self.prim.items():
            for name, b in prim.named_buffers():
                w.prim[pn].register_buffer(name, b.detach().clone())
        w.bound, w.base, w.handles = {}, {}, {}
        w.seed, w.vmap, w.rmap, w.pmap = self.seed, {}, {}, {}
        w.hedgers = {}
        w._building_fresh = False
        w.hedgers["_fresh"] = w.clone_hedger(self.hedgers[h])
        return w

    # ---------------------------------------------------------------- hedgers
    def make_hedger(self):
        from pfhedge.features import ModuleOutput, Moneyness, PrevHedge, TimeToMaturity
        from pfhedge.features.features import UnderlierLogSpot
        from pfhedge.nn import BlackScholes, Hedger, MultiLayerPerceptron, WhalleyWilmott
        dt = torch.float64
        k = self.kind
        if k == "recurrent-linear":
            return Hedger(torch.nn.Linear(4, 1, dtype=dt), ["log_moneyness", "time_to_maturity", "volatility", "prev_hedge"])
        if k == "batched-log-module":
            mo = ModuleOutput(torch.nn.Linear(2, 1, dtype=dt), [Moneyness(), TimeToMaturity()])
            return Hedger(torch.nn.Linear(5, 1, dtype=dt), ["log_moneyness", "max_log_moneyness", UnderlierLogSpot(), "variance", mo])
        if k == "identity-single":
            return Hedger(torch.nn.Identity(), ["underlier_spot"])
        if k == "shared-module-prev":
            # ONE ModuleOutput feature object (reading prev_hedge) shared by the hedgers of this world - a user re-using a
            # feature list to compare two models.  A fresh clone gets its own feature object.
            if getattr(self, "_building_fresh", False) or not hasattr(self, "_shared_mo"):
                mo = ModuleOutput(torch.nn.Linear(2, 1, dtype=dt), [PrevHedge(), Moneyness()])
                if not getattr(self, "_building_fresh", False):
                    self._shared_mo = mo
            else:
                mo = self._shared_mo
            return Hedger(torch.nn.Linear(2, 1, dtype=dt), [mo, "time_to_maturity"])
        if k == "module-listed-spot":      # the listed price of the hedged derivative enters through a ModuleOutput feature
            from pfhedge.features import Spot
            mo = ModuleOutput(torch.nn.Linear(2, 1, dtype=dt), [Spot(), Moneyness()])
            return Hedger(torch.nn.Linear(2, 1, dtype=dt), [mo, "time_to_maturity"])
        if k == "inplace-single":        # a user model whose first operation works in place on its input
            return Hedger(torch.nn.Hardtanh(0.0, 1.0, inplace=True), ["underlier_spot"])
        if k == "whalley-wilmott":
            m = WhalleyWilmott(self.deriv["d1"])
            return Hedger(m, m.inputs())
        if k == "black-scholes":
            m = BlackScholes(self.deriv["d1"])
            return Hedger(m, m.inputs())
        if k == "mlp-tanh":
            net = torch.nn.Sequential(torch.nn.Linear(3, 4, dtype=dt), torch.nn.Tanh(), torch.nn.Linear(4, 1, dtype=dt), torch.nn.Hardtanh())
            return Hedger(net, ["moneyness", "time_to_maturity", "prev_hedge"])
        raise KeyError(k)

    def clone_hedger(self, h, sibling: bool = False):
        """A hedger with the same parameters and no carried state; a sibling shares the world's shared feature objects,
        a fresh clone (the reference of every comparison) has feature objects of its own."""
        self._building_fresh = not sibling
        try:
            fresh = self.make_hedger()
        finally:
            self._building_fresh = False
        fresh.model.load_state_dict(copy.deepcopy(h.model.state_dict()))
        for a, b in zip(fresh.inputs.features, h.inputs.features):
            if isinstance(a, torch.nn.Module):
                a.load_state_dict(copy.deepcopy(b.state_dict()))
        return fresh

    # ---------------------------------------------------------------- observation
    def versions(self) -> Dict[str, int]:
        out = {}
        for p, prim in self.prim.items():
            bufs = [b for _, b in sorted(prim.named_buffers())]
            if not bufs:
                out[p] = 0
                continue
            h = thash(*bufs)
            if h not in self.vmap:
                self.vmap[h] = len(self.vmap) + 1
            out[p] = self.vmap[h]
        return out

    def npaths(self) -> Dict[str, int]:
        return {p: (prim.spot.size(0) if dict(prim.named_buffers()) else 0) for p, prim in self.prim.items()}

    def params_of(self, h: str) -> List[torch.Tensor]:
        hd = self.hedgers[h]
        ps = list(hd.model.parameters())
        for f in hd.inputs.features:
            if isinstance(f, torch.nn.Module):
                ps += list(f.parameters())
        return ps

    def pversions(self) -> Dict[str, int]:
        out = {}
        for h in ("h1", "h2"):
            ps = self.params_of(h)
            key = thash(*ps) if ps else "no-parameters"
            if key not in self.pmap:
                self.pmap[key] = len(self.pmap) + 1
            out[h] = self.pmap[key]
        return out

    def rid(self, t: torch.Tensor) -> int:
        h = thash(t)
        if h not in self.rmap:
            self.rmap[h] = len(self.rmap) + 1
        return self.rmap[h]

    # ---------------------------------------------------------------- operations
    def run(self, op: str, h: str, d: str, n: int) -> Optional[torch.Tensor]:
        dv = self.deriv[d]
        hd = self.hedgers.get(h)
        if op == "Simulate":
            self.seed += 1
            torch.manual_seed(self.seed)
            dv.simulate(n_paths=n)
            return None
        if op == "AddClause":
            k = self.nclauses[d]
            dv.add_clause(f"clause{k}", self.CLAUSES[k])
            self.nclauses[d] = k + 1
            return None
        if op == "Relist":                 # delist() and list() again with another pricer: the listed price changes, nothing else
            k = self.nlist[d]
            cost = dv.cost
            dv.delist()
            dv.list(self.PRICERS[d][k + 1], cost=cost)
            self.nlist[d] = k + 1
            return None
        if op == "Restrike":               # the contract terms are edited through the public attribute
            k = self.nstrike[d]
            self.strikes[d] = [1.05, 0.9][k] if d != "d2" else [1.0, 1.2][k]
            dv.strike = self.strikes[d]
            self.nstrike[d] = k + 1
            return None
        if op == "SetCost":                # the underlier's proportional cost rate is changed through the public attribute
            ul = "p2" if d == "d3" else "p1"
            k = self.ncost[ul]
            self.costs[ul] = [4e-3, 0.0][k]
            self.prim[ul].cost = self.costs[ul]
            self.ncost[ul] = k + 1
            return None
        if op == "Fit":
            params = self.params_of(h)
            if not params:
                raise NoParameters()
            self.seed += 1
            torch.manual_seed(self.seed)
            hd.fit(dv, n_paths=n, n_epochs=1, optimizer=torch.optim.SGD(params, lr=0.05), validation=False, verbose=False)
            return None
        if op == "Abort":
            # compute_pl with a model that raises half-way (at its second call, or at its only call when all steps are evaluated at
            # once) - injected through a forward pre-hook, torch's public API; the exception reaches the caller
            calls = {"n": 0}
            two = hd.inputs.is_state_dependent()

            class Fault(Exception):
                pass

            def boom(module, args):
                calls["n"] += 1
                if calls["n"] >= (2 if two else 1):
                    raise Fault()
            handle = hd.model.register_forward_pre_hook(boom)
            try:
                hd.compute_pl(dv)
            except Fault:
                pass
            else:
                raise MachineryError("the injected fault did not reach the caller of compute_pl")
            finally:
                handle.remove()
            return None
        if op == "Payoff":
            return dv.payoff()
        if op == "ListedSpot":
            return dv.spot if dv.is_listed else dv.ul().spot * 1.0
        if op == "Features":
            from pfhedge.features import Barrier, get_feature
            from pfhedge.features.features import UnderlierLogSpot
            from pfhedge.features import Spot
            names: List[Any] = ["moneyness", "log_moneyness", "max_moneyness", "max_log_moneyness", "time_to_maturity", "volatility", "variance",
                                "underlier_spot", UnderlierLogSpot(), "zeros", Barrier(1.05), Barrier(0.95, up=False)]
            if dv.is_listed:
                names += ["spot", Spot(log=True)]
            outs = []
            for j, f in enumerate(names):
                ft = get_feature(f).of(dv)
                outs.append(ft.get(None).flatten())
                outs.append(ft.get(1).flatten())
                # ... and through a feature object that stays bound between operations and is re-bound from its previous binding
                key = f if isinstance(f, str) else f"{type(f).__name__}{j}"
                prevb = self.bound.get(key)
                self.bound[key] = (prevb if prevb is not None else get_feature(f)).of(dv)
                outs.append(self.bound[key].get(None).flatten())
                # ... and through a handle obtained ONCE from one unbound feature object that is afterwards bound to the other
                # derivatives as well (features = [f.of(d) for d in book]): the handle keeps reading its own derivative
                base = self.base.setdefault(key, get_feature(f))
                hk = (key, d)
                if hk not in self.handles:
                    self.handles[hk] = base.of(dv)
                outs.append(self.handles[hk].get(None).flatten())
            return torch.cat(outs)
        hedge = [dv.ul(), self.deriv["d2"]] if (self.kind == "identity-single" and False) else None
        if op == "ComputeHedge":
            return hd.compute_hedge(dv, hedge=hedge)
        if op == "ComputePortfolio":
            return hd.compute_portfolio(dv, hedge=hedge)
        if op == "ComputePL":
            return hd.compute_pl(dv, hedge=hedge)
        if op in ("ComputeLoss", "Price"):
            self.seed += 1
            torch.manual_seed(self.seed)
            fn = hd.compute_loss if op == "ComputeLoss" else hd.price
            return fn(dv, n_paths=n)
        raise MachineryError(f"unknown op {op}")


class NoParameters(Exception):
    """fit() of a parameter-free hedger (Black-Scholes, Whalley-Wilmott, Identity): outside the session model."""


READ_ONLY = {"Payoff", "Features", "ListedSpot", "ComputeHedge", "ComputePortfolio", "ComputePL"}


def replay_history(ctx: Ctx, hist: List[Dict[str, Any]], kind: str, seed: int) -> None:
    w = World(kind, seed)
    ops_so_far: List[Any] = []
    for ev in hist:
        op, h, d, n = ev["op"], ev["h"], ev["d"], ev["n"]
        ops_so_far.append([op, h, d, n])
        before = w.versions()
        detail = {"hedger_kind": kind, "ops": list(ops_so_far)}
        fresh_res = None
        if op in ("ComputeHedge", "ComputePortfolio", "ComputePL"):
            fresh = w.clone_hedger(w.hedgers[h])
            keep, w.hedgers["_fresh"] = w.hedgers.get("_fresh"), fresh
            fresh_res = w.run(op, "_fresh", d, n)
            mid = w.versions()
            if mid != before:
                ctx.violation(f"purity:{op}", f"{op} changed a simulated buffer (hedger kind {kind})", {**detail, "before": before, "after": mid, "by": "fresh hedger"})
                return
        if op == "Restrike" and d == "d1" and kind in ("whalley-wilmott", "black-scholes"):
            ctx.skip("re-striking the derivative a Black-Scholes / Whalley-Wilmott model was built from (the model keeps the strike of its construction): rest of the interleaving not judged")
            return
        pbefore = w.pversions()
        # what the caller may still hold: the tensor OBJECTS that are registered now.  A new simulation replaces the instrument's
        # buffers (Market.tla: SimulateReplacesAll); it never writes into the series it replaces
        held = [(pn, name, b, b.detach().clone()) for pn, prim in w.prim.items() for name, b in prim.named_buffers()]
        try:
            res = w.run(op, h, d, n)
        except NoParameters:
            ctx.skip("fit() of a parameter-free hedger kind: rest of the interleaving not judged")
            return
        after = w.versions()
        pafter = w.pversions()
        ctx.count(n=1)
        for pn, name, obj, copy_ in held:
            if obj.shape != copy_.shape or not torch.equal(obj.detach().nan_to_num(), copy_.nan_to_num()):
                ctx.violation(f"held-series:{op}", f"{op} wrote into a series tensor the caller obtained earlier ({pn}.{name}): a simulation replaces an instrument's series, "
                              "the replaced tensor keeps its values", {**detail, "primary": pn, "buffer": name})
                return
        if op == "AddClause" and after != before:
            ctx.violation("purity:AddClause", "add_clause changed a simulated buffer", detail)
            return
        if op == "Abort" and (after != before or pafter != pbefore):
            ctx.violation("purity:Abort", "a computation that raised half-way changed a simulated buffer or a parameter", detail)
            return
        if op in ("Relist", "Restrike", "SetCost") and after != before:
            ctx.violation(f"purity:{op}", f"{op} changed a simulated buffer", detail)
            return
        if op != "Fit" and pafter != pbefore:
            ctx.violation(f"params-changed:{op}", f"{op} changed model parameters (only fit() may)", detail)
            return
        if op == "Fit":
            other_h = "h2" if h == "h1" else "h1"
            shared = w.kind == "shared-module-prev"        # the shared feature extractor belongs to both hedgers
            if pafter[other_h] != pbefore[other_h] and not shared:
                ctx.violation("params-changed:Fit:other-hedger", "fit() of one hedger changed the parameters of another hedger", detail)
                return
        if op in READ_ONLY and after != before:
            ctx.violation(f"purity:{op}", f"{op} changed a simulated buffer (hedger kind {kind})", {**detail, "before": before, "after": after})
            return
        if op in ("Simulate", "ComputeLoss", "Price", "Fit"):
            ul = "p2" if d == "d3" else "p1"
            other = "p1" if ul == "p2" else "p2"
            if after[other] != before[other]:
                ctx.violation(f"locality:{op}", f"{op} on {d} changed the buffers of another primary", detail)
                return
            if after[ul] == before[ul]:
                ctx.violation(f"simulate:{op}:stale", f"{op} did not replace the simulated buffers", detail)
                return
            if w.npaths() != ev["npaths"]:
                ctx.violation(f"simulate:{op}:npaths", f"{op}(n_paths={n}) left buffers with {w.npaths()} paths", detail)
                return
        if op in ("Payoff", "ListedSpot", "Features", "ComputeHedge", "ComputePortfolio", "ComputePL") and not (
                w.kind in ("whalley-wilmott", "black-scholes") and w.nstrike["d1"] > 0):       # (these models copy d1's strike when they are built)
            # the same operation in a FRESHLY BUILT market with the current configuration and the current series
            hh = h if h != "-" else "h1"
            ref = w.fresh_world(hh).run(op, "_fresh", d, n)
            ctx.count(n=1)
            if res.shape != ref.shape or not torch.equal(res.nan_to_num(), ref.nan_to_num()):
                ctx.violation(f"history:{op}:fresh-market", f"{op} on long-lived objects differs from the same operation on a freshly built market and hedger with the same "
                              f"configuration, parameters and simulated series (hedger kind {kind})", {**detail, "max_abs_diff": float((res - ref).abs().max()) if res.shape == ref.shape else None})
                return
        if fresh_res is not None and (res.shape != fresh_res.shape or not torch.equal(res.nan_to_num(), fresh_res.nan_to_num())):
            ctx.violation(f"history:{op}", f"{op} differs from a fresh hedger with the same parameters on the same buffers (hedger kind {kind})",
                          {**detail, "max_abs_diff": float((res - fresh_res).abs().max()) if res.shape == fresh_res.shape else None})
            return


# ------------------------------------------------------------------------------------------------ code -> spec
def record_sessions(seed: int, n_traces: int, length: int) -> List[Dict[str, Any]]:
    rng = random.Random(seed)
    traces = []
    for t in range(n_traces):
        kind = KINDS[t % len(KINDS)]
        w = World(kind, seed * 100 + t)
        events: List[Dict[str, Any]] = []
        simulated = set()
        for _ in range(length):
            d = rng.choice(["d1", "d2", "d3"])
            ul = "p2" if d == "d3" else "p1"
            if ul not in simulated:
                op = rng.choice(["Simulate", "ComputeLoss", "Price"])
            else:
                op = rng.choice(["Simulate", "Payoff", "Features", "ListedSpot", "ComputeHedge", "ComputeHedge", "ComputePortfolio", "ComputePL", "ComputePL", "ComputeLoss", "Price",
                                 "AddClause", "Fit", "Relist", "Restrike", "SetCost", "Abort"])
            if op == "AddClause" and w.nclauses[d] >= 2:
                op = "Payoff"
            if op == "Relist" and w.nlist[d] >= 2:
                op = "ListedSpot"
            if op == "Restrike" and (w.nstrike[d] >= 2 or (kind in ("whalley-wilmott", "black-scholes") and d == "d1")):
                op = "Payoff"
            if op == "SetCost" and (w.ncost[ul] >= 2 or (kind == "whalley-wilmott" and ul == "p1")):
                op = "ComputePL"             # (the Whalley-Wilmott model of this world is built from d1: its band reads p1's cost rate whatever it hedges)
            if op == "Fit" and kind == "shared-module-prev":
                op = "ComputePL"             # the two hedgers of this kind share trainable parameters BY CONSTRUCTION: fit() of one is fit() of both
            h = rng.choice(["h1", "h1", "h2"]) if op.startswith("Compute") or op in ("Price", "Fit", "Abort") else "-"
            n = rng.choice([2, 3]) if op in ("Simulate", "ComputeLoss", "Price", "Fit") else 0
            pv0 = w.pversions()
            try:
                res = w.run(op, h, d, n)
            except NoParameters:
                op, h, n = "Payoff", "-", 0
                if ul not in simulated:
                    continue
                res = w.run(op, h, d, n)
            if op == "Fit" and w.pversions()[h] == pv0[h]:
                break                       # a step that left the parameters bit-identical (zero gradient): end this trace here
            if op in ("Simulate", "ComputeLoss", "Price", "Fit"):
                simulated.add(ul)
            events.append({"op": op, "h": h, "d": d, "n": n, "ver": w.versions(), "npaths": w.npaths(), "cv": w.nclauses[d], "lv": w.nlist[d], "kv": w.nstrike[d], "uv": w.ncost[ul], "pvs": w.pversions(),
                           "res": 0 if (res is None or op in ("ComputeLoss", "Price", "Fit", "AddClause", "Relist", "Restrike", "SetCost", "Abort")) else w.rid(res)})
        traces.append({"kind": kind, "events": events})
    return traces


def validate(ctx: Ctx, traces: List[Dict[str, Any]], tag: str) -> List[Tuple[int, int, int]]:
    path = WORK / ctx.pid / f"sessions_{tag}.json"
    path.parent.mkdir(parents=True, exist_ok=True)
    path.write_text(json.dumps(traces))
    res = ctx.tlc("MC_SessionTrace", "MC_SessionTrace.cfg", workers=1, coverage=False, env={"TRACE_FILE": str(path)})
    out = [(int(a), int(b), int(c)) for a, b, c in re.findall(r'<<"TRACE", (\d+), (\d+), (\d+)>>', res.stdout)]
    if len(out) != len(traces):
        raise MachineryError(f"SessionTrace reported {len(out)} verdicts for {len(traces)} traces")
    return out


# ------------------------------------------------------------------------------------------------ sweep
def argument_purity_sweep(ctx: Ctx) -> None:
    """Every public computation on cloned caller tensors: the originals must be bitwise unchanged."""
    import pfhedge.nn.functional as F
    import pfhedge.nn as nn
    from pfhedge.nn.modules.loss import OCE
    torch.manual_seed(ctx.seed)
    dt = torch.float64
    x = torch.randn(12, 3, dtype=dt)
    pos = x.abs() + 0.5
    path = (torch.randn(6, 5, dtype=dt) * 0.1).cumsum(-1).exp()
    s = torch.randn(7, dtype=dt) * 0.2
    t = torch.rand(7, dtype=dt) + 0.1
    v = torch.rand(7, dtype=dt) * 0.3 + 0.1
    mx = torch.maximum(s, torch.zeros_like(s)) + 0.05
    spot = path.unsqueeze(1).repeat(1, 2, 1)
    unit = torch.randn(6, 2, 5, dtype=dt)
    payoff = torch.randn(6, dtype=dt)
    calls: List[Tuple[str, Callable[..., Any], List[torch.Tensor]]] = [
        ("european_payoff", lambda a: F.european_payoff(a, strike=1.0), [path]),
        ("lookback_payoff", lambda a: F.lookback_payoff(a, call=False), [path]),
        ("american_binary_payoff", lambda a: F.american_binary_payoff(a), [path]),
        ("european_binary_payoff", lambda a: F.european_binary_payoff(a), [path]),
        ("european_forward_start_payoff", lambda a: F.european_forward_start_payoff(a, start_index=2), [path]),
        ("realized_variance", lambda a: F.realized_variance(a, 0.1), [path]),
        ("realized_volatility", lambda a: F.realized_volatility(a, 0.1), [path]),
        ("exp_utility", lambda a: F.exp_utility(a), [x]), ("isoelastic_utility", lambda a: F.isoelastic_utility(a, 0.5), [pos]),
        ("entropic_risk_measure", lambda a: F.entropic_risk_measure(a), [x]),
        ("expected_shortfall", lambda a: F.expected_shortfall(a, 0.3, dim=0), [x]),
        ("value_at_risk", lambda a: F.value_at_risk(a, 0.3, dim=0), [x]),
        ("quadratic_cvar", lambda a: F.quadratic_cvar(a, 2.0, dim=0), [x]),
        ("topp", lambda a: F.topp(a, 0.3, dim=0).values, [x]),
        ("leaky_clamp", lambda a, b, c: F.leaky_clamp(a, b, c), [x, x - 1, x + 1]),
        ("clamp", lambda a, b, c: F.clamp(a, b, c), [x, x - 1, x + 1]),
        ("pl", lambda a, b, c: F.pl(a, b, cost=[1e-3, 2e-3], payoff=c), [spot, unit, payoff]),
        ("terminal_value", lambda a, b, c: F.terminal_value(a, b, cost=[1e-3, 2e-3], payoff=c), [spot, unit, payoff]),
        ("ncdf", lambda a: F.ncdf(a), [x]), ("npdf", lambda a: F.npdf(a), [x]),
        ("d1", lambda a, b, c: F.d1(a, b, c), [s, t, v]), ("d2", lambda a, b, c: F.d2(a, b, c), [s, t, v]),
        ("ww_width", lambda a, b: F.ww_width(a, b, 1e-3), [v, pos[:7, 0]]),
        ("svi_variance", lambda a: F.svi_variance(a, 0.04, 0.2, -0.3, 0.0, 0.1), [s]),
        ("bilerp", lambda a, b, c, d: F.bilerp(a, b, c, d, 0.3, 0.6), [s, t, v, mx]),
        ("box_muller", lambda a, b: F.box_muller(a, b)[0], [t.clamp(max=1.0), v]),
    ]
    for name in ("bs_european_price", "bs_european_delta", "bs_european_gamma", "bs_european_vega", "bs_european_theta",
                 "bs_european_binary_price", "bs_european_binary_delta", "bs_european_binary_gamma", "bs_european_binary_vega", "bs_european_binary_theta"):
        calls.append((name, (lambda a, b, c, fn=getattr(F, name): fn(a, b, c)), [s, t, v]))
    for name in ("bs_american_binary_price", "bs_american_binary_delta", "bs_american_binary_gamma", "bs_american_binary_vega", "bs_american_binary_theta",
                 "bs_lookback_price", "bs_lookback_delta", "bs_lookback_gamma", "bs_lookback_vega", "bs_lookback_theta"):
        calls.append((name, (lambda a, m, b, c, fn=getattr(F, name): fn(a, m, b, c)), [s, mx, t, v]))
    crits = [nn.EntropicRiskMeasure(), nn.EntropicLoss(), nn.IsoelasticLoss(0.5), nn.ExpectedShortfall(0.3), nn.QuadraticCVaR(2.0), OCE(lambda z: -torch.exp(-z))]
    for c in crits:
        arg = pos if isinstance(c, nn.IsoelasticLoss) else x
        tgt = torch.zeros_like(arg) + 0.1
        calls.append((type(c).__name__ + ".forward", (lambda a, b, c=c: c(a, b)), [arg + 0.1, tgt]))
        if not isinstance(c, OCE):
            calls.append((type(c).__name__ + ".cash", (lambda a, b, c=c: c.cash(a, b)), [arg + 0.1, tgt]))
    for cls, extra in ((nn.BSEuropeanOption, []), (nn.BSEuropeanBinaryOption, []), (nn.BSAmericanBinaryOption, [mx]), (nn.BSLookbackOption, [mx])):
        m = cls()
        for meth in ("price", "delta", "gamma", "vega", "theta"):
            args = [s] + extra + [t, v]
            calls.append((f"{cls.__name__}.{meth}", (lambda *a, m=m, meth=meth: getattr(m, meth)(*a)), args))
        calls.append((f"{cls.__name__}.forward", (lambda *a, m=m: m(torch.stack(a, dim=-1))), [s] + extra + [t, v]))
    for name, fn, args in calls:
        mine = [a.clone() for a in args]
        try:
            with warnings.catch_warnings():
                warnings.simplefilter("ignore")
                fn(*mine)
        except Exception as e:
            ctx.skip(f"sweep: {name} raised {type(e).__name__} on the generic arguments")
            continue
        ctx.count(("sweep", name), n=1)
        for i, (a, b) in enumerate(zip(args, mine)):
            if not torch.equal(a, b):
                ctx.violation(f"argument-mutated:{name}", f"{name} modified tensor argument #{i} passed by the caller", {})
    ctx.sections["public_computations_swept"] = len(calls)


def repository_test_purity(ctx: Ctx) -> None:
    """The repository's own feature / instrument / hedger tests run under lib/recorder_plugin.py: every read-only public call
    (Feature.get, payoff, compute_hedge/portfolio/pl) is bracketed by content hashes of the buffers of the instruments involved."""
    import os
    import subprocess
    import sys
    out = WORK / ctx.pid / "repo_purity.json"
    out.parent.mkdir(parents=True, exist_ok=True)
    env = dict(os.environ, PYTHONPATH=str(VERIF_ROOT) + ":" + REPO, PFHEDGE_VERIF_TRACE=str(out))
    files = ["tests/features"] if ctx.tier == "quick" else ["tests/features", "tests/instruments", "tests/nn/modules/test_hedger.py", "tests/test_examples.py"]
    proc = subprocess.run([sys.executable, "-m", "pytest", "-q", "-p", "no:cacheprovider", "-p", "lib.recorder_plugin", "-m", "not gpu", "-q"] + files,
                          cwd=REPO, env=env, capture_output=True, text=True, timeout=1800)
    if not out.exists():
        raise MachineryError("recorder plugin produced no trace:\n" + proc.stdout[-800:] + proc.stderr[-800:])
    events = json.loads(out.read_text())["purity"]
    judged = [e for e in events if e["ok"] and e["n_buffers"] > 0]
    if len(judged) < 50:
        raise MachineryError(f"only {len(judged)} read-only calls with buffers were recorded in the repository's tests")
    for e in judged:
        ctx.count(n=1)
        ctx.traces_validated += 0
        if e["changed"]:
            ctx.violation(f"repo-test-purity:{e['op']}:{e['cls']}", f"in the repository's own test {e['test']}, {e['cls']}.{e['op']} changed the simulated buffer(s) {e['changed']}", e)
    ctx.sections["repository_test_readonly_calls_judged"] = len(judged)
    ctx.sample({"repository_test_call": judged[0]})


def reconfigured_objects(ctx: Ctx) -> None:
    """Objects that are re-configured through their public attributes after they were first used behave like freshly built ones:
    a hedger whose criterion or model is replaced, a criterion whose parameter is reassigned, an underlier whose cost rate or
    volatility is changed, a derivative that is re-struck.  (Same seed, same simulated series for the compared pair.)"""
    from pfhedge.instruments import BrownianStock, EuropeanOption
    from pfhedge.nn import EntropicLoss, EntropicRiskMeasure, ExpectedShortfall, Hedger
    dt = torch.float64

    def market(cost=1e-3, sigma=0.2, strike=1.0):
        st = BrownianStock(cost=cost, sigma=sigma, dt=0.25, dtype=dt)
        return EuropeanOption(st, maturity=1.0, strike=strike)

    def net(seed):
        torch.manual_seed(seed)
        return torch.nn.Sequential(torch.nn.Linear(3, 4, dtype=dt), torch.nn.Tanh(), torch.nn.Linear(4, 1, dtype=dt))
    feats = ["log_moneyness", "time_to_maturity", "volatility"]

    def outcome(h, d, seed):
        torch.manual_seed(seed)
        loss = h.compute_loss(d, n_paths=8).detach()
        torch.manual_seed(seed)
        price = h.price(d, n_paths=8).detach()
        torch.manual_seed(seed)
        d.simulate(n_paths=8)
        return {"loss": loss, "price": price, "hedge": h.compute_hedge(d).detach(), "P&L": h.compute_pl(d).detach()}

    cases = []
    # 1. criterion replaced after construction and first use
    h = Hedger(net(1), feats, criterion=EntropicRiskMeasure(1.0)); outcome(h, market(), 5)
    h.criterion = ExpectedShortfall(0.5)
    cases.append(("hedger.criterion replaced", h, market(), Hedger(net(1), feats, criterion=ExpectedShortfall(0.5)), market()))
    # 2. a criterion whose parameter is reassigned
    h = Hedger(net(2), feats, criterion=EntropicLoss(1.0)); outcome(h, market(), 5)
    h.criterion.a = 2.0
    cases.append(("criterion.a reassigned", h, market(), Hedger(net(2), feats, criterion=EntropicLoss(2.0)), market()))
    # 3. model replaced
    h = Hedger(net(3), feats, criterion=EntropicRiskMeasure(1.0)); outcome(h, market(), 5)
    h.model = net(4)
    cases.append(("hedger.model replaced", h, market(), Hedger(net(4), feats, criterion=EntropicRiskMeasure(1.0)), market()))
    # 4. the underlier's cost rate and volatility changed, the derivative re-struck, after everything was used once
    h = Hedger(net(5), feats, criterion=EntropicRiskMeasure(1.0)); d_used = market(); outcome(h, d_used, 5)
    d_used.ul().cost = 5e-2; d_used.ul().sigma = 0.4; d_used.strike = 1.25
    cases.append(("underlier cost / sigma and derivative strike changed", h, d_used, Hedger(net(5), feats, criterion=EntropicRiskMeasure(1.0)), market(5e-2, 0.4, 1.25)))
    # 5. fit() with an explicit hedge list, then computations with the DEFAULT hedge on another derivative
    import copy as _copy
    h = Hedger(net(6), feats, criterion=EntropicRiskMeasure(1.0))
    d_fit = market()
    quoted = EuropeanOption(d_fit.ul(), maturity=1.0, strike=1.1)
    quoted.list(lambda dd: dd.ul().spot * 0.5 + 0.2, cost=2e-3)
    torch.manual_seed(9)
    h.fit(d_fit, hedge=[quoted], n_epochs=1, n_paths=8, verbose=False, validation=False)
    twin = Hedger(net(6), feats, criterion=EntropicRiskMeasure(1.0))
    twin.model.load_state_dict(_copy.deepcopy(h.model.state_dict()))
    cases.append(("fit(hedge=[a listed option]) before, default hedge now", h, market(), twin, market()))
    for label, used, d1, fresh, d2 in cases:
        try:
            a, b = outcome(used, d1, 77), outcome(fresh, d2, 77)
        except Exception as e:
            ctx.violation("reconfigured:raises", f"{label}: {type(e).__name__}", {"error": repr(e)[:200]})
            continue
        for k in a:
            ctx.count(n=1)
            if a[k].shape != b[k].shape or not torch.equal(a[k], b[k]):
                ctx.violation(f"reconfigured:{k}", f"{label}: {k} differs from a freshly built hedger / market with the same configuration",
                              {"case": label, "used": a[k].flatten().tolist()[:4], "fresh": b[k].flatten().tolist()[:4]})
                break


def shared_series(ctx: Ctx) -> None:
    """One tensor supplied by the caller and registered as the series of TWO instruments (the same scenarios under two cost levels),
    or one instrument's series registered in another: whatever re-simulates one of them (simulate, price, compute_loss, fit - with
    the same number of paths and steps as the shared series) leaves the caller's tensor and the other instrument's series alone,
    and the other derivative's hedge and P&L stay what they were."""
    from pfhedge.instruments import BrownianStock, EuropeanOption, HestonStock
    from pfhedge.nn import BlackScholes, Hedger
    dt = torch.float64
    N, T = 4, 5
    for pk in ("brownian", "heston"):
        for how in ("caller-tensor", "cross-registered"):
            for op in ("simulate", "price", "compute_loss", "fit"):
                torch.manual_seed(11)
                mk = (lambda c: BrownianStock(cost=c, dt=0.25, dtype=dt)) if pk == "brownian" else (lambda c: HestonStock(cost=c, dt=0.25, dtype=dt))
                a, b = mk(0.0), mk(1e-3)
                scen = (torch.randn(N, T, dtype=dt) * 0.05).cumsum(-1).exp()
                var = torch.full((N, T), 0.04, dtype=dt)
                if how == "caller-tensor":
                    for st in (a, b):
                        st.register_buffer("spot", scen)
                        if pk == "heston":
                            st.register_buffer("variance", var)
                else:
                    a.register_buffer("spot", scen.clone())
                    if pk == "heston":
                        a.register_buffer("variance", var.clone())
                    for name, buf in list(a.named_buffers()):
                        b.register_buffer(name, buf)
                da, db = EuropeanOption(a, maturity=1.0), EuropeanOption(b, maturity=1.0)
                held = {f"{nm} of the other instrument": (t_, t_.clone()) for nm, t_ in b.named_buffers()}
                held["the caller's tensor"] = (scen, scen.clone())
                m = BlackScholes(db)
                pl_before = Hedger(m, m.inputs()).compute_pl(db)
                net = torch.nn.Linear(2, 1, dtype=dt)
                h = Hedger(net, ["log_moneyness", "time_to_maturity"])
                try:
                    if op == "simulate":
                        da.simulate(n_paths=N)
                    elif op == "price":
                        h.price(da, n_paths=N)
                    elif op == "compute_loss":
                        h.compute_loss(da, n_paths=N)
                    else:
                        h.fit(da, n_paths=N, n_epochs=1, verbose=False, validation=False)
                except Exception as e:
                    ctx.violation("shared-series:raises", f"{op} on an instrument whose series tensor is shared raised {type(e).__name__}", {"error": repr(e)[:200]})
                    continue
                ctx.count(("shared-series", pk, how, op), n=1)
                if tuple(a.spot.shape) != (N, T):
                    raise MachineryError("shared_series: the re-simulation does not have the shape of the shared series")
                for what, (obj, was) in held.items():
                    if not torch.equal(obj, was):
                        ctx.violation(f"shared-series:{op}", f"{op} of a derivative on one instrument modified {what} ({pk}, {how})", {"primary": pk, "sharing": how, "op": op, "what": what})
                        break
                else:
                    if not torch.equal(Hedger(m, m.inputs()).compute_pl(db), pl_before):
                        ctx.violation(f"shared-series:{op}:pl", f"the P&L of the derivative on the OTHER instrument changed after {op} of the first ({pk}, {how})", {"primary": pk, "sharing": how, "op": op})


def models_of_another_dtype(ctx: Ctx) -> None:
    """A model whose parameters have another dtype than the simulated series (float32 weights on float64 scenarios and the reverse;
    type promotion makes such a user module applicable): computing its hedge / portfolio / P&L - or failing to, for a library
    network that rejects the mix - leaves the series of the derivative as they are, dtype included, and the result of another
    hedger on the same derivative is what it was."""
    from pfhedge.instruments import BrownianStock, EuropeanOption, HestonStock, LookbackOption
    from pfhedge.nn import BlackScholes, Hedger, MultiLayerPerceptron

    class LinearDelta(torch.nn.Module):
        def __init__(self, dtype):
            super().__init__()
            self.weight = torch.nn.Parameter(torch.tensor([0.5, -0.125], dtype=dtype))

        def forward(self, x):
            return (x * self.weight).sum(-1, keepdim=True)

    for sdt, mdt in ((torch.float64, torch.float32), (torch.float32, torch.float64)):
        for mk in ("brownian", "heston"):
            torch.manual_seed(5)
            ul = BrownianStock(cost=1e-4, dt=0.25, dtype=sdt) if mk == "brownian" else HestonStock(cost=1e-4, dt=0.25, dtype=sdt)
            d = (EuropeanOption if mk == "brownian" else LookbackOption)(ul, maturity=1.0)
            d.simulate(n_paths=4)
            was = {k: (b, b.clone()) for k, b in ul.named_buffers()}
            bs = BlackScholes(d)
            pl0 = Hedger(bs, bs.inputs()).compute_pl(d)
            for label, model, inputs in (("user module", LinearDelta(mdt), ["log_moneyness", "time_to_maturity"]),
                                         ("user module with prev_hedge", LinearDelta(mdt), ["log_moneyness", "prev_hedge"]),
                                         ("MultiLayerPerceptron", MultiLayerPerceptron(in_features=2).to(mdt), ["log_moneyness", "time_to_maturity"])):
                hd = Hedger(model, inputs)
                for op in ("compute_hedge", "compute_portfolio", "compute_pl"):
                    try:
                        with torch.no_grad():
                            getattr(hd, op)(d)
                    except RuntimeError:
                        ctx.skip("a model that rejects inputs of another dtype than its parameters (no result; the series are still judged)")
                    ctx.count(("model-dtype", str(sdt), str(mdt), mk, label, op), n=1)
                    now = dict(ul.named_buffers())
                    bad = [k for k, (obj, val) in was.items() if k not in now or now[k].dtype != sdt or now[k].shape != val.shape or not torch.equal(now[k], val) or not torch.equal(obj, val)]
                    if bad or d.dtype != sdt:
                        ctx.violation(f"purity:{op}:model-of-another-dtype", f"{op} with a {label} whose parameters are {mdt} changed the {sdt} series of the derivative "
                                      f"({', '.join(bad) or 'dtype'}; now {d.dtype})", {"series": str(sdt), "model": str(mdt), "underlier": mk, "model_kind": label})
                        break
            pl1 = Hedger(bs, bs.inputs()).compute_pl(d)
            if pl1.dtype != pl0.dtype or not torch.equal(pl1, pl0):
                ctx.violation("history:compute_pl:model-of-another-dtype", "the Black-Scholes P&L of a derivative changed after hedgers with models of another dtype were evaluated on it",
                              {"series": str(sdt), "model": str(mdt), "underlier": mk})


def bound_handles(ctx: Ctx) -> None:
    """handles = [f.of(d) for d in book] from ONE feature object: every handle keeps reading the derivative it was bound to,
    whatever the feature object is bound to afterwards (derivatives of different shapes and dtypes)."""
    from pfhedge.features import Barrier, FeatureList, get_feature
    from pfhedge.features.features import UnderlierLogSpot
    from pfhedge.instruments import BrownianStock, EuropeanOption, HestonStock, LookbackOption
    torch.manual_seed(3)
    d1 = EuropeanOption(BrownianStock(dt=0.25, dtype=torch.float64), maturity=1.0); d1.simulate(n_paths=3)
    d2 = LookbackOption(HestonStock(dt=0.125, dtype=torch.float32), maturity=1.0, strike=1.1); d2.simulate(n_paths=4)
    names = ["moneyness", "log_moneyness", "max_moneyness", "max_log_moneyness", "time_to_maturity", "expiry_time", "volatility", "variance", "underlier_spot",
             "zeros", Barrier(1.05), UnderlierLogSpot()]           # ("empty" is documented as uninitialised memory: no value to compare)
    from pfhedge.features import ModuleOutput
    torch.manual_seed(4)
    mo = ModuleOutput(torch.nn.Linear(2, 1), ["moneyness", "time_to_maturity"])          # float32 weights: read on the float64 and the float32 market
    for f in names + [FeatureList(["moneyness", "time_to_maturity"]), mo]:
        label = f if isinstance(f, str) else type(f).__name__
        try:
            if isinstance(f, ModuleOutput):
                h1 = f.of(d2)
                v1 = h1.get(None).clone()
                d3 = LookbackOption(HestonStock(dt=0.125, dtype=torch.float32), maturity=0.5, strike=0.9); d3.simulate(n_paths=2)
                h2 = f.of(d3)
                v2 = h2.get(None).clone()
                again1 = h1.get(None)
                fresh2 = ModuleOutput(f.module, ["moneyness", "time_to_maturity"]).of(d3).get(None)
                ctx.count(n=2)
                if again1.shape != v1.shape or not torch.equal(again1, v1):
                    ctx.violation("handles:rebound", "the handle ModuleOutput.of(d1) reads another derivative after the same feature object was bound to d2",
                                  {"feature": label, "shape_before": list(v1.shape), "shape_after": list(again1.shape)})
                elif not torch.equal(v2, fresh2):
                    ctx.violation("handles:second", "ModuleOutput.of(d2) obtained from a feature object that had been bound to d1 differs from a fresh feature bound to d2", {"feature": label})
                continue
            base = get_feature(f) if not isinstance(f, FeatureList) else f
            h1 = base.of(d1)
            v1 = h1.get(None).clone()
            h2 = base.of(d2)
            v2 = h2.get(None).clone()
            again1 = h1.get(None)
            fresh2 = (get_feature(f) if not isinstance(f, FeatureList) else FeatureList(["moneyness", "time_to_maturity"])).of(d2).get(None)
        except Exception as e:
            ctx.violation("handles:raises", f"binding one {label} feature object to two derivatives raised {type(e).__name__}", {"error": repr(e)[:200]})
            continue
        ctx.count(n=2)
        if again1.shape != v1.shape or again1.dtype != v1.dtype or not torch.equal(again1, v1):
            ctx.violation("handles:rebound", f"the handle {label}.of(d1) reads another derivative after the same feature object was bound to d2",
                          {"feature": label, "shape_before": list(v1.shape), "shape_after": list(again1.shape)})
        elif not torch.equal(v2, fresh2):
            ctx.violation("handles:second", f"{label}.of(d2) obtained from a feature object that had been bound to d1 differs from a fresh feature bound to d2", {"feature": label})


def fit_after_backward(ctx: Ctx) -> None:
    """fit() on a hedger whose parameters still carry gradients of an earlier, unrelated computation (a loss of ANOTHER derivative
    back-propagated by hand; another hedger sharing the model): the fitted parameters and the validation history equal those
    of a fresh hedger holding the same parameters, fitted on the same paths."""
    import copy as _copy
    import contextlib, io
    from pfhedge.instruments import BrownianStock, EuropeanOption, LookbackOption
    from pfhedge.nn import EntropicRiskMeasure, Hedger
    dt = torch.float64
    feats = ["log_moneyness", "time_to_maturity", "volatility"]

    def net(seed):
        torch.manual_seed(seed)
        return torch.nn.Sequential(torch.nn.Linear(3, 4, dtype=dt), torch.nn.Tanh(), torch.nn.Linear(4, 1, dtype=dt))

    def market():
        return EuropeanOption(BrownianStock(cost=1e-3, dt=0.25, dtype=dt), maturity=1.0)

    for label in ("a loss of another derivative back-propagated by hand", "another hedger sharing the model back-propagated", "gradients set and then zeroed by hand"):
        for optimizer in (torch.optim.SGD, torch.optim.Adam):
            model = net(5)
            used = Hedger(model, feats, criterion=EntropicRiskMeasure(1.0))
            fresh = Hedger(_copy.deepcopy(model), feats, criterion=EntropicRiskMeasure(1.0))
            torch.manual_seed(77)
            if label.startswith("a loss"):
                used.compute_loss(LookbackOption(BrownianStock(dt=0.25, dtype=dt), maturity=1.0), n_paths=6).backward()
            elif label.startswith("another"):
                Hedger(model, feats, criterion=EntropicRiskMeasure(2.0)).compute_loss(market(), n_paths=6).backward()
            else:
                used.compute_loss(market(), n_paths=6).backward()
                for p_ in used.parameters():
                    p_.grad.zero_()
            out = []
            for h in (used, fresh):
                torch.manual_seed(123)
                with contextlib.redirect_stderr(io.StringIO()):
                    hist = h.fit(market(), n_epochs=3, n_paths=8, optimizer=optimizer, verbose=False)
                out.append((hist, [p_.detach().clone() for p_ in h.parameters()]))
            ctx.count(n=1)
            (h1, p1), (h2, p2) = out
            if h1 != h2 or not all(torch.equal(a, b) for a, b in zip(p1, p2)):
                ctx.violation("history:fit-after-backward", f"fit() after {label} ({optimizer.__name__}) differs from fit() of a fresh hedger with the same parameters on the same paths",
                              {"history_used": h1, "history_fresh": h2, "max_param_diff": max(float((a - b).abs().max()) for a, b in zip(p1, p2))})


def stepping_order(ctx: Ctx) -> None:
    """One bound feature evaluated step by step in an order other than 0, 1, 2, ... (skipping steps, going back), evaluated again
    after the series was replaced by a new simulation, and re-bound to another derivative after it was stepped: get(i) is
    column i of what a FRESH feature gives on the derivative's current series - it does not depend on the steps asked before."""
    from pfhedge.features import Barrier, FeatureList, get_feature
    from pfhedge.features.features import UnderlierLogSpot
    from pfhedge.instruments import BrownianStock, EuropeanOption, HestonStock, LookbackOption
    torch.manual_seed(11)
    d1 = EuropeanOption(HestonStock(dt=0.125, dtype=torch.float64), maturity=1.0, strike=0.95); d1.simulate(n_paths=3)
    d2 = LookbackOption(BrownianStock(dt=0.125, sigma=0.9, dtype=torch.float64), maturity=1.0, strike=1.1); d2.simulate(n_paths=3)
    names = ["moneyness", "log_moneyness", "max_moneyness", "max_log_moneyness", "time_to_maturity", "expiry_time", "volatility", "variance", "underlier_spot",
             "zeros", Barrier(1.02), Barrier(0.98, up=False), UnderlierLogSpot()]

    def fresh_column(f, d, i):
        return get_feature(f).of(d).get(None)[:, [i]]

    for f in names:
        label = f if isinstance(f, str) else f"{type(f).__name__}({getattr(f, 'threshold', '')}, up={getattr(f, 'up', '')})"
        for wrap in ("feature", "FeatureList"):
            mk = (lambda: get_feature(f)) if wrap == "feature" else (lambda: FeatureList([f]))
            try:
                h = mk().of(d1)
                story = []
                for i in (0, 2, 1, 5, 3, 8, 0, 7, 8):
                    story.append(i)
                    got, want = h.get(i), fresh_column(f, d1, i)
                    ctx.count(n=1)
                    if got.shape != want.shape or not bool(((got - want).abs() <= 1e-12).all()):
                        ctx.violation("stepping:order", f"{label} ({wrap}): get({i}) after the steps {story[:-1]} differs from column {i} of a fresh feature on the same series",
                                      {"feature": label, "steps": story, "observed": got.flatten().tolist(), "fresh": want.flatten().tolist()})
                        raise StopIteration
                keep = d1.ul().spot.clone()
                d1.simulate(n_paths=3)                                   # new series between two steps
                for i in (4, 6):
                    got, want = h.get(i), fresh_column(f, d1, i)
                    ctx.count(n=1)
                    if got.shape != want.shape or not bool(((got - want).abs() <= 1e-12).all()):
                        ctx.violation("stepping:new-series", f"{label} ({wrap}): get({i}) after a new simulation still carries values of the previous series",
                                      {"feature": label, "observed": got.flatten().tolist(), "fresh": want.flatten().tolist()})
                        raise StopIteration
                h2 = h.of(d2)                                            # re-bound after it was stepped
                for i in (7, 2):
                    got, want = h2.get(i), fresh_column(f, d2, i)
                    ctx.count(n=1)
                    if got.shape != want.shape or not bool(((got - want).abs() <= 1e-12).all()):
                        ctx.violation("stepping:rebound", f"{label} ({wrap}): re-bound to another derivative after stepping, get({i}) differs from a fresh feature on that derivative",
                                      {"feature": label, "observed": got.flatten().tolist(), "fresh": want.flatten().tolist()})
                        raise StopIteration
            except StopIteration:
                pass
            except Exception as e:
                ctx.violation("stepping:raises", f"{label} ({wrap}) raised {type(e).__name__} when evaluated step by step out of order", {"error": repr(e)[:200]})


def check(ctx: Ctx) -> None:
    warnings.filterwarnings("ignore")
    ex = ctx.tlc("MC_Session", "MC_Session_q_d3.cfg" if ctx.tier == "quick" else "MC_Session_t_d4.cfg", workers=8)
    for a in ("Simulate", "Read", "Compute", "SimCompute", "AddClause", "Fit", "Relist", "Restrike", "SetCost", "Abort"):
        if ex.actions.get(a, [0, 0])[1] == 0:
            raise MachineryError(f"Session.tla: action {a} never taken")
    sim = ctx.tlc("MC_Session", "MC_Session_sim.cfg", workers=4, simulate=f"num={150 if ctx.tier == 'quick' else 1500}", depth=10, seed=ctx.seed + 5)
    n = 0
    stride = 23 if ctx.tier == "quick" else 173
    for k, rec in enumerate(ex.records):
        if k % stride:
            continue
        replay_history(ctx, rec["hist"], KINDS[(k // stride) % len(KINDS)], ctx.seed + k)
        ctx.distinct.add(json.dumps([KINDS[(k // stride) % len(KINDS)], [[e["op"], e["h"], e["d"], e["n"]] for e in rec["hist"]]]))
        n += 1
    seen = set()
    for k, rec in enumerate(sim.records):
        key = json.dumps([[e["op"], e["h"], e["d"], e["n"]] for e in rec["hist"]])
        if key in seen or len(rec["hist"]) < 9:
            continue
        seen.add(key)
        replay_history(ctx, rec["hist"], KINDS[k % len(KINDS)], ctx.seed + 7 * k)
        ctx.distinct.add(json.dumps([KINDS[k % len(KINDS)], key]))
        n += 1
    ctx.sections["interleavings_replayed"] = n
    reconfigured_objects(ctx)
    shared_series(ctx)
    models_of_another_dtype(ctx)
    bound_handles(ctx)
    stepping_order(ctx)
    fit_after_backward(ctx)
    # ---- "... or dtypes the same hedger or features were used with before": behaviours of the dtype machine (Dtype.tla:
    # to()/float()/double()/half()/simulate()/register_buffer/set_default_dtype) with hedger objects that live through them,
    # compared after every operation with freshly built ones (the replay of checks/c17.py; only its reuse verdicts count here)
    from checks import c17
    dsim = ctx.tlc("MC_Dtype", "MC_Dtype_sim.cfg", workers=4, simulate=f"num={120 if ctx.tier == 'quick' else 1200}", depth=8, seed=ctx.seed + 21)
    saved_default = torch.get_default_dtype()
    probe_d = Ctx.__new__(Ctx)
    probe_d.__dict__.update({"_per_key": {}, "violations": [], "findings": [], "known_hits": {}, "evaluations": 0, "distinct": set(), "skipped": {}})
    nd = 0
    try:
        seen_d = set()
        for k, rec in enumerate(dsim.records):
            key = json.dumps([rec["init"], [[e["op"], e["p"], e["d"], e["how"], e["via"]] for e in rec["hist"]]])
            if key in seen_d or len(rec["hist"]) < 5:
                continue
            seen_d.add(key)
            c17.replay_history(probe_d, rec, computed=True, variant=k)
            nd += 1
    finally:
        torch.set_default_dtype(saved_default)
    for v in probe_d.violations:
        if ":reused:" in v["key"]:
            ctx.violation(v["key"], v["what"], v.get("detail"))
    ctx.count(n=probe_d.evaluations)
    ctx.sections["dtype_histories_with_long_lived_hedgers"] = nd
    ctx.sample({"interleaving": [[e["op"], e["h"], e["d"], e["n"]] for e in sim.records[0]["hist"]]})
    # ---- code -> spec
    traces = record_sessions(ctx.seed + 11, 60 if ctx.tier == "quick" else 600, 14)
    mix: Dict[str, int] = {}
    for t_ in traces:
        for e_ in t_["events"]:
            mix[e_["op"]] = mix.get(e_["op"], 0) + 1
    ctx.sections["recorded_session_operations"] = mix
    if sum(1 for k_ in mix if k_ in READ_ONLY) < 4 or not mix.get("Fit") or not mix.get("AddClause") or not mix.get("Relist") or not mix.get("Restrike") or not mix.get("SetCost") or not mix.get("Abort"):
        raise MachineryError(f"recorded sessions do not exercise the session machine: {mix}")
    for i, reached, need in validate(ctx, traces, "recorded"):
        ctx.traces_validated += 1
        if reached != need:
            t = traces[i - 1]
            ev = t["events"][reached - 1]
            why = "read-only operation changed a buffer" if ev["op"] in READ_ONLY and reached >= 2 and ev["ver"] != t["events"][reached - 2]["ver"] else \
                  "result differs from an earlier result with the same (operation, parameters, derivative, buffer versions)"
            ctx.violation(f"trace:{ev['op']}", f"recorded session not explained by Session.tla at line {reached}: {why} (hedger kind {t['kind']})",
                          {"kind": t["kind"], "prefix": [[e["op"], e["h"], e["d"], e["n"], e["ver"], e["res"]] for e in t["events"][:reached]]})
    ctx.sample({"recorded_session": {"kind": traces[0]["kind"], "events": traces[0]["events"][:4]}})
    # ---- binding demonstration on specification-generated behaviours (independent of /repo)
    def with_pvs(hist):
        out, cur = [], {"h1": 1, "h2": 1}
        for e in json.loads(json.dumps(hist)):
            if e["h"] != "-":
                cur[e["h"]] = e["pv"]
            e["pvs"] = dict(cur)
            out.append(e)
        return out
    cands = [{"kind": "spec", "events": with_pvs(r["hist"])} for r in sim.records if len(r["hist"]) >= 9]
    with_ro = [g for g in cands if any(e["op"] in READ_ONLY for e in g["events"])]
    if len(with_ro) < 6:
        raise MachineryError("too few simulated behaviours with read-only operations for the binding demonstration")
    good = with_ro[:6]
    bad_pure = json.loads(json.dumps(good[0]))
    line = next(i for i, e in enumerate(bad_pure["events"]) if e["op"] in READ_ONLY)
    ulp = "p2" if bad_pure["events"][line]["d"] == "d3" else "p1"
    bad_pure["events"][line]["ver"][ulp] += 50                       # a read-only operation "changed" a buffer
    bad_hist, line2 = None, None
    for g in with_ro:                                                 # a behaviour that repeats a computation on unchanged data
        cand = json.loads(json.dumps(g))
        seen_keys: Dict[str, int] = {}
        for i, e in enumerate(cand["events"]):
            if e["op"] in READ_ONLY:
                k2 = json.dumps([e["op"], e["d"], e["ver"], e["cv"], e["lv"], e["kv"], e["uv"], e["pv"]])
                if k2 in seen_keys:
                    e["res"] += 77                                    # same key, different result
                    bad_hist, line2 = cand, i
                    break
                seen_keys[k2] = i
        if bad_hist is not None:
            break
    tests = [bad_pure] + good[2:5] + ([bad_hist] if line2 is not None else [])
    v = validate(ctx, tests, "selftest")
    ctx.selftest("a read-only operation with a changed buffer version is rejected at that line", v[0][1] == line + 1 and v[0][1] != v[0][2])
    ctx.selftest("unmodified specification behaviours are accepted", all(r == nn_ for _, r, nn_ in v[1:4]))
    if line2 is not None:
        ctx.selftest("a repeated computation with a different result is rejected at that line", v[-1][1] == line2 + 1)
    argument_purity_sweep(ctx)
    repository_test_purity(ctx)
    ctx.exhaustive = False
    ctx.rule = ("spec->code: every 9th history of length 3 (exhaustive set) and simulated histories of length 9, each on one of 6 hedger kinds, buffers hashed after every "
                "operation and results compared with a fresh hedger; code->spec: recorded random sessions validated by SessionTrace.tla; plus an argument-purity sweep over the public API")
    ctx.assumptions += ["results of compute_loss/price (fresh random draws) are not compared across hedgers; their effect on buffers is",
                        "fit() is covered by C15; dtype histories by C17"]


if __name__ == "__main__":
    raise SystemExit(run_check("C16", check))
