"""C02 - hedges are non-anticipative and never trade at maturity.

HedgePairs.tla states non-anticipation as a 2-safety property by self-composition (two paths agreeing up to a cut),
Hedge.tla states NoTradeAtMaturity and the structural ReadsArePast; TLC checks them for every pair of the bounded
lattices.  Every emitted pair is executed on the real Hedger (native branch and forced step-by-step branch) and the
prefixes are compared bitwise; opaque built-in models (BlackScholes, WhalleyWilmott, Naked, MultiLayerPerceptron, a
user module) are run on the same pairs over every derivative x underlier type.
"""
from lib.core import Ctx, run_check
from checks import hedge_common


def check(ctx: Ctx) -> None:
    hedge_common.replay_hedger(ctx, focus="C02")
    hedge_common.opaque_pairs(ctx)
    hedge_common.features_on_every_derivative(ctx)
    hedge_common.c02_selftest(ctx)
    ctx.rule = ("all pairs of paths agreeing up to a cut and differing afterwards (bounded lattices) x configurations, "
                "emitted by TLC; distinct = distinct emitted pair/record; opaque models on the same pairs")
    ctx.exhaustive = True
    ctx.assumptions += ["opaque models are assumed deterministic functions of their input row",
                        "perturbations are lattice-valued (prices {1,2,4}, variances {1,4}); a peek that is invisible on every lattice pair is not detected"]


if __name__ == "__main__":
    raise SystemExit(run_check("C02", check))
