"""code -> specification on the REPOSITORY'S OWN tests, with the arguments and the result of every call (families pl / payoff / grid /
clamp of lib/recorder_plugin.py).  The suite already exercises these entry points in several hundred configurations but asserts
little about the values; here every recorded call is judged by the reference that the owning check binds to its TLA+ module
(PnL.tla: the wealth identity; Payoff.tla: the contracts; Grid.tla: ceil(M/dt)+1; Clamp.tla: the clamp cases).  No file of /repo is
changed: the plugin wraps the public functions in the pytest process.

A record is judged only where the reference is decisive: finite inputs, tensors small enough to be recorded, and - for the
contracts with a comparison - prices that are not within round-off of the strike (exact ties are the business of the direct replay,
which controls the dtype of both sides).
"""
from __future__ import annotations

import json
import math
import os
import subprocess
import sys
from fractions import Fraction as Fr
from typing import Any, Dict, List, Optional

from lib.core import Ctx
from lib.tlc import MachineryError, WORK, VERIF as VERIF_ROOT
REPO = os.environ.get("VERIF_REPO", "/repo")

# the whole suite runs in about half a minute: both tiers record all of it
THOROUGH = ["tests"]
TOL = {"f64": 1e-12, "f32": 2e-6, "f16": 4e-3, "bf16": 3e-2}


def record(ctx: Ctx, family: str) -> List[Dict[str, Any]]:
    out = WORK / ctx.pid / f"suite_calls_{family}.json"
    out.parent.mkdir(parents=True, exist_ok=True)
    if out.exists():
        out.unlink()
    env = dict(os.environ, PYTHONPATH=str(VERIF_ROOT) + ":" + REPO, PFHEDGE_VERIF_TRACE=str(out), PFHEDGE_VERIF_CALLS=family)
    files = THOROUGH
    proc = subprocess.run([sys.executable, "-m", "pytest", "-q", "-p", "no:cacheprovider", "-p", "lib.recorder_plugin", "-m", "not gpu", "-q",
                           "--deselect", "tests/stochastic/test_rough_bergomi.py::test_generate_rough_bergomi"] + files,
                          cwd=REPO, env=env, capture_output=True, text=True, timeout=3000)
    if not out.exists():
        raise MachineryError("recorder plugin produced no trace:\n" + proc.stdout[-800:] + proc.stderr[-800:])
    calls = [c for c in json.loads(out.read_text())["calls"] if c["family"] == family]
    out.unlink()
    return calls


def _vals(x: Any) -> Optional[List[float]]:
    if isinstance(x, dict) and "v" in x:
        return x["v"]
    return None


def _finite(xs: List[float]) -> bool:
    return all(isinstance(v, (int, float)) and math.isfinite(v) for v in xs)


# ------------------------------------------------------------------------------------------------- C01: pl
def judge_pl(ctx: Ctx, calls: List[Dict[str, Any]]) -> int:
    judged = 0
    for c in calls:
        a = c.get("args")
        if not a or c.get("error") or c.get("out") is None:
            continue
        spot, unit, out = a["spot"], a["unit"], c["out"]
        if _vals(spot) is None or _vals(unit) is None or _vals(out) is None or spot["s"] != unit["s"] or len(spot["s"]) != 3:
            continue
        N0, H, T = spot["s"]
        N = min(spot["n0"], unit["n0"])                 # rows recorded (large batches are recorded by their first rows)
        sv, uv, ov = spot["v"], unit["v"], out["v"]
        pay = a.get("payoff")
        pv = None if pay is None else _vals(pay)
        if pay is not None and (pv is None or pay["s"] != [N0] or len(pv) < N):
            continue
        cost = a.get("cost")
        if cost is not None and (not isinstance(cost, list) or len(cost) != H or not _finite(cost)):
            continue
        if a.get("deduct_final_cost") or not _finite(sv) or not _finite(uv) or (pv is not None and not _finite(pv)) or out["s"] != [N0] or len(ov) < N:
            continue
        first = bool(a.get("deduct_first_cost", True))
        tol = max(TOL.get(spot["t"], 1e-3), TOL.get(unit["t"], 1e-3), TOL.get(out["t"], 1e-3))
        judged += 1
        ctx.count(n=N)
        for i in range(N):
            tot, scale = Fr(0), Fr(1)
            if pv is not None:
                tot -= Fr(pv[i]); scale += abs(Fr(pv[i]))
            for h in range(H):
                base = (i * H + h) * T
                ch = Fr(cost[h]) if cost else Fr(0)
                for t in range(T - 1):
                    gain = Fr(uv[base + t]) * (Fr(sv[base + t + 1]) - Fr(sv[base + t]))
                    fee = ch * abs(Fr(uv[base + t + 1]) - Fr(uv[base + t])) * Fr(sv[base + t + 1])
                    tot += gain - fee
                    scale += abs(Fr(uv[base + t]) * Fr(sv[base + t + 1])) + abs(Fr(uv[base + t]) * Fr(sv[base + t])) + abs(fee)
                if first:
                    fee = ch * abs(Fr(uv[base])) * Fr(sv[base])
                    tot -= fee; scale += abs(fee)
            if not math.isfinite(ov[i]) or abs(Fr(ov[i]) - tot) > Fr(tol) * scale * max(1, T):
                ctx.violation("suite:pl", f"in the repository's own test {c['test']}, pl() differs from the wealth identity evaluated exactly on the recorded arguments",
                              {"test": c["test"], "shape": [N, H, T], "cost": cost, "deduct_first_cost": first, "path": i, "expected": float(tot), "observed": ov[i]})
                break
    return judged


# ------------------------------------------------------------------------------------------------- C12: payoffs
def _rows(x: Dict[str, Any]) -> Optional[List[List[float]]]:
    v = _vals(x)
    if v is None or len(x["s"]) < 1:
        return None
    T = x["s"][-1]
    if T == 0:
        return None
    return [v[j:j + T] for j in range(0, len(v), T)]


def _num(x: Any) -> Optional[float]:
    if isinstance(x, bool):
        return None
    if isinstance(x, (int, float)):
        return float(x)
    if isinstance(x, dict) and "v" in x and len(x["v"]) == 1:
        return float(x["v"][0])
    return None


def judge_payoff(ctx: Ctx, calls: List[Dict[str, Any]]) -> int:
    judged = 0
    for c in calls:
        a = c.get("args")
        if not a or c.get("error") or c.get("out") is None:
            continue
        fn = c["fn"]
        data = a.get("spot") if fn.startswith("class:") else a.get("input")
        rows = _rows(data) if isinstance(data, dict) else None
        ov = _vals(c["out"])
        if rows is None or ov is None or c["out"]["s"] != data["s"][:-1] or len(ov) < len(rows) or not all(_finite(r) for r in rows):
            continue
        kind = {"class:EuropeanOption": "european", "european_payoff": "european", "class:LookbackOption": "lookback", "lookback_payoff": "lookback",
                "class:AmericanBinaryOption": "american_binary", "american_binary_payoff": "american_binary",
                "class:EuropeanBinaryOption": "european_binary", "european_binary_payoff": "european_binary",
                "class:EuropeanForwardStartOption": "forward_start", "european_forward_start_payoff": "forward_start", "class:VarianceSwap": "variance_swap"}.get(fn)
        if kind is None:
            continue
        K = _num(a.get("strike"))
        if K is None:
            continue
        call = a.get("call", True)
        T = len(rows[0])
        dtname = data["t"]
        tol = TOL.get(dtname, 1e-3)
        if kind == "forward_start":
            if fn.startswith("class:"):
                start, dt = _num(a.get("start")), _num(a.get("dt"))
                if start is None or dt is None or dt <= 0:
                    continue
                q = start / dt
                si = int(round(q)) if abs(q - round(q)) < 1e-9 * max(1.0, abs(q)) else int(math.floor(q))
                ei = -1
            else:
                si, ei = a.get("start_index", 0), a.get("end_index", -1)
                if not isinstance(si, int) or not isinstance(ei, int):
                    continue
            if not (-T <= si < T and -T <= ei < T):
                continue
        dt = _num(a.get("dt")) if kind == "variance_swap" else None
        if kind == "variance_swap" and (dt is None or T < 2 or any(v <= 0 for r in rows for v in r)):
            continue
        judged += 1
        ctx.count(n=len(rows))
        for i, r in enumerate(rows):
            near = lambda x: abs(x - K) <= 4 * tol * max(abs(K), abs(x), 1e-30)      # noqa: E731
            if kind == "european":
                e = max(r[-1] - K, 0.0) if call else max(K - r[-1], 0.0)
            elif kind == "lookback":
                e = max(max(r) - K, 0.0) if call else max(K - min(r), 0.0)
            elif kind == "european_binary":
                if near(r[-1]):
                    continue
                e = float(r[-1] >= K) if call else float(r[-1] <= K)
            elif kind == "american_binary":
                x = max(r) if call else min(r)
                if near(x):
                    continue
                e = float(x >= K) if call else float(x <= K)
            elif kind == "forward_start":
                if r[si] == 0:
                    continue
                e = max(r[ei] / r[si] - K, 0.0)
            else:
                lr = [math.log(r[j + 1]) - math.log(r[j]) for j in range(T - 1)]
                e = sum(x * x for x in lr) / (T - 1) / dt - K
            slack = tol * (1 + abs(e) + abs(K)) if kind != "variance_swap" else (1e-10 if dtname == "f64" else 1e-3) * (1 + abs(e) + abs(K)) / min(1.0, dt)
            if not math.isfinite(ov[i]) or abs(ov[i] - e) > slack:
                ctx.violation(f"suite:payoff:{kind}", f"in the repository's own test {c['test']}, {fn} does not pay what the contract says on the recorded prices",
                              {"test": c["test"], "fn": fn, "strike": K, "call": call, "path": r[:8], "expected": e, "observed": ov[i], "dtype": dtname})
                break
    return judged


# ------------------------------------------------------------------------------------------------- C13: grid
def steps(M: float, dt: float) -> List[int]:
    """ceil(M/dt)+1; where M/dt is within rounding distance of an integer k the property fixes k+1."""
    q = Fr(M) / Fr(dt)
    k = round(q)
    if abs(q - k) <= Fr(1, 10 ** 9) * max(1, abs(k)):
        return [int(k) + 1]
    return [math.ceil(q) + 1]


def judge_grid(ctx: Ctx, calls: List[Dict[str, Any]]) -> int:
    judged = 0
    for c in calls:
        a = c.get("args")
        if not a:
            continue
        M, dts, shapes = _num(a.get("maturity")), a.get("dts"), a.get("shapes")
        if M is None or not dts or not isinstance(shapes, dict) or not shapes or not all(isinstance(v, list) for v in shapes.values()) or len(dts) != 1 or not isinstance(dts[0], (int, float)) or dts[0] <= 0 or M < 0:
            continue
        if not all(isinstance(m, str) and (m.startswith("pfhedge") or m == "lib.recorder_plugin") for m in a.get("sim_from") or ["?"]):
            continue                                     # the test stubbed the underlier's simulate(): nothing was simulated
        want = steps(M, dts[0])
        n = a.get("n_paths")
        judged += 1
        ctx.count(n=1)
        bad = {k: s for k, s in shapes.items() if len(s) != 2 or s[1] not in want or (isinstance(n, int) and s[0] != n)}
        if bad:
            ctx.violation("suite:grid", f"in the repository's own test {c['test']}, {c['fn']} with maturity {M} on dt {dts[0]} produced series of shape {bad}; ceil(M/dt)+1 = {want[0]}",
                          {"test": c["test"], "maturity": M, "dt": dts[0], "shapes": shapes, "n_paths": n, "underlier": a.get("prims")})
    return judged


# ------------------------------------------------------------------------------------------------- C20: clamp
def _bcast(x: Any, n: int, shape: List[int], in_shape: List[int]) -> Optional[List[Optional[float]]]:
    if x is None:
        return [None] * n
    v = _num(x)
    if v is not None:
        return [v] * n
    if isinstance(x, dict) and "v" in x and x["s"] == in_shape and len(x["v"]) == n:
        return x["v"]
    return None


def judge_clamp(ctx: Ctx, calls: List[Dict[str, Any]]) -> int:
    judged = 0
    for c in calls:
        a = c.get("args")
        if not a or c.get("error") or c.get("out") is None:
            continue
        x, out = a.get("input"), c["out"]
        xv, ov = _vals(x) if isinstance(x, dict) else None, _vals(out)
        if xv is None or ov is None or x["s"] != out["s"] or len(ov) != len(xv) or not _finite(xv):
            continue
        lo, hi = _bcast(a.get("min"), len(xv), out["s"], x["s"]), _bcast(a.get("max"), len(xv), out["s"], x["s"])
        if lo is None or hi is None:
            continue
        leaky = c["fn"] == "leaky_clamp"
        slope = a.get("clamped_slope", 0.01) if leaky else 0.0
        inverted = bool(a.get("inverted_output", "mean") == "max") if isinstance(a.get("inverted_output", "mean"), str) else None
        if inverted is None or not isinstance(slope, (int, float)):
            continue
        tol = TOL.get(x["t"], 1e-3)
        judged += 1
        ctx.count(n=len(xv))
        for j, v in enumerate(xv):
            l, h = lo[j], hi[j]
            if (l is not None and not math.isfinite(l)) or (h is not None and not math.isfinite(h)):
                continue
            if l is not None and h is not None and l > h:
                e = h if inverted else (l + h) / 2
            elif l is not None and v < l:
                e = l + slope * (v - l)
            elif h is not None and v > h:
                e = h + slope * (v - h)
            else:
                e = v
            if not math.isfinite(ov[j]) or abs(ov[j] - e) > tol * (1 + abs(e) + abs(v)):
                ctx.violation(f"suite:{c['fn']}", f"in the repository's own test {c['test']}, {c['fn']} is not the documented clamp of its recorded arguments",
                              {"test": c["test"], "input": v, "min": l, "max": h, "slope": slope, "inverted_output": a.get("inverted_output"), "expected": e, "observed": ov[j]})
                break
    return judged


JUDGES = {"pl": judge_pl, "payoff": judge_payoff, "grid": judge_grid, "clamp": judge_clamp}
MINIMUM = {"pl": 20, "payoff": 100, "grid": 100, "clamp": 10}


def suite(ctx: Ctx, family: str) -> None:
    calls = record(ctx, family)
    judged = JUDGES[family](ctx, calls)
    if judged < MINIMUM[family]:
        raise MachineryError(f"suite oracle {family}: only {judged} of {len(calls)} recorded calls could be judged")
    # binding demonstration: the same judge rejects the same records once a recorded result is corrupted
    probe = Ctx.__new__(Ctx)
    probe.__dict__.update({"_per_key": {}, "violations": [], "findings": [], "known_hits": {}, "evaluations": 0, "distinct": set()})
    bad = json.loads(json.dumps(calls[:40]))
    for c in bad:
        if family == "grid":
            for k2, shp in (c.get("args", {}).get("shapes") or {}).items():
                if isinstance(shp, list) and len(shp) == 2:
                    shp[1] += 1
        elif isinstance(c.get("out"), dict) and c["out"].get("v"):
            c["out"]["v"] = [(not v) if isinstance(v, bool) else v + 1.0 for v in c["out"]["v"]]
    JUDGES[family](probe, bad)
    ctx.selftest(f"a corrupted recorded result of the repository's tests ({family}) is rejected", len(probe.violations) > 0)
    ctx.sections[f"repository_test_calls_{family}"] = {"recorded": len(calls), "judged": judged, "tests": len({c["test"] for c in calls})}
