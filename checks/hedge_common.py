"""Replay of Hedge.tla / HedgePairs.tla behaviours into the real Hedger (shared by C01, C02, C03).

focus = "C01": compute_pl/compute_portfolio == account wealth (spec value when the hedge conforms; always the
               composition  compute_pl == pl(stack(spots), compute_hedge, costs, payoff))
focus = "C02": prefix invariance on TLC's perturbation pairs, no trade at maturity
focus = "C03": get(i) == get(None)[:, i]; batched == forced-stepwise; prev_hedge trace

A mismatch between the real hedge tensor and the specification's positions is a violation for the focus only
when it contradicts that property's statement; otherwise it is recorded as a diagnostic.
"""
from __future__ import annotations

import json
from collections import defaultdict
from concurrent.futures import ThreadPoolExecutor
from typing import Any, Dict, List, Tuple

import torch

from lib.core import Ctx
from lib.doubles import LOG_FEATURES, build_hedger, build_market, feature_columns, frf
from lib.tlc import MachineryError, require_actions

K = 2.0
DT = 0.25

HEDGE_CFGS = {"quick": ["q_singles", "q_combos1", "q_long1", "q_combos2", "q_t2h1", "q_t2h2"],
              "thorough": ["q_singles", "q_combos1", "q_long1", "q_combos2", "q_t2h1", "q_t2h2", "t_long1", "t_combos1", "t_combos2"]}
PAIR_CFGS = {"quick": ["q_singles", "q_varsingles", "q_combos1", "q_combos2", "q_t2h1", "q_t2h2"],
             "thorough": ["q_singles", "q_varsingles", "q_combos1", "q_combos2", "q_t2h1", "q_t2h2", "t_singles", "t_combos1"]}


def run_hedge_models(ctx: Ctx, pairs: bool = False) -> Tuple[List[Dict[str, Any]], List[Dict[str, Any]]]:
    jobs = [("MC_Hedge", f"MC_Hedge_{c}.cfg") for c in HEDGE_CFGS[ctx.tier]]
    if pairs:
        jobs += [("MC_HedgePairs", f"MC_HedgePairs_{c}.cfg") for c in PAIR_CFGS[ctx.tier]]
    with ThreadPoolExecutor(max_workers=8) as ex:
        results = list(ex.map(lambda j: ctx.tlc(j[0], j[1], workers=2), jobs))
    hedge_recs: List[Dict[str, Any]] = []
    pair_recs: List[Dict[str, Any]] = []
    stepwise = batched = False
    for (mod, _), res in zip(jobs, results):
        if not res.records:
            raise MachineryError(f"{res.cfg}: no record emitted")
        if mod == "MC_Hedge":
            require_actions(res, ["Branch", "Transpose"])
            stepwise |= res.actions.get("Step", [0, 0])[1] > 0
            batched |= res.actions.get("Batched", [0, 0])[1] > 0
            hedge_recs += res.records
        else:
            pair_recs += res.records
    if not (stepwise and batched):
        raise MachineryError("Hedge.tla: one evaluation branch was never explored")
    return hedge_recs, pair_recs


def cfg_key(cfg: Dict[str, Any], T: int) -> str:
    return json.dumps([cfg, T], sort_keys=True)


def group_by_cfg(recs: List[Dict[str, Any]], mkey: str = "m") -> Dict[str, List[Dict[str, Any]]]:
    g: Dict[str, List[Dict[str, Any]]] = defaultdict(list)
    for r in recs:
        g[cfg_key(r["cfg"], len(r[mkey]["spot"]))].append(r)
    return g


def expected_hedge(recs: List[Dict[str, Any]], key: str = "hedge") -> torch.Tensor:
    return torch.tensor([[[frf(x) for x in hrow] for hrow in r[key]] for r in recs], dtype=torch.float64)


def time_tol(T: int, dtype: torch.dtype) -> float:
    return 4 * torch.finfo(dtype).eps * (T - 1) * DT


# ---------------------------------------------------------------------------------------------
def replay_hedger(ctx: Ctx, focus: str) -> None:
    import pfhedge.nn.functional as F

    hedge_recs, pair_recs = run_hedge_models(ctx, pairs=(focus == "C02"))
    groups = group_by_cfg(hedge_recs)
    n_val_mismatch = 0
    n_records = 0
    for gk, recs in groups.items():
        cfg = recs[0]["cfg"]
        T = len(recs[0]["m"]["spot"])
        H = len(cfg["W"])
        paths = [r["m"] for r in recs]
        for dtype in ((torch.float64, torch.float32) if focus != "C03" else (torch.float64,)):
            for scripted in ((False, True) if dtype == torch.float64 and focus == "C01" else (False,)):
                deriv, hedge, stocks = build_market(cfg, paths, K, DT, dtype, scripted=scripted)
                hedger, model = build_hedger(cfg, dtype)
                before = [{n: b.clone() for n, b in s.named_buffers()} for s in stocks]
                try:
                    got = hedger.compute_hedge(deriv, hedge=hedge)
                    # C03 evaluates three times on the SAME hedger (state carried between evaluations is its business);
                    # C01/C02 use a fresh hedger per computation so that only the computation itself is judged
                    h2 = hedger if focus == "C03" else build_hedger(cfg, dtype)[0]
                    portfolio = h2.compute_portfolio(deriv, hedge=hedge)
                    h3 = hedger if focus == "C03" else build_hedger(cfg, dtype)[0]
                    plv = h3.compute_pl(deriv, hedge=hedge)
                    rows_seen = list(model.seen)
                except Exception as e:
                    ctx.violation(f"{focus}:hedger-raises", f"Hedger raised {type(e).__name__} on a lattice configuration",
                                  {"cfg": cfg, "T": T, "error": repr(e)[:300]})
                    continue
                n_records += len(recs)
                ctx.count(n=len(recs))
                exp = expected_hedge(recs)
                conforms = got.shape == exp.shape and bool((got.double() == exp).all())
                if got.shape != exp.shape or got.dtype != dtype:
                    ctx.violation(f"{focus}:hedge-shape", f"compute_hedge returned {got.dtype}{tuple(got.shape)}, expected (N,H,T)={tuple(exp.shape)}",
                                  {"cfg": cfg})
                    continue
                if not conforms:
                    n_val_mismatch += int((got.double() != exp).any(dim=(1, 2)).sum())
                mutated = [n for s, bf in zip(stocks, before) for n, b in s.named_buffers() if not torch.equal(b, bf[n])]

                if focus == "C01":
                    spot = torch.stack([h.spot for h in hedge], dim=1)
                    cost = [h.cost for h in hedge]
                    comp_pf = F.pl(spot=spot, unit=got, cost=cost)
                    comp_pl = F.pl(spot=spot, unit=got, cost=cost, payoff=deriv.payoff())
                    if not torch.equal(comp_pf, portfolio):
                        ctx.violation("hedger:portfolio-composition", "compute_portfolio differs from pl(spots, compute_hedge, costs)",
                                      {"cfg": cfg, "T": T, "dtype": str(dtype)})
                    if not torch.equal(comp_pl, plv):
                        ctx.violation("hedger:pl-composition", "compute_pl differs from pl(spots, compute_hedge, costs, payoff)",
                                      {"cfg": cfg, "T": T, "dtype": str(dtype)})
                    if conforms and not mutated:
                        epf = torch.tensor([frf(r["portfolio"]) for r in recs], dtype=torch.float64)
                        epl = torch.tensor([frf(r["pl"]) for r in recs], dtype=torch.float64)
                        if not torch.equal(portfolio.double(), epf):
                            i = int((portfolio.double() != epf).nonzero()[0])
                            ctx.violation("hedger:portfolio-value", "compute_portfolio differs from the account's wealth",
                                          {"cfg": cfg, "m": paths[i], "expected": epf[i].item(), "observed": portfolio[i].item()})
                        if not torch.equal(plv.double(), epl):
                            i = int((plv.double() != epl).nonzero()[0])
                            ctx.violation("hedger:pl-value", "compute_pl differs from the account's wealth minus the payoff",
                                          {"cfg": cfg, "m": paths[i], "expected": epl[i].item(), "observed": plv[i].item()})
                    elif mutated:
                        ctx.skip("C01 value comparison skipped: a feature overwrote a market buffer (see C16)", len(recs))
                    else:
                        ctx.skip("C01 value comparison skipped: hedge differs from the specification's positions", len(recs))

                if focus == "C02":
                    if not torch.equal(got[..., -1], got[..., -2]):
                        ctx.violation("hedge:trade-at-maturity", "the position at the final index differs from the one held over the last step",
                                      {"cfg": cfg, "T": T})

                if focus == "C03":
                    check_c03_group(ctx, cfg, recs, paths, T, H, hedger, model, rows_seen, got, portfolio, plv)
        ctx.sample({"cfg": cfg, "T": T, "n_paths": len(recs), "first_path": recs[0]["m"], "hedge": recs[0]["hedge"],
                    "pl": recs[0]["pl"]}, cap=5)
    for gk in groups:
        ctx.distinct.add(("cfg", gk))
    for r in hedge_recs:
        ctx.distinct.add(json.dumps([r["m"], r["cfg"]], sort_keys=True))
    ctx.sections["hedger_records"] = n_records
    ctx.sections["hedger_configurations"] = len(groups)
    ctx.sections["spec_value_mismatches_diagnostic"] = n_val_mismatch
    ctx._hedge_recs = hedge_recs
    ctx._pair_recs = pair_recs
    if focus == "C02":
        replay_pairs(ctx, pair_recs)


# ---------------------------------------------------------------------------------------------
def check_c03_group(ctx: Ctx, cfg, recs, paths, T, H, hedger, model, rows_seen, got, portfolio, plv) -> None:
    dtype = torch.float64
    state_dep = any(f in ("prev_hedge", "module_prev") for f in cfg["feats"])
    cols = feature_columns(cfg["feats"], H)
    # (a) single-step form == column of the all-steps form, for every state-independent feature
    for f in cfg["feats"]:
        if f in ("prev_hedge", "module_prev"):
            continue
        bad = compare_feature_forms(ctx, f, cfg, paths, T, H, dtype)
        if bad is not None:
            ctx.violation(bad[0], bad[1], bad[2])
    # (b) batched == forced stepwise (hedge, portfolio, P&L, loss)
    if not state_dep:
        from pfhedge.nn import EntropicRiskMeasure, ExpectedShortfall
        deriv, hedge, stocks = build_market(cfg, paths, K, DT, dtype)
        h_step, m_step = build_hedger(cfg, dtype, force_step=True)
        got_s = h_step.compute_hedge(deriv, hedge=hedge)
        n_calls = len(m_step.seen)
        deriv, hedge, stocks = build_market(cfg, paths, K, DT, dtype)
        pf_s = h_step.compute_portfolio(deriv, hedge=hedge)
        pl_s = h_step.compute_pl(deriv, hedge=hedge)
        has_ttm = any(f in ("time_to_maturity", "expiry_time", "module_a") for f in cfg["feats"])
        tol = 64 * time_tol(T, dtype) if has_ttm else 0.0
        ctx.count(n=len(recs))
        if n_calls != T - 1:
            ctx.violation("hedger:stepwise-call-count", f"step-by-step evaluation called the model {n_calls} times for T={T}", {"cfg": cfg})
        if not bool(((got_s - got).abs() <= tol).all()):
            ctx.violation("hedger:branches-disagree:hedge", "all-steps-at-once hedge differs from the step-by-step hedge", {"cfg": cfg, "T": T})
        if not bool(((pf_s - portfolio).abs() <= 64 * tol).all()) or not bool(((pl_s - plv).abs() <= 64 * tol).all()):
            ctx.violation("hedger:branches-disagree:pl", "P&L differs between the two evaluation modes", {"cfg": cfg, "T": T})
        for crit in (EntropicRiskMeasure(), ExpectedShortfall(0.5)):
            la, lb = crit(plv), crit(pl_s)
            if not bool((la - lb).abs() <= 64 * tol):
                ctx.violation("hedger:branches-disagree:loss", f"{type(crit).__name__} differs between the two evaluation modes", {"cfg": cfg, "T": T})
    # (c) prev_hedge trace: input at step i carries the output of step i-1 (zeros, H wide, at step 0)
    if "prev_hedge" in cfg["feats"]:
        ctx.traces_validated += len(recs)
        if len(rows_seen) != 3 * (T - 1):
            ctx.violation("hedger:stepwise-call-count", f"three evaluations called the model {len(rows_seen)} times for T={T}", {"cfg": cfg})
        else:
            for ev_no in range(3):      # compute_hedge, compute_portfolio, compute_pl on the same hedger, in this order
                bad = validate_prev_trace(ctx, cfg, recs, T, H, rows_seen[ev_no * (T - 1):(ev_no + 1) * (T - 1)], got)
                if bad is not None:
                    ctx.violation(bad[0], bad[1] + f" (evaluation #{ev_no + 1} of the same hedger)", bad[2])
                    break


def compare_feature_forms(ctx: Ctx, f: str, cfg, paths, T: int, H: int, dtype):
    from lib.doubles import make_feature
    from pfhedge.features import get_feature
    # fresh markets for each form: a feature that overwrites buffers must not poison the comparison
    deriv, _, _ = build_market(cfg, paths, K, DT, dtype)
    feat = get_feature(make_feature(f, H, dtype)).of(deriv)
    full = feat.get(None)
    deriv2, _, _ = build_market(cfg, paths, K, DT, dtype)
    feat2 = feat.of(deriv2)
    # ... and once more through ONE FeatureList object bound first to another market of the same size (a container that
    # remembers values of an earlier simulation must not leak them into the single-step form)
    from pfhedge.features import FeatureList
    fl = FeatureList([make_feature(f, H, dtype)])
    other = [dict(p, spot=list(reversed(p["spot"])), var=list(reversed(p["var"]))) for p in paths]
    d_other, _, _ = build_market(cfg, other, K, DT, dtype)
    bound0 = fl.of(d_other)
    bound0.get(None); bound0.get(0)
    d_now, _, _ = build_market(cfg, paths, K, DT, dtype)
    bound = fl.of(d_now)
    full_c = bound.get(None)
    for i in range(T):
        ctx.count(n=1)
        if not bool(((bound.get(i) - full_c[:, [i]]).abs() <= (time_tol(T, dtype) * (4 if f == "module_a" else 1) if f in ("time_to_maturity", "expiry_time", "module_a") else 0.0)).all()):
            return (f"feature:{f}:container-step-vs-all", f"FeatureList([{f}]).get({i}) differs from column {i} of get(None) after the container was used on an earlier simulation of the same size",
                    {"T": T, "step": i})
    # INTERRUPTED stepping: one bound feature is stepped 0..k on an earlier simulation, then the market is simulated anew
    # (the underlier's buffers are replaced) - or the feature is bound again - and stepping continues at k+1: every value is the
    # column of the series that is current when it is read
    if T >= 2:
        tol_i = time_tol(T, dtype) * (4 if f == "module_a" else 1) if f in ("time_to_maturity", "expiry_time", "module_a") else 0.0
        for how in ("resimulated", "rebound"):
            for k in range(T - 1):
                d_old, _, _ = build_market(cfg, other, K, DT, dtype)
                d_new, _, _ = build_market(cfg, paths, K, DT, dtype)
                fi = get_feature(make_feature(f, H, dtype)).of(d_old)
                for i in range(k + 1):
                    fi.get(i)
                if how == "resimulated":
                    for name, buf in list(d_new.ul().named_buffers()):
                        d_old.ul().register_buffer(name, buf.clone())
                    target = d_old
                else:
                    fi = fi.of(d_new)
                    target = d_new
                ref_full = get_feature(make_feature(f, H, dtype)).of(target).get(None)
                for i in range(k + 1, T):
                    ctx.count(n=1)
                    one = fi.get(i)
                    if one.shape != ref_full[:, [i]].shape or not bool(((one - ref_full[:, [i]]).abs() <= tol_i).all()):
                        return (f"feature:{f}:interrupted-stepping:{how}", f"{f}.get({i}) differs from column {i} of get(None) after the feature was stepped to {k} on an earlier "
                                f"simulation and the market was then {how}", {"T": T, "step": i, "k": k, "single": one.flatten()[:4].tolist(), "column": ref_full[:, [i]].flatten()[:4].tolist()})
    for i in range(T):
        one = feat2.get(i)
        ctx.count(n=1)
        ref = full[:, [i]]
        if one.shape != ref.shape:
            return (f"feature:{f}:shape", f"{f}.get({i}) has shape {tuple(one.shape)}, column of get(None) {tuple(ref.shape)}", {"T": T})
        tol = time_tol(T, dtype) if f in ("time_to_maturity", "expiry_time", "module_a") else 0.0
        if f == "module_a":
            tol *= 4
        if not bool(((one - ref).abs() <= tol).all()):
            return (f"feature:{f}:step-vs-all", f"{f}.get({i}) differs from column {i} of {f}.get(None)",
                    {"T": T, "step": i, "single": one.flatten()[:4].tolist(), "column": ref.flatten()[:4].tolist()})
        # the step as a NumPy integer (for i in numpy.arange(T), an index read from an array): the same column, not something else
        import numpy as _np
        try:
            onp = feat2.get(_np.int64(i))
        except Exception:
            onp = None                       # (a feature may not accept it: then there is no value to judge)
        if onp is not None and (onp.shape != one.shape or not bool(((onp - one).abs() <= 0.0).all() if f != "module_a" else True)):
            return (f"feature:{f}:numpy-step", f"{f}.get(numpy.int64({i})) has shape {tuple(onp.shape)} and is not {f}.get({i}) of shape {tuple(one.shape)} "
                    "(a step that is not a Python int is taken for 'all steps' - the future included)", {"T": T, "step": i})
    # a NEGATIVE strike (nothing forbids it; moneyness is then decreasing in the price): the running maxima of both forms are
    # maxima of the MONEYNESS, column by column
    if f in ("moneyness", "max_moneyness", "log_moneyness", "max_log_moneyness") and T >= 2:
        from pfhedge.instruments import EuropeanOption
        d_base, _, _ = build_market(cfg, paths, K, DT, dtype)
        d_neg = EuropeanOption(d_base.ul(), call=cfg["call"], strike=-K, maturity=(T - 1) * DT)
        fn_ = get_feature(make_feature(f, H, dtype)).of(d_neg)
        full_n = fn_.get(None)
        for i in range(T):
            ctx.count(n=1)
            one = get_feature(make_feature(f, H, dtype)).of(d_neg).get(i)
            ref = full_n[:, [i]]
            if one.shape != ref.shape or not bool(((one == ref) | (one.isnan() & ref.isnan())).all()):
                return (f"feature:{f}:negative-strike-step-vs-all", f"{f}.get({i}) differs from column {i} of {f}.get(None) for a derivative with a negative strike",
                        {"T": T, "step": i, "single": one.flatten()[:4].tolist(), "column": ref.flatten()[:4].tolist()})
    # a SHORT-dated derivative on an underlier that was simulated for longer (e.g. together with a longer-dated one): both
    # forms index the same simulated series
    if T >= 3:
        from pfhedge.instruments import EuropeanOption
        d_long, _, _ = build_market(cfg, paths, K, DT, dtype)
        d_short = EuropeanOption(d_long.ul(), call=cfg["call"], strike=K, maturity=max(1, (T - 1) // 2) * DT)
        if any(x in ("spot", "log_spot") for x in cfg["feats"]):
            d_short.list(lambda d: 4 * d.ul().spot)
        fs = get_feature(make_feature(f, H, dtype)).of(d_short)
        full_s = fs.get(None)
        fs2 = get_feature(make_feature(f, H, dtype)).of(d_short)
        tol = time_tol(T, dtype) * (4 if f == "module_a" else 1) if f in ("time_to_maturity", "expiry_time", "module_a") else 0.0
        for i in range(T):
            ctx.count(n=1)
            one = fs2.get(i)
            if one.shape != full_s[:, [i]].shape or not bool(((one - full_s[:, [i]]).abs() <= tol).all()):
                return (f"feature:{f}:short-dated-step-vs-all", f"{f}.get({i}) differs from column {i} of {f}.get(None) for a derivative whose underlier was simulated beyond its maturity",
                        {"T": T, "step": i, "maturity_steps": max(1, (T - 1) // 2), "single": one.flatten()[:4].tolist(), "column": full_s[:, [i]].flatten()[:4].tolist()})
    # FEWER PATHS THAN TIME STEPS (one path, two paths): the step index addresses the time axis whatever the number of paths is
    for n_few in (1, 2):
        if n_few >= T or n_few >= len(paths):
            continue
        few = paths[:n_few]
        d_few, _, _ = build_market(cfg, few, K, DT, dtype)
        full_f = get_feature(make_feature(f, H, dtype)).of(d_few).get(None)
        d_few2, _, _ = build_market(cfg, few, K, DT, dtype)
        ff = get_feature(make_feature(f, H, dtype)).of(d_few2)
        tol = time_tol(T, dtype) * (4 if f == "module_a" else 1) if f in ("time_to_maturity", "expiry_time", "module_a") else 0.0
        for i in range(T):
            ctx.count(n=1)
            try:
                one = ff.get(i)
            except Exception as e:
                return (f"feature:{f}:few-paths-raises", f"{f}.get({i}) raised {type(e).__name__} with {n_few} path(s) and {T} steps", {"T": T, "step": i, "error": repr(e)[:200]})
            if one.shape != full_f[:, [i]].shape or not bool(((one - full_f[:, [i]]).abs() <= tol).all()):
                return (f"feature:{f}:few-paths-step-vs-all", f"{f}.get({i}) differs from column {i} of {f}.get(None) when there are fewer paths ({n_few}) than time steps ({T})",
                        {"T": T, "step": i, "n_paths": n_few, "single": one.flatten()[:4].tolist(), "column": full_f[:, [i]].flatten()[:4].tolist()})
    return None


def validate_prev_trace(ctx: Ctx, cfg, recs, T: int, H: int, rows_seen, got):
    cols = feature_columns(cfg["feats"], H)
    pcols = [c for c, n in enumerate(cols) if n == "prev_hedge"]
    if len(rows_seen) != T - 1:
        return ("hedger:stepwise-call-count", f"model called {len(rows_seen)} times for T={T}", {"cfg": cfg})
    for i, ev in enumerate(rows_seen):
        x = ev["input"]
        if x.shape != (len(recs), 1, len(cols)):
            return ("prev_hedge:width", f"model input at step {i} has shape {tuple(x.shape)}; expected (N,1,{len(cols)}) with H={H} prev_hedge entries", {"cfg": cfg})
        prevseen = x[:, 0, pcols]
        exp_prev = torch.zeros(len(recs), H, dtype=x.dtype) if i == 0 else got[:, :, i - 1]
        ctx.count(n=len(recs))
        if not torch.equal(prevseen, exp_prev.to(prevseen)):
            return ("prev_hedge:not-last-output", f"prev_hedge seen at step {i} is not the model's output at step {i - 1}",
                    {"cfg": cfg, "step": i, "seen": prevseen[0].tolist(), "expected": exp_prev[0].tolist()})
        # and the whole row is the specification's row (trace validation against Hedge.tla's `rows`)
        exp_rows = torch.tensor([[frf(v) for v in r["rows"][i]] for r in recs], dtype=torch.float64)
        if not bool(((x[:, 0, :].double() - exp_rows).abs() <= time_tol(T, torch.float64)).all()):
            ctx.sections["row_value_mismatches_diagnostic"] = ctx.sections.get("row_value_mismatches_diagnostic", 0) + 1
    return None


# ---------------------------------------------------------------------------------------------
def replay_pairs(ctx: Ctx, pair_recs: List[Dict[str, Any]], count: bool = True) -> None:
    """C02: run the real hedger on both members of every TLC pair and compare the prefixes bitwise."""
    groups: Dict[str, List[Dict[str, Any]]] = defaultdict(list)
    for r in pair_recs:
        groups[cfg_key(r["cfg"], len(r["mA"]["spot"]))].append(r)
    n_pairs = 0
    for gk, recs in groups.items():
        cfg = recs[0]["cfg"]
        T = len(recs[0]["mA"]["spot"])
        for force_step in (False, True):
            if force_step and any(f in ("prev_hedge", "module_prev") for f in cfg["feats"]):
                continue
            outs = []
            for side in ("mA", "mB"):
                deriv, hedge, _ = build_market(cfg, [r[side] for r in recs], K, DT, torch.float64)
                hedger, _ = build_hedger(cfg, torch.float64, force_step=force_step)
                outs.append(hedger.compute_hedge(deriv, hedge=hedge))
            a, b = outs
            cut = torch.tensor([r["cut"] for r in recs])
            Tn = a.size(-1)
            mask = (torch.arange(Tn)[None, :] <= cut[:, None])[:, None, :].expand_as(a)
            last_only = (cut == Tn - 2)[:, None, None].expand_as(a)
            mask = mask | last_only
            diff = ((a != b) & mask).any(dim=(1, 2))
            n_pairs += len(recs)
            ctx.count(n=len(recs))
            if bool(diff.any()):
                i = int(diff.nonzero()[0])
                ctx.violation(f"hedge:anticipates:{'+'.join(cfg['feats'])}",
                              "changing prices after the cut changed positions at or before it",
                              {"cfg": cfg, "mA": recs[i]["mA"], "mB": recs[i]["mB"], "cut": recs[i]["cut"],
                               "hedgeA": a[i].tolist(), "hedgeB": b[i].tolist(), "mode": "stepwise" if force_step else "native"})
    ctx.sections["perturbation_pairs_replayed"] = n_pairs
    ctx.traces_validated += n_pairs
    for r in pair_recs[:3]:
        ctx.sample({"pair": {"mA": r["mA"], "mB": r["mB"], "cut": r["cut"], "feats": r["cfg"]["feats"]}}, cap=8)


# ---------------------------------------------------------------------------------------------
def _opaque_setups(pairs: List[Dict[str, Any]], side: str, dtype: torch.dtype):
    """Yield (label, derivative) over derivative x underlier types carrying the given side of the pairs."""
    from pfhedge.instruments import (AmericanBinaryOption, BrownianStock, EuropeanBinaryOption, EuropeanOption,
                                     HestonStock, LocalVolatilityStock, LookbackOption)
    T = len(pairs[0][side]["spot"])
    spot = torch.tensor([p[side]["spot"] for p in pairs], dtype=dtype) * 0.5
    var = torch.tensor([p[side]["var"] for p in pairs], dtype=dtype) * 0.04
    from pfhedge.instruments import VasicekRate
    for uname in ("brownian", "heston", "localvol", "rate"):
        for dcls in (EuropeanOption, LookbackOption, AmericanBinaryOption, EuropeanBinaryOption):
            if uname == "brownian":
                ul = BrownianStock(sigma=0.2, cost=1e-3, dt=DT, dtype=dtype)
                ul.register_buffer("spot", spot.clone())
            elif uname == "heston":
                ul = HestonStock(cost=1e-3, dt=DT, dtype=dtype)
                ul.register_buffer("spot", spot.clone())
                ul.register_buffer("variance", var.clone())
            elif uname == "rate":                      # an underlier that defines no volatility at all
                ul = VasicekRate(cost=1e-3, dt=DT, dtype=dtype)
                ul.register_buffer("spot", spot.clone())
            else:
                ul = LocalVolatilityStock(lambda t, s: s, cost=1e-3, dt=DT, dtype=dtype)
                ul.register_buffer("spot", spot.clone())
                ul.register_buffer("volatility", var.sqrt())
            yield f"{dcls.__name__}/{uname}", dcls(ul, strike=1.0, maturity=(T - 1) * DT)


def opaque_pairs(ctx: Ctx) -> None:
    """C02 for opaque built-in models: BlackScholes, WhalleyWilmott, Naked, MultiLayerPerceptron, a user module."""
    from pfhedge.nn import BlackScholes, Hedger, MultiLayerPerceptron, Naked, WhalleyWilmott

    class UserNet(torch.nn.Module):
        def forward(self, x):
            return torch.tanh(x.sum(-1, keepdim=True)) + 0.25 * x[..., :1]

    class PartialNet(torch.nn.Module):
        # a model that gives NO finite hedge ratio at some steps (nan where the moneyness is high, inf where the first input is exactly 1):
        # whatever the hedger makes of an undefined ratio at step t, the positions of the EARLIER steps do not depend on it
        def forward(self, x):
            y = torch.tanh(x.sum(-1, keepdim=True))
            y = torch.where(x[..., :1] >= 1.5, torch.full_like(y, float("nan")), y)
            return torch.where(x[..., :1] == 1.0, torch.full_like(y, float("inf")), y)

    class CausalNet(torch.nn.Module):
        def forward(self, x):
            return torch.tanh(x.sum(-1, keepdim=True).cumsum(-2) / 4)

    seen = set()
    pairs = []
    for r in ctx._pair_recs:
        k = json.dumps([r["mA"], r["mB"], r["cut"]], sort_keys=True)
        if k not in seen:
            seen.add(k)
            pairs.append(r)
    byT: Dict[int, List[Dict[str, Any]]] = defaultdict(list)
    for r in pairs:
        byT[len(r["mA"]["spot"])].append(r)
    total = 0
    for T, ps in byT.items():
        dtype = torch.float64
        cut = torch.tensor([r["cut"] for r in ps])
        models = ["bs", "ww", "naked", "mlp", "mlp_prev", "user", "user_causal", "barrier_prev", "shared_extractor", "user_partial", "user_partial_prev"]
        sa = list(_opaque_setups(ps, "mA", dtype))
        sb = list(_opaque_setups(ps, "mB", dtype))
        for (label, dA), (_, dB) in zip(sa, sb):
            for mname in models:
                torch.manual_seed(ctx.seed + 17)
                if mname == "bs":
                    model = BlackScholes(dA); inputs = model.inputs()
                elif mname == "ww":
                    model = WhalleyWilmott(dA); inputs = model.inputs()
                elif mname == "naked":
                    model = Naked(); inputs = ["empty"]
                elif mname == "mlp":
                    model = MultiLayerPerceptron(n_layers=2, n_units=8).to(dtype); inputs = ["log_moneyness", "time_to_maturity", "volatility", "max_moneyness"]
                elif mname == "mlp_prev":
                    model = MultiLayerPerceptron(n_layers=2, n_units=8).to(dtype); inputs = ["moneyness", "variance", "prev_hedge"]
                elif mname == "shared_extractor":
                    # two hedgers built on the SAME feature objects (a trainable extractor that reads prev_hedge): the one
                    # under test is evaluated right after the other one on the same derivative
                    from pfhedge.features import ModuleOutput
                    ext = torch.nn.Sequential(torch.nn.Linear(4, 4), torch.nn.Tanh(), torch.nn.Linear(4, 1)).to(dtype)
                    inputs = [ModuleOutput(ext, ["log_moneyness", "max_moneyness", "max_log_moneyness", "prev_hedge"]), "time_to_maturity"]
                    other = Hedger(torch.nn.Sequential(torch.nn.Linear(2, 1), torch.nn.Tanh()).to(dtype), inputs)
                    model = torch.nn.Sequential(torch.nn.Linear(2, 8), torch.nn.Tanh(), torch.nn.Linear(8, 1)).to(dtype)
                elif mname == "barrier_prev":      # barrier features evaluated step by step (the state-dependent branch)
                    from pfhedge.features import Barrier
                    model = UserNet(); inputs = [Barrier(0.55), Barrier(0.45, up=False), "moneyness", "prev_hedge"]
                elif mname == "user_partial":
                    model = PartialNet(); inputs = ["moneyness", "time_to_maturity"]
                elif mname == "user_partial_prev":
                    model = PartialNet(); inputs = ["moneyness", "prev_hedge"]
                elif mname == "user_causal":
                    # a user module that looks BACK along the time dimension (a running sum, as a recurrent layer would): causal, so
                    # the hedge stays non-anticipating, and the position at the final index is still the one held over the last step
                    model = CausalNet(); inputs = ["log_moneyness", "time_to_maturity"]
                else:
                    model = UserNet(); inputs = ["moneyness", "max_log_moneyness", "volatility"]
                hedger = Hedger(model, inputs)
                try:
                    with torch.no_grad():
                        if mname == "shared_extractor":
                            other.compute_hedge(dA)
                        a = hedger.compute_hedge(dA)
                        a_again = hedger.compute_hedge(dA)       # the same hedger on the same derivative once more: the same hedge
                        if mname == "shared_extractor":
                            other.compute_hedge(dB)
                        b = hedger.compute_hedge(dB)
                except Exception as e:
                    if label.endswith("/rate") and isinstance(e, AttributeError):
                        ctx.skip("underlier without volatility: the volatility input is not available, no hedge is produced", len(ps))
                        continue
                    ctx.violation(f"opaque:{mname}:{label}:raises", f"{mname} hedger raised {type(e).__name__}", {"error": repr(e)[:300]})
                    continue
                if not torch.equal(a.nan_to_num(), a_again.nan_to_num()):
                    ctx.violation(f"opaque:{mname}:repeat", f"{mname} hedger on {label}: a second evaluation on the same, unchanged derivative gives another hedge "
                                  "(something computed for later steps survived the first evaluation)", {"max_abs_diff": float((a - a_again).abs().nan_to_num().max())})
                def judge(a, b, how):
                    Tn = a.size(-1)
                    mask = (torch.arange(Tn)[None, :] <= cut[:, None])[:, None, :].expand_as(a)
                    mask = mask | (cut >= Tn - 2)[:, None, None].expand_as(a)
                    both_nan = a.isnan() & b.isnan()
                    diff = ((a != b) & ~both_nan & mask).any(dim=(1, 2))
                    if bool(diff.any()):
                        i = int(diff.nonzero()[0])
                        ctx.violation(f"opaque:{mname}:anticipates{how}", f"{mname} hedger on {label}{how}: changing the future changed positions at or before the cut",
                                      {"mA": ps[i]["mA"], "mB": ps[i]["mB"], "cut": ps[i]["cut"], "hedgeA": a[i].tolist(), "hedgeB": b[i].tolist()})
                    if not torch.equal(a[..., -1].nan_to_num(), a[..., -2].nan_to_num()):
                        ctx.violation(f"opaque:{mname}:trade-at-maturity{how}", f"{mname} hedger on {label}{how}: final position differs from the one held over the last step", {})
                judge(a, b, "")
                total += len(ps)
                ctx.count(("opaque", label, mname, T), n=len(ps))
                if T >= 3 and mname not in ("shared_extractor",):
                    # the hedging instrument is another asset whose series is SHORTER than the underlier's (hedging stops early):
                    # the position held over step t still depends on the underlier's prices up to t only
                    from pfhedge.instruments import BrownianStock
                    short = BrownianStock(cost=1e-3, dt=DT, dtype=dtype)
                    short.register_buffer("spot", torch.ones((len(ps), T - 1), dtype=dtype))
                    try:
                        with torch.no_grad():
                            sa_ = hedger.compute_hedge(dA, hedge=[short])
                            sb_ = hedger.compute_hedge(dB, hedge=[short])
                    except Exception as e:
                        ctx.skip(f"hedge with a shorter series than the underlier is not accepted ({type(e).__name__})", len(ps))
                    else:
                        judge(sa_, sb_, ":short-hedge")
                        ctx.count(("opaque-short-hedge", label, mname, T), n=len(ps))
    ctx.sections["opaque_pair_runs"] = total
    ctx.traces_validated += total


def features_on_every_derivative(ctx: Ctx) -> None:
    """Every registered feature on every derivative class - including the ones without a strike (forward start with a start date
    after time zero, variance swap): WHEREVER the pair is available (the feature can be evaluated), column t of the feature
    depends on prices up to t only, in the all-steps and in the single-step form.  Pairs that are not available raise; they are
    counted, not judged - a change that makes a pair available makes it subject to the property."""
    from pfhedge.features import get_feature, list_feature_names
    from pfhedge.instruments import (AmericanBinaryOption, BrownianStock, EuropeanBinaryOption, EuropeanForwardStartOption,
                                     EuropeanOption, HestonStock, LookbackOption, VarianceSwap)
    seen = set()
    pairs = []
    for r in ctx._pair_recs:
        k = json.dumps([r["mA"], r["mB"], r["cut"]], sort_keys=True)
        if k not in seen and len(r["mA"]["spot"]) >= 3:
            seen.add(k)
            pairs.append(r)
    byT: Dict[int, List[Dict[str, Any]]] = defaultdict(list)
    for r in pairs:
        byT[len(r["mA"]["spot"])].append(r)
    dtype = torch.float64
    # ("empty" is uninitialised memory by definition; prev_hedge needs a hedger and is the subject of the Hedge.tla replay)
    names = [n for n in list_feature_names() if n not in ("prev_hedge", "empty")] + ["barrier_up_0.55", "barrier_dn_0.45", "log_spot", "underlier_log_spot"]
    available, unavailable, nonpos = 0, 0, 0
    for T, ps in byT.items():
        cut = torch.tensor([r["cut"] for r in ps])

        def market(side, dname, first=None):
            spot = torch.tensor([p[side]["spot"] for p in ps], dtype=dtype) * 0.5
            if first is not None:          # quotes that are zero / negative at time 0 (spreads, rates): log features are -inf / nan THERE
                spot[:, 0] = first
            var = torch.tensor([p[side]["var"] for p in ps], dtype=dtype) * 0.04
            ul = HestonStock(dt=DT, dtype=dtype)
            ul.register_buffer("spot", spot)
            ul.register_buffer("variance", var)
            M = (T - 1) * DT
            d = {"EuropeanOption": lambda: EuropeanOption(ul, strike=1.0, maturity=M), "LookbackOption": lambda: LookbackOption(ul, strike=1.0, maturity=M),
                 "AmericanBinaryOption": lambda: AmericanBinaryOption(ul, strike=1.0, maturity=M), "EuropeanBinaryOption": lambda: EuropeanBinaryOption(ul, strike=1.0, maturity=M),
                 "EuropeanForwardStartOption": lambda: EuropeanForwardStartOption(ul, strike=1.0, maturity=M, start=(T - 2) * DT),
                 "VarianceSwap": lambda: VarianceSwap(ul, strike=0.04, maturity=M)}[dname]()
            d.list(lambda dd: 3 * dd.ul().spot)
            return d
        for dname in ("EuropeanOption", "LookbackOption", "AmericanBinaryOption", "EuropeanBinaryOption", "EuropeanForwardStartOption", "VarianceSwap"):
            for f in names:
                try:
                    from lib.doubles import make_feature
                    fa = get_feature(make_feature(f, 1, dtype)).of(market("mA", dname))
                    fb = get_feature(make_feature(f, 1, dtype)).of(market("mB", dname))
                    a, b = fa.get(None), fb.get(None)
                    a1 = [fa.get(i) for i in range(T)]
                    b1 = [fb.get(i) for i in range(T)]
                    # ... and once more through the SAME bound objects (a second pass over the steps, as a second evaluation of
                    # a hedger that keeps its features bound would make): what was read at later steps must not come back at earlier ones
                    a2 = [fa.get(i) for i in range(T)]
                    b2 = [fb.get(i) for i in range(T)]
                except Exception:
                    unavailable += 1
                    continue
                if a1[0].dim() == 3:
                    first, second, secondb = torch.cat(a1, dim=1), torch.cat(a2, dim=1), torch.cat(b2, dim=1)
                    cutmask = (torch.arange(second.size(1))[None, :] <= cut[:, None])[:, :, None].expand_as(second) if second.size(1) == T else None
                    stale = (first != second) & ~(first.isnan() & second.isnan())
                    ahead = ((second != secondb) & ~(second.isnan() & secondb.isnan()) & cutmask) if cutmask is not None and second.shape == secondb.shape else torch.zeros_like(stale)
                    if bool(stale.any()) or bool(ahead.any()):
                        i = int((stale | ahead).any(dim=(1, 2)).nonzero()[0])
                        ctx.violation(f"feature-on:{dname}:{f}:second-pass", f"feature {f} of a {dname} stepped a second time through the same bound object: the values differ from the first pass "
                                      "(something read at later steps came back at earlier ones)", {"mA": ps[i]["mA"], "cut": ps[i]["cut"], "first_pass": first[i].flatten().tolist(), "second_pass": second[i].flatten().tolist()})
                available += 1
                ctx.count(("feature-on", dname, f, T), n=len(ps))
                Tn = a.size(1)
                mask = (torch.arange(Tn)[None, :] <= cut[:, None])[:, :, None].expand_as(a)
                both_nan = a.isnan() & b.isnan()
                diff = ((a != b) & ~both_nan & mask).any(dim=(1, 2))
                one = torch.cat(a1, dim=1) if a1[0].dim() == 3 else None
                oneb = torch.cat(b1, dim=1) if b1[0].dim() == 3 else None
                if one is not None and one.shape == a.shape:
                    diff = diff | ((one != oneb) & ~(one.isnan() & oneb.isnan()) & mask).any(dim=(1, 2))
                if bool(diff.any()):
                    i = int(diff.nonzero()[0])
                    ctx.violation(f"feature-on:{dname}:{f}:anticipates", f"feature {f} of a {dname}: changing prices after step {ps[i]['cut']} changed the feature at or before that step",
                                  {"mA": ps[i]["mA"], "mB": ps[i]["mB"], "cut": ps[i]["cut"], "featureA": a[i].flatten().tolist(), "featureB": b[i].flatten().tolist()})
        # the same for a quoted series that starts at zero / below zero: whatever a feature shows at step 0 (-inf, nan, a floor)
        # must not depend on later quotes
        firsts = torch.tensor([0.0, -0.5], dtype=dtype).repeat(len(ps))[:len(ps)]
        for f in names:
            try:
                from lib.doubles import make_feature
                fa = get_feature(make_feature(f, 1, dtype)).of(market("mA", "EuropeanOption", firsts))
                fb = get_feature(make_feature(f, 1, dtype)).of(market("mB", "EuropeanOption", firsts))
                a, b = fa.get(None), fb.get(None)
                a1, b1 = torch.cat([fa.get(i) for i in range(T)], dim=1), torch.cat([fb.get(i) for i in range(T)], dim=1)
            except Exception:
                continue
            nonpos += 1
            ctx.count(("feature-on-nonpositive", f, T), n=len(ps))
            for x, y, form in ((a, b, "all-steps"), (a1, b1, "single-step")):
                if x.shape != y.shape or x.dim() != 3 or x.size(1) != T:
                    continue
                mask = (torch.arange(T)[None, :] <= cut[:, None])[:, :, None].expand_as(x)
                diff = ((x != y) & ~(x.isnan() & y.isnan()) & mask).any(dim=(1, 2))
                if bool(diff.any()):
                    i = int(diff.nonzero()[0])
                    ctx.violation(f"feature-on:nonpositive-quote:{f}:anticipates", f"feature {f} ({form}) on a series starting at {float(firsts[i])}: changing prices after step "
                                  f"{ps[i]['cut']} changed the feature at or before that step",
                                  {"mA": ps[i]["mA"], "mB": ps[i]["mB"], "cut": ps[i]["cut"], "first": float(firsts[i]), "featureA": x[i].flatten().tolist(), "featureB": y[i].flatten().tolist()})
    ctx.sections["feature_nonpositive_quotes"] = nonpos
    if available < 40:
        raise MachineryError(f"features_on_every_derivative: only {available} (derivative, feature) pairs could be evaluated")
    ctx.sections["feature_derivative_pairs"] = {"available": available, "not_available": unavailable}


def c02_selftest(ctx: Ctx) -> None:
    """Binding demonstration: a feature that peeks at the whole-path maximum must be flagged by the pair replay."""
    probe = Ctx.__new__(Ctx)
    probe.__dict__.update({"_per_key": {}, "violations": [], "findings": [], "known_hits": {}, "evaluations": 0, "distinct": set(),
                           "sections": {}, "traces_validated": 0, "samples": []})
    recs = [dict(r, cfg=dict(r["cfg"], feats=["peek_max"], W=[[1]] * len(r["cfg"]["W"]))) for r in ctx._pair_recs
            if len(r["cfg"]["W"]) == 1][:400]
    replay_pairs(probe, recs)
    ctx.selftest("a feature reading the whole-path maximum is rejected by the pair replay", len(probe.violations) > 0)


def c03_selftest(ctx: Ctx) -> None:
    """Binding demonstrations: a feature whose single-step form lags by one column, and a corrupted prev_hedge trace."""
    recs = [r for r in ctx._hedge_recs if r["cfg"]["feats"] == ["moneyness"] and len(r["m"]["spot"]) == 3]
    cfg = recs[0]["cfg"]
    paths = [r["m"] for r in recs]
    T = len(paths[0]["spot"])
    probe = Ctx.__new__(Ctx)
    probe.__dict__.update({"_per_key": {}, "evaluations": 0, "distinct": set(), "sections": {}})
    bad = compare_feature_forms(probe, "lagging_moneyness", cfg, paths, T, 1, torch.float64)
    ctx.selftest("a feature whose get(i) lags get(None) by one column is rejected", bad is not None)
    recs = [r for r in ctx._hedge_recs if r["cfg"]["feats"] == ["prev_hedge"] and len(r["m"]["spot"]) == 3]
    cfg = recs[0]["cfg"]
    T = len(recs[0]["m"]["spot"])
    deriv, hedge, _ = build_market(cfg, [r["m"] for r in recs], K, DT, torch.float64)
    hedger, model = build_hedger(cfg, torch.float64)
    got = hedger.compute_hedge(deriv, hedge=hedge)
    ok = validate_prev_trace(probe, cfg, recs, T, 1, list(model.seen), got)
    corrupted = [dict(e, input=e["input"].clone()) for e in model.seen]
    corrupted[1]["input"][:, 0, 0] += 1.0
    bad = validate_prev_trace(probe, cfg, recs, T, 1, corrupted, got)
    ctx.selftest("a corrupted prev_hedge entry in the recorded trace is rejected", ok is None and bad is not None)
