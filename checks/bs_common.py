"""Evaluation of the obligations enumerated by BSAlgebra.tla on the real Black-Scholes functional forms (C07/C08/C09)."""
from __future__ import annotations

import math
from collections import defaultdict
from typing import Any, Callable, Dict, List, Optional, Tuple

import torch

from lib.bsgrid import GREEKS, PATH_DEPENDENT, Grid, call_sig, functional
from lib.core import Ctx
from lib.tlc import MachineryError

EPS = 1e-12


def check_sizes(grid: Grid, recs: List[Dict[str, Any]]) -> None:
    mx = defaultdict(int)
    for r in recs:
        ob = r["ob"]
        for a in ("s", "t", "v", "k"):
            mx[a] = max(mx[a], ob["pt"][a])
        mx["m"] = max(mx["m"], ob.get("mx", 1))
    want = dict(zip(("s", "t", "v", "k", "m"), grid.shape))
    for a, n in mx.items():
        if n > want[a]:
            raise MachineryError(f"lattice axis {a}: specification index {n} exceeds the numeric axis of length {want[a]}")


def _finite(ctx: Ctx, name: str, x: float, detail: Dict[str, Any]) -> bool:
    if not math.isfinite(x):
        ctx.violation(f"nonfinite:{name}", f"{name} is {x} inside the open parameter domain", detail)
        return False
    return True


def evaluate(ctx: Ctx, grid: Grid, recs: List[Dict[str, Any]], pid: str) -> Dict[str, int]:
    """Hand every obligation to the code.  Violation keys are  <kind>:<product...>  so that a known finding names one relation."""
    check_sizes(grid, recs)
    S = grid.ratio * grid.k
    K = grid.k
    M = grid.ratio * grid.k * grid.f
    seen: Dict[str, int] = defaultdict(int)
    cache_at: Dict[Tuple[str, float], torch.Tensor] = {}

    def val(p: str, call: bool, greek: str, scale: float = 1.0) -> torch.Tensor:
        return grid.value(p, call, greek, scale)

    for r in recs:
        ob = r["ob"]
        kind = ob["kind"]
        pt = ob["pt"]
        idx = grid.index(pt, ob.get("mx", 1))
        where = grid.describe(idx)
        seen[kind] += 1
        s, k, m = S[idx].item(), K[idx].item(), M[idx].item()
        scale_u = max(s, k, 1.0)
        if kind == "greek_is_derivative":
            p, call, g = ob["p"], ob["call"], ob["greek"]
            closed = val(p, call, g)[idx].item()
            ad = grid.derivatives(p, call)[g][idx].item()
            unit = grid.unit(p, g)[idx].item()
            d = {"product": p, "call": call, "greek": g, "is": ob["of"], "at": where, "closed_form": closed, "derivative_of_price": ad}
            ctx.count(n=1)
            if not _finite(ctx, f"bs_{p}_{g}", closed, d) or not math.isfinite(ad):
                continue
            if not (abs(closed - ad) <= 1e-7 * (abs(ad) + 1e-6 * unit)):
                ctx.violation(f"greek:{p}:{g}", f"{g} of the {p} option ({'call' if call else 'put'}) is not the derivative of its own price "
                              f"({'minus ' if ob['of']['sign'] < 0 else ''}d^{ob['of']['order']} price / d {ob['of']['var']})", d)
        elif kind == "parity":
            c, pu = val("european", True, "price")[idx].item(), val("european", False, "price")[idx].item()
            ctx.count(n=1)
            d = {"at": where, "call": c, "put": pu, "spot_minus_strike": s - k}
            if _finite(ctx, "bs_european_price", c, d) and _finite(ctx, "bs_european_price(put)", pu, d) and not (abs((c - pu) - (s - k)) <= EPS * scale_u):
                ctx.violation("parity:european", "European call minus put differs from spot minus strike", d)
        elif kind == "binary_complement":
            c, pu = val("european_binary", True, "price")[idx].item(), val("european_binary", False, "price")[idx].item()
            ctx.count(n=1)
            if not (abs(c + pu - 1.0) <= 1e-15):
                ctx.violation("parity:european_binary", "binary call plus binary put differs from one", {"at": where, "call": c, "put": pu})
        elif kind == "greek_parity":
            p, g = ob["p"], ob["greek"]
            c, pu = val(p, True, g)[idx].item(), val(p, False, g)[idx].item()
            unit = grid.unit(p, g)[idx].item()
            ctx.count(n=1)
            if p == "european":
                want = 1.0 if g == "delta" else 0.0              # d/dS (S - K) = 1, every other Greek of S - K vanishes
                ok = abs((c - pu) - want) <= 1e-12 * max(1.0, unit)
            else:
                ok = abs(c + pu) <= 1e-12 * max(abs(c), unit)   # call + put = 1 has zero Greeks
            if not ok:
                ctx.violation(f"parity:{p}:{g}", f"{g} of call and put of the {p} option do not differ by the {g} of their parity relation", {"at": where, "call": c, "put": pu})
        elif kind == "homogeneous":
            p, call, g, deg = ob["p"], ob["call"], ob["greek"], ob["deg"]
            base = val(p, call, g)[idx].item()
            ctx.count(n=1)
            for j in (-2, 3):
                scaled = val(p, call, g, 2.0 ** j)[idx].item()
                want = base * 2.0 ** (j * deg)
                if not (abs(scaled - want) <= 1e-12 * abs(want) + 1e-300) and not (math.isnan(scaled) and math.isnan(want)):
                    ctx.violation(f"strike-scaling:{p}:{g}", f"{g} of the {p} option at strike {2.0 ** j} K (same log-moneyness) is not {2.0 ** j}^{deg} times its value at strike K "
                                  "(the strike enters with the wrong power)", {"product": p, "call": call, "at": where, "value_at_K": base, "value_at_scaled_K": scaled, "expected": want})
                    break
        elif kind in ("call_bounds", "put_bounds"):
            call = kind == "call_bounds"
            x = val("european", call, "price")[idx].item()
            lo = max(s - k, 0.0) if call else max(k - s, 0.0)
            hi = s if call else k
            ctx.count(n=1)
            if not (lo - EPS * scale_u <= x <= hi + EPS * scale_u):
                ctx.violation(f"bounds:european:{'call' if call else 'put'}", f"European {'call' if call else 'put'} outside [intrinsic value, {'spot' if call else 'strike'}]", {"at": where, "price": x, "lower": lo, "upper": hi})
        elif kind == "unit_interval":
            p, call = ob["p"], ob["call"]
            x = val(p, call, "price")[idx].item()
            ctx.count(n=1)
            if not (-EPS <= x <= 1.0 + EPS):
                ctx.violation(f"bounds:{p}", f"{p} price outside [0, 1]", {"at": where, "call": call, "price": x})
        elif kind == "increasing_in_spot":
            p = ob["p"]
            j = (idx[0] + 1,) + idx[1:]
            a, b = val(p, True, "price")[idx].item(), val(p, True, "price")[j].item()
            ctx.count(n=1)
            if not (b >= a - EPS * scale_u):
                ctx.violation(f"monotone:spot:{p}", f"{p} call price decreases when the spot increases", {"at": where, "next": grid.describe(j), "price": a, "price_next": b})
        elif kind == "convex_in_spot":
            lo_i, hi_i = (idx[0] - 1,) + idx[1:], (idx[0] + 1,) + idx[1:]
            s0, s2 = S[lo_i].item(), S[hi_i].item()
            c0, c1, c2 = (val("european", True, "price")[i].item() for i in (lo_i, idx, hi_i))
            chord = ((s2 - s) * c0 + (s - s0) * c2) / (s2 - s0)
            ctx.count(n=1)
            if not (c1 <= chord + EPS * scale_u):
                ctx.violation("convex:spot:european", "European call price lies above the chord between the neighbouring spots", {"at": where, "price": c1, "chord": chord})
        elif kind in ("nondecreasing_in_volatility", "nondecreasing_in_time"):
            p = ob["p"]
            ax = 2 if kind.endswith("volatility") else 1
            j = tuple(x + 1 if a == ax else x for a, x in enumerate(idx))
            a, b = val(p, True, "price")[idx].item(), val(p, True, "price")[j].item()
            ctx.count(n=1)
            if not (b >= a - EPS * scale_u):
                ctx.violation(f"monotone:{'volatility' if ax == 2 else 'time'}:{p}", f"{p} price decreases when the {'volatility' if ax == 2 else 'time to maturity'} increases",
                              {"at": where, "next": grid.describe(j), "price": a, "price_next": b})
        elif kind == "lookback_ge_european":
            a, b = val("lookback", True, "price")[idx].item(), val("european", True, "price")[idx].item()
            ctx.count(n=1)
            d = {"at": where, "lookback": a, "european": b}
            if _finite(ctx, "bs_lookback_price", a, d) and not (a >= b - EPS * scale_u):
                ctx.violation("dominance:lookback>=european", "lookback call is worth less than the European call", d)
        elif kind == "lookback_ge_locked_in":
            a = val("lookback", True, "price")[idx].item()
            ctx.count(n=1)
            if not (a >= max(m - k, 0.0) - EPS * max(scale_u, m)):
                ctx.violation("dominance:lookback>=locked-in", "lookback call is worth less than the payoff already locked in by the running maximum", {"at": where, "lookback": a, "locked_in": max(m - k, 0.0)})
        elif kind == "american_ge_european_binary":
            a, b = val("american_binary", True, "price")[idx].item(), val("european_binary", True, "price")[idx].item()
            ctx.count(n=1)
            if not (a >= b - EPS):
                ctx.violation("dominance:american>=european_binary", "American binary is worth less than the European binary", {"at": where, "american": a, "european": b})
        elif kind == "american_one_once_reached":
            if not bool(grid.reached[idx]):
                ctx.skip("running maximum below the strike: 'exactly one once reached' does not apply", 1)
                continue
            a = val("american_binary", True, "price")[idx].item()
            ctx.count(n=1)
            if a != 1.0:
                ctx.violation("barrier:american:one", "American binary is not exactly one although the running maximum has reached the strike", {"at": where, "price": a})
        elif kind == "lookback_continuous_at_strike":
            if not grid.ratio[idx].item() < 1.0:
                ctx.skip("spot at or above the strike: the running maximum cannot cross the strike from below", 1)
                continue
            key = ("lookback", 0.0)
            if key not in cache_at:
                cache_at[key] = grid.value_at("lookback", True, "price", grid.lm, torch.zeros_like(grid.lm)).clone()
                cache_at[("lookback", -1.0)] = grid.value_at("lookback", True, "price", grid.lm, torch.full_like(grid.lm, -(2.0 ** -40))).clone()
            a, b = cache_at[key][idx].item(), cache_at[("lookback", -1.0)][idx].item()
            ctx.count(n=1)
            if not (abs(a - b) <= 1e-9 * scale_u):
                ctx.violation("continuity:lookback:max=strike", "lookback price jumps where the running maximum crosses the strike", {"at": where, "price_at_strike": a, "price_just_below": b})
        elif kind == "american_continuous_at_barrier":
            key = ("american_binary", -1.0)
            if key not in cache_at:
                e = torch.full_like(grid.lm, -(2.0 ** -30))
                cache_at[key] = grid.value_at("american_binary", True, "price", e, e).clone()
            a = cache_at[key][idx].item()
            ctx.count(n=1)
            if not (abs(a - 1.0) <= 1e-5):
                ctx.violation("continuity:american:barrier", "American binary does not tend to one as the spot (= running maximum) approaches the strike", {"at": where, "price_just_below": a})
        else:
            raise MachineryError(f"unknown obligation kind {kind}")
    return dict(seen)


# the documented positional order of every functional form (written down here, NOT read from the code: a change of the order
# silently re-interprets every positional caller)
POSITIONAL = {
    "bs_european_price": ["log_moneyness", "time_to_maturity", "volatility", "strike", "call"],
    "bs_european_delta": ["log_moneyness", "time_to_maturity", "volatility", "call"],
    "bs_european_gamma": ["log_moneyness", "time_to_maturity", "volatility", "strike"],
    "bs_european_vega": ["log_moneyness", "time_to_maturity", "volatility", "strike"],
    "bs_european_theta": ["log_moneyness", "time_to_maturity", "volatility", "strike"],
    "bs_european_binary_price": ["log_moneyness", "time_to_maturity", "volatility", "call"],
    **{f"bs_european_binary_{g}": ["log_moneyness", "time_to_maturity", "volatility", "call", "strike"] for g in ("delta", "gamma", "vega", "theta")},
    "bs_american_binary_price": ["log_moneyness", "max_log_moneyness", "time_to_maturity", "volatility"],
    **{f"bs_american_binary_{g}": ["log_moneyness", "max_log_moneyness", "time_to_maturity", "volatility", "strike"] for g in ("delta", "gamma", "vega", "theta")},
    **{f"bs_lookback_{g}": ["log_moneyness", "max_log_moneyness", "time_to_maturity", "volatility", "strike"] for g in ("price", "delta", "gamma", "vega", "theta")},
}


def positional_forms(ctx: Ctx, grid: Grid) -> None:
    """Every functional form called with positional arguments in the documented order equals the keyword call."""
    import pfhedge.nn.functional as F
    for name, order in POSITIONAL.items():
        p, g = name[3:].rsplit("_", 1)
        for call in ([True, False] if "call" in order else [True]):
            kw = dict(grid.kwargs(), call=call)
            try:
                with torch.enable_grad():
                    pos = getattr(F, name)(*[kw[a] for a in order]).detach()
            except Exception as e:
                ctx.violation(f"positional:{name}", f"{name} raised {type(e).__name__} for positional arguments in the documented order", {"order": order, "error": repr(e)[:200]})
                continue
            want = grid.value(p, call, g)
            ctx.count(n=1)
            pos = pos.expand(grid.shape)
            bad = ~(((pos - want).abs() <= 1e-12 * (1 + want.abs())) | (pos.isnan() & want.isnan()))
            if bool(bad.any()):
                i = tuple(int(x) for x in bad.nonzero()[0])
                ctx.violation(f"positional:{name}", f"{name}: positional arguments in the documented order ({', '.join(order)}) give another value than the keywords",
                              {"call": call, "at": grid.describe(i), "positional": pos[i].item(), "keyword": want[i].item()})


def strike_spelling(ctx: Ctx, which: str) -> None:
    """A Python-float strike and the same strike as a float64 tensor give the same value on float64 inputs, also when the
    global default dtype is float32 (1.1 is not representable in float32).  which: "price" or "greeks"."""
    import pfhedge.nn.functional as F
    DT = torch.float64
    lm = torch.tensor([-0.5, -0.125, 0.0, 0.25], dtype=DT)
    mlm = torch.tensor([-0.25, -0.125, 0.5, 0.25], dtype=DT)
    t, v, K = 0.25, 0.5, 1.1
    saved = torch.get_default_dtype()
    torch.set_default_dtype(torch.float32)
    try:
        for fname in sorted(POSITIONAL):
            order = POSITIONAL[fname]
            if "strike" not in order or (fname.endswith("_price") != (which == "price")):
                continue
            kw = {"log_moneyness": lm, "max_log_moneyness": mlm, "time_to_maturity": torch.full_like(lm, t), "volatility": torch.full_like(lm, v), "call": True}
            kw = {k: x for k, x in kw.items() if k in order}
            try:
                with torch.enable_grad():
                    as_float = getattr(F, fname)(**kw, strike=K).detach()
                    as_tensor = getattr(F, fname)(**kw, strike=torch.tensor(K, dtype=DT)).detach()
            except Exception as ex:
                ctx.violation(f"strike-spelling:{fname}:raises", f"{fname} raised {type(ex).__name__} for a Python-float / 0-dim tensor strike", {"error": repr(ex)[:200]})
                continue
            ctx.count(n=1)
            if as_float.dtype != as_tensor.dtype or not bool((((as_float - as_tensor).abs() <= 1e-13 * (1 + as_tensor.abs())) | (as_float.isnan() & as_tensor.isnan())).all()):
                ctx.violation(f"strike-spelling:{fname}", f"{fname}: a Python-float strike and the same strike as a float64 tensor give different values on float64 inputs "
                              "(the number was rounded through the default dtype)", {"strike": K, "python_float": as_float.tolist(), "tensor": as_tensor.tolist()})
    finally:
        torch.set_default_dtype(saved)


def broadcasting(ctx: Ctx, which: str) -> None:
    """Tensor arguments of different ranks - a strike per column as a 1-D tensor included - follow the broadcasting rule of the
    library's tensors (trailing dimensions aligned): the value equals the one obtained from the same arguments expanded to the
    common shape beforehand, element by element.  Non-square and square shapes.  which: "price" or "greeks"."""
    import pfhedge.nn.functional as F
    DT = torch.float64
    for fname in sorted(POSITIONAL):
        order = POSITIONAL[fname]
        if fname.endswith("_price") != (which == "price"):
            continue
        for m, n in ((3, 4), (4, 4), (2, 1)):
            lm = torch.linspace(-0.375, 0.25, m, dtype=DT).reshape(m, 1)
            args = {"log_moneyness": lm, "max_log_moneyness": lm.clamp(min=0.0) + 0.125,
                    "time_to_maturity": torch.linspace(0.25, 1.0, n, dtype=DT), "volatility": torch.tensor([0.25], dtype=DT),
                    "strike": torch.linspace(0.75, 1.5, n, dtype=DT), "call": True}
            args = {k: x for k, x in args.items() if k in order}
            tens = {k: x for k, x in args.items() if isinstance(x, torch.Tensor)}
            shape = torch.broadcast_shapes(*[x.shape for x in tens.values()])
            flat = {k: x.expand(shape).reshape(-1).clone() for k, x in tens.items()}
            try:
                with torch.enable_grad():
                    got = getattr(F, fname)(**args).detach()
                    want = getattr(F, fname)(**dict(args, **flat)).detach().reshape(shape)
            except Exception as ex:
                ctx.violation(f"broadcast:{fname}:raises", f"{fname} raised {type(ex).__name__} for arguments of shapes {[tuple(x.shape) for x in tens.values()]}",
                              {"shapes": {k: list(x.shape) for k, x in tens.items()}, "error": repr(ex)[:200]})
                continue
            ctx.count(n=1)
            if tuple(got.shape) != tuple(shape) or not bool((((got - want).abs() <= 1e-12 * (1 + want.abs())) | (got.isnan() & want.isnan())).all()):
                ctx.violation(f"broadcast:{fname}", f"{fname}: arguments of different ranks (a 1-D strike among them) do not give the value of the same arguments expanded to the common shape",
                              {"shapes": {k: list(x.shape) for k, x in tens.items()}, "got_shape": list(got.shape), "got": got.flatten()[:6].tolist(), "expanded": want.flatten()[:6].tolist()})


def python_strike_on_lattice(ctx: Ctx, grid: Grid, greeks=("price",)) -> None:
    """The whole lattice once more with the strike given as a PYTHON NUMBER (one call per strike level), under the library's default
    dtype float32: float64 inputs are priced with the number the caller wrote (1.1 is not a float32), so every relation
    established for tensor strikes on the lattice holds for this spelling too."""
    saved = torch.get_default_dtype()
    torch.set_default_dtype(torch.float32)
    try:
        for p in ("european", "european_binary", "american_binary", "lookback"):
            for call in ([True, False] if p in ("european", "european_binary") else [True]):
                for g in greeks:
                    full = grid.value(p, call, g)
                    for k, K in enumerate(grid.ax["strike"]):
                        sl = (slice(None), slice(None), slice(None), slice(k, k + 1))
                        kw = {name: (x[sl] if isinstance(x, torch.Tensor) else x) for name, x in grid.kwargs().items()}
                        kw["strike"] = float(K)
                        try:
                            with torch.enable_grad():
                                part = call_sig(functional(p, g), call=call, **kw).detach()
                        except Exception as e:
                            ctx.violation(f"python-strike:{p}:{g}:raises", f"bs_{p}_{g} raised {type(e).__name__} for a Python-number strike", {"strike": K, "error": repr(e)[:200]})
                            break
                        ctx.count(n=1)
                        want = full[sl]
                        part = part.expand(want.shape)
                        bad = ~(((part - want).abs() <= 1e-13 * (1 + want.abs())) | (part.isnan() & want.isnan()))
                        if part.dtype != want.dtype or bool(bad.any()):
                            j = tuple(int(x) for x in bad.nonzero()[0]) if bool(bad.any()) else (0, 0, 0, 0, 0)
                            idx = j[:3] + (k,) + j[4:]
                            ctx.violation(f"python-strike:{p}:{g}", f"bs_{p}_{g}: the strike as a Python number gives another value than the same strike as a float64 tensor "
                                          "(float64 inputs, default dtype float32)", {"call": call, "at": grid.describe(idx), "python_number": part[j].item(), "tensor": want[j].item(), "dtype": str(part.dtype)})
                            break
    finally:
        torch.set_default_dtype(saved)


def batch_consistency(ctx: Ctx, grid: Grid, greeks=("price",)) -> None:
    """The value at a point does not depend on what else is in the batch: the whole lattice in one call, one call per spot level
    (every element of such a call has the same moneyness - all below the strike, or all above) and single points agree."""
    for p in ("european", "european_binary", "american_binary", "lookback"):
        for call in ([True, False] if p in ("european", "european_binary") else [True]):
            for g in greeks:
                full = grid.value(p, call, g)
                for i in range(grid.shape[0]):
                    sl = (slice(i, i + 1),)
                    kw = {k: (x[sl] if isinstance(x, torch.Tensor) else x) for k, x in grid.kwargs().items()}
                    try:
                        with torch.enable_grad():
                            part = call_sig(functional(p, g), call=call, **kw).detach().expand((1,) + grid.shape[1:])
                    except Exception as e:
                        ctx.violation(f"batch:{p}:{g}:raises", f"bs_{p}_{g} raised {type(e).__name__} on one spot level of the lattice", {"error": repr(e)[:200]})
                        break
                    ctx.count(n=1)
                    want = full[sl]
                    bad = ~(((part - want).abs() <= 1e-12 * (1 + want.abs())) | (part.isnan() & want.isnan()))
                    if bool(bad.any()):
                        j = tuple(int(x) for x in bad.nonzero()[0])
                        idx = (i,) + j[1:]
                        ctx.violation(f"batch:{p}:{g}", f"bs_{p}_{g}: the value at a point depends on the other points of the batch (one spot level alone vs the whole lattice)",
                                      {"call": call, "at": grid.describe(idx), "alone": part[j].item(), "in_lattice": want[j].item()})
                        break


def inplace_between_calls(ctx: Ctx) -> None:
    """A functional form called twice with the SAME tensor objects whose contents were changed in place in between answers for
    the current contents (no result remembered by object identity)."""
    import pfhedge.nn.functional as F
    DT = torch.float64
    for fname in sorted(POSITIONAL):
        order = POSITIONAL[fname]
        args = {"log_moneyness": torch.tensor([-0.25, 0.0, 0.125], dtype=DT), "max_log_moneyness": torch.tensor([-0.125, 0.25, 0.125], dtype=DT),
                "time_to_maturity": torch.full((3,), 0.5, dtype=DT), "volatility": torch.full((3,), 0.25, dtype=DT), "call": True, "strike": 1.5}
        args = {k: x for k, x in args.items() if k in order}
        try:
            with torch.enable_grad():
                getattr(F, fname)(**args)
                args["volatility"] += 0.125
                args["log_moneyness"] -= 0.0625
                again = getattr(F, fname)(**args).detach()
                fresh = getattr(F, fname)(**{k: (x.clone() if isinstance(x, torch.Tensor) else x) for k, x in args.items()}).detach()
        except Exception as e:
            ctx.violation(f"inplace:{fname}:raises", f"{fname} raised {type(e).__name__} when called again after its argument tensors were updated in place", {"error": repr(e)[:200]})
            continue
        ctx.count(n=1)
        if not bool((((again - fresh).abs() <= 1e-13 * (1 + fresh.abs())) | (again.isnan() & fresh.isnan())).all()):
            ctx.violation(f"inplace:{fname}", f"{fname} called again with the same tensor objects after an in-place update returns the value of the OLD contents",
                          {"again": again.tolist(), "fresh_tensors": fresh.tolist()})


def normal_functions(ctx: Ctx) -> None:
    """ncdf / npdf of float64 arguments are the standard normal distribution / density functions to double precision (reference:
    math.erfc and math.exp of the C library, independent of torch), and keep the dtype of their argument."""
    import math as _m
    import pfhedge.nn.functional as F
    xs = [k / 8 for k in range(-64, 65)] + [1e-9, -1e-9, 0.1234567891234, -2.718281828459, 5.5, -7.25]
    x = torch.tensor(xs, dtype=torch.float64)
    c, d = F.ncdf(x), F.npdf(x)
    wc = torch.tensor([0.5 * _m.erfc(-v / _m.sqrt(2.0)) for v in xs], dtype=torch.float64)
    wd = torch.tensor([_m.exp(-v * v / 2) / _m.sqrt(2 * _m.pi) for v in xs], dtype=torch.float64)
    ctx.count(n=2 * len(xs))
    if c.dtype != torch.float64 or not bool(((c - wc).abs() <= 1e-15 + 1e-13 * wc).all()):
        i = int(((c - wc).abs() - 1e-13 * wc).argmax())
        ctx.violation("normal:ncdf", "ncdf of a float64 argument is not the normal distribution function to double precision", {"x": xs[i], "observed": c[i].item(), "expected": wc[i].item(), "dtype": str(c.dtype)})
    if d.dtype != torch.float64 or not bool(((d - wd).abs() <= 1e-300 + 1e-13 * wd).all()):
        i = int(((d - wd).abs() - 1e-13 * wd).argmax())
        ctx.violation("normal:npdf", "npdf of a float64 argument is not the normal density to double precision", {"x": xs[i], "observed": d[i].item(), "expected": wd[i].item(), "dtype": str(d.dtype)})
    x32 = x.float()
    if F.ncdf(x32).dtype != torch.float32 or F.npdf(x32).dtype != torch.float32:
        ctx.violation("normal:dtype", "ncdf / npdf of a float32 argument is not float32", {})


def modules_follow_the_derivative(ctx: Ctx) -> None:
    """A module built from a derivative and called WITHOUT arguments reads the derivative's state at the time of the call: after
    the derivative was re-struck (strike reassigned, same simulation), after its underlier's series was replaced in place, and
    after a new simulation, the call without arguments equals the call with that state handed over explicitly - for the price
    and the delta - and the American binary is worth one (times nothing) wherever the running maximum has reached the strike."""
    from checks.c07 import classes, make_derivative, state_of
    from pfhedge.nn import BlackScholes
    for p in classes():
        for builder in ("BlackScholes", "from_derivative"):
            d = make_derivative(p, True, 1.1)
            m = BlackScholes(d) if builder == "BlackScholes" else classes()[p][1].from_derivative(d)
            def resimulate_with(sigma):
                d.ul().sigma = sigma
                torch.manual_seed(4)
                d.simulate(n_paths=3)                                   # the same shape as before

            def raw_state():
                # the derivative's state from the RAW series and the public attributes, not through the derivative's own methods
                ul = d.ul()
                spot = ul.spot
                lm = (spot / d.strike).log()
                n = spot.size(1)
                ttm = ((n - 1 - torch.arange(n, dtype=spot.dtype)) * ul.dt).expand_as(spot)
                return {"log_moneyness": lm, "max_log_moneyness": lm.cummax(dim=-1).values, "time_to_maturity": ttm, "volatility": torch.full_like(spot, ul.sigma)}
            steps = [("first use", lambda: None), ("strike lowered to 0.7", lambda: setattr(d, "strike", 0.7)), ("strike raised to 1.6", lambda: setattr(d, "strike", 1.6)),
                     ("series replaced", lambda: d.ul().register_buffer("spot", d.ul().spot.flip(0) * 1.125)), ("strike back to 1.1", lambda: setattr(d, "strike", 1.1)),
                     ("volatility parameter changed to 0.5 and a new simulation of the same shape", lambda: resimulate_with(0.5)),
                     ("volatility parameter changed to 0.125 and a new simulation of the same shape", lambda: resimulate_with(0.125))]
            for label, act in steps:
                act()
                st = {k: v for k, v in state_of(d).items() if k in m.inputs()}
                raw = {k: v for k, v in raw_state().items() if k in m.inputs()}
                for g in ("price", "delta"):
                    try:
                        got = getattr(m, g)()
                        want = getattr(m, g)(**{k: v.clone() for k, v in raw.items()})
                    except Exception as e:
                        continue                                        # (reported by the loop below)
                    ctx.count(n=got.numel())
                    same = ((got - want).abs() <= 1e-12 * (1 + want.abs())) | (got.isnan() & want.isnan())
                    if got.shape != want.shape or not bool(same.all()):
                        ctx.violation(f"module-state:{p}:{g}:raw", f"{type(m).__name__} ({builder}) .{g}() without arguments is not the value at the state read off the underlier's raw series and "
                                      f"the contract's public attributes ({label})", {"step": label, "without_arguments": got.flatten().tolist()[:9], "at_raw_state": want.flatten().tolist()[:9]})
                for g in ("price", "delta"):
                    try:
                        got = getattr(m, g)()
                        want = getattr(m, g)(**{k: v.clone() for k, v in st.items()})
                    except Exception as e:
                        ctx.violation(f"module-state:{p}:raises", f"{type(m).__name__}.{g}() raised {type(e).__name__} ({label})", {"error": repr(e)[:200]})
                        continue
                    ctx.count(n=got.numel())
                    same = (got == want) | (got.isnan() & want.isnan())
                    if got.shape != want.shape or not bool(same.all()):
                        ctx.violation(f"module-state:{p}:{g}", f"{type(m).__name__} ({builder}) .{g}() without arguments differs from the same call with the derivative's current state given explicitly ({label})",
                                      {"step": label, "without_arguments": got.flatten().tolist()[:9], "with_current_state": want.flatten().tolist()[:9]})
                # a module asked for NOW (BlackScholes(d) again, after the derivative was used and re-configured) is the module of the
                # derivative as it is now: its strike, its value at the current state
                if builder == "BlackScholes":
                    try:
                        m_now = BlackScholes(d)
                        by_ctor = classes()[p][1](call=True, strike=d.strike)
                        got = m_now.price()
                        want = by_ctor.price(**{k: v.clone() for k, v in raw.items()})
                        ctx.count(n=got.numel())
                        same = ((got - want).abs() <= 1e-12 * (1 + want.abs())) | (got.isnan() & want.isnan())
                        if m_now.strike != d.strike or got.shape != want.shape or not bool(same.all()):
                            ctx.violation(f"module-state:{p}:rebuilt", f"BlackScholes(derivative) built after [{label}] is not the module of the derivative as it is now (strike {d.strike})",
                                          {"step": label, "module_strike": float(m_now.strike), "derivative_strike": float(d.strike), "price": got.flatten().tolist()[:6], "expected": want.flatten().tolist()[:6]})
                    except Exception as e:
                        ctx.violation(f"module-state:{p}:raises", f"BlackScholes(derivative).price() raised {type(e).__name__} ({label})", {"error": repr(e)[:200]})
                if p == "american_binary":
                    pr = m.price()
                    reached = d.max_log_moneyness() >= 0
                    ctx.count(n=1)
                    if bool(reached.any()) and not bool(((pr[reached] - 1.0).abs() <= 1e-12).all()):
                        ctx.violation("module-state:american_binary:reached", f"the American binary call is not worth 1 where the running maximum has reached the strike ({label})",
                                      {"step": label, "price": pr.flatten().tolist(), "reached": reached.flatten().tolist()})

