"""C01 - hedging P&L is the self-financing wealth identity.

1. TLC checks PnL.tla (account machine == formula, self-financing invariant, liveness) on every
   input of the bounded lattices and prints one record per terminal state.
2. Every record is replayed into pfhedge.nn.functional.pl / terminal_value (float64 and float32,
   batched and path by path, with power-of-two rescalings of prices, positions and cost rates for
   which the account's wealth scales exactly) and compared bitwise.
3. Hedge.tla records (features -> model -> hedge -> account wealth) are replayed into a real Hedger
   (compute_hedge / compute_portfolio / compute_pl), see hedge_common.py.
"""
from __future__ import annotations

import json
import random
from collections import defaultdict
from concurrent.futures import ThreadPoolExecutor
from typing import Any, Dict, List

import torch

from lib.core import Ctx, run_check
from lib.tlc import MachineryError, require_actions

QUICK = ["q_h1t3", "q_h2t2", "q_h1t2", "q_h2t3", "q_h1t1", "q_h2t1"]      # T = 1: one time point, no trade after the opening one
THOROUGH = QUICK + ["t_h1t4", "t_h2t3", "t_h3t2"]

SCALES = [(0, 0, 0), (-7, 5, -10), (6, -3, -4), (-3, -3, 0)]


def _expected(rec: Dict[str, Any], a: int, b: int, c: int) -> float:
    cash = rec["pl"] + rec["fees"]
    return cash * 2.0 ** (a + b) - rec["fees"] * 2.0 ** (a + b + c)


def replay_group(ctx: Ctx, F, recs: List[Dict[str, Any]], rng: random.Random) -> None:
    r0 = recs[0]
    cost = r0["cost"] if r0["cost"] else None
    first = r0["first"]
    for dtype in (torch.float64, torch.float32):
        for (a, b, c) in SCALES:
            spot = torch.tensor([r["spot"] for r in recs], dtype=dtype) * 2.0 ** a
            unit = torch.tensor([r["unit"] for r in recs], dtype=dtype) * 2.0 ** b
            payoff = torch.tensor([r["payoff"] for r in recs], dtype=dtype) * 2.0 ** (a + b)
            cvec = None if cost is None else [x * 2.0 ** c for x in cost]
            exp = torch.tensor([_expected(r, a, b, c) for r in recs], dtype=torch.float64)
            spot0, unit0, pay0 = spot.clone(), unit.clone(), payoff.clone()
            for fname in ("pl", "terminal_value"):
                fn = getattr(F, fname)
                try:
                    got = fn(spot=spot, unit=unit, cost=cvec, payoff=payoff, deduct_first_cost=first)
                except Exception as e:  # the spec returns a value for every such input
                    ctx.violation(f"{fname}:raises", f"{fname} raised {type(e).__name__} on a lattice input",
                                  {"record": r0, "error": repr(e)})
                    return
                ctx.count(n=len(recs))
                if got.dtype != dtype or got.shape != (len(recs),):
                    ctx.violation(f"{fname}:shape-dtype", f"{fname} returned {got.dtype}{tuple(got.shape)}",
                                  {"record": r0})
                    continue
                bad = (got.double() != exp).nonzero().flatten().tolist()
                if bad:
                    i = bad[0]
                    ctx.violation(f"{fname}:value", f"{fname} differs from the self-financing account on {len(bad)} input(s)",
                                  {"record": recs[i], "scale": [a, b, c], "dtype": str(dtype),
                                   "expected": exp[i].item(), "observed": got[i].item(), "n_bad": len(bad)})
                if not (torch.equal(spot, spot0) and torch.equal(unit, unit0) and torch.equal(payoff, pay0)):
                    ctx.violation(f"{fname}:mutates-arguments", f"{fname} modified a tensor passed by the caller", {"record": r0})
                    spot, unit, payoff = spot0.clone(), unit0.clone(), pay0.clone()
    # payoff=None equals payoff 0; default flag is True
    zs = [r for r in recs if r["payoff"] == 0]
    if zs:
        spot = torch.tensor([r["spot"] for r in zs], dtype=torch.float64)
        unit = torch.tensor([r["unit"] for r in zs], dtype=torch.float64)
        exp = torch.tensor([float(r["pl"]) for r in zs], dtype=torch.float64)
        got = F.pl(spot=spot, unit=unit, cost=cost, payoff=None, deduct_first_cost=first)
        ctx.count(n=len(zs))
        if not torch.equal(got, exp):
            ctx.violation("pl:payoff-none", "pl(payoff=None) differs from the account with zero payoff", {"record": zs[0]})
        if first:
            got = F.pl(spot=spot, unit=unit, cost=cost)
            if not torch.equal(got, exp):
                ctx.violation("pl:default-flag", "pl() default does not charge the opening trade", {"record": zs[0]})
    # path by path (path independence) on a seeded subset
    for r in rng.sample(recs, min(len(recs), 40)):
        spot = torch.tensor([r["spot"]], dtype=torch.float64)
        unit = torch.tensor([r["unit"]], dtype=torch.float64)
        payoff = torch.tensor([r["payoff"]], dtype=torch.float64)
        got = F.pl(spot=spot, unit=unit, cost=cost, payoff=payoff, deduct_first_cost=first)
        ctx.count(n=1)
        if got.item() != float(r["pl"]):
            ctx.violation("pl:single-path", "pl on a single path differs from the account", {"record": r, "observed": got.item()})


def double_precision(ctx: Ctx, F) -> None:
    """float64 inputs that are NOT representable in float32 (prices, positions, rates such as 1e-3): the wealth identity is
    evaluated in exact rational arithmetic on the given doubles (fractions.Fraction) and must be met to double precision - an
    account kept in single precision, or rates rounded through float32, is off by 1e-8 to 1e-6."""
    from fractions import Fraction as Fr
    gen = torch.Generator().manual_seed(ctx.seed + 9)
    # (the last two cases come AFTER the same rate list was used in a float32 computation: the account of one call does not depend
    #  on the dtype of an earlier call with the same rates)
    for N, H, T, cost, first in ((3, 1, 4, [1e-3], True), (2, 2, 5, [1e-3, 3e-4], True), (2, 2, 3, [7e-3, 0.0], False), (1, 3, 2, [1e-2, 2e-2, 5e-4], True), (2, 1, 4, None, True),
                                 (3, 1, 4, [1.3e-3], True), (2, 2, 3, [1.7e-3, 2.9e-4], False)):
        spot = torch.rand(N, H, T, dtype=torch.float64, generator=gen) * 1.7 + 0.3
        unit = torch.randn(N, H, T, dtype=torch.float64, generator=gen)
        payoff = torch.rand(N, dtype=torch.float64, generator=gen) * 0.3
        if cost in ([1.3e-3], [1.7e-3, 2.9e-4]):
            for fname in ("pl", "terminal_value"):
                getattr(F, fname)(spot=spot.float(), unit=unit.float(), cost=cost, payoff=payoff.float(), deduct_first_cost=first)
        exp = []
        for i in range(N):
            tot = -Fr(payoff[i].item())
            for h in range(H):
                c = Fr(cost[h]) if cost else Fr(0)
                for t in range(T - 1):
                    tot += Fr(unit[i, h, t].item()) * (Fr(spot[i, h, t + 1].item()) - Fr(spot[i, h, t].item()))
                    tot -= c * abs(Fr(unit[i, h, t + 1].item()) - Fr(unit[i, h, t].item())) * Fr(spot[i, h, t + 1].item())
                if first:
                    tot -= c * abs(Fr(unit[i, h, 0].item())) * Fr(spot[i, h, 0].item())
            exp.append(float(tot))
        want = torch.tensor(exp, dtype=torch.float64)
        for fname in ("pl", "terminal_value"):
            got = getattr(F, fname)(spot=spot.clone(), unit=unit.clone(), cost=cost, payoff=payoff.clone(), deduct_first_cost=first)
            ctx.count(n=N)
            if got.dtype != torch.float64 or not bool(((got - want).abs() <= 1e-13 * (1 + want.abs())).all()):
                ctx.violation(f"{fname}:double-precision", f"{fname} on float64 inputs differs from the wealth identity evaluated exactly on those doubles by more than double-precision round-off",
                              {"N": N, "H": H, "T": T, "cost": cost, "deduct_first_cost": first, "max_abs_error": float((got.double() - want).abs().max()), "dtype": str(got.dtype)})


def large_batch(ctx: Ctx, F) -> None:
    """One call on a LARGE batch (more than 2^24 price points, as a Monte-Carlo run has) equals the same paths evaluated in
    chunks - the account of a path does not depend on how many other paths are in the call.  Integer-valued prices and positions
    and dyadic rates, so that every sum is exact whatever its order; the position changes at the last step too."""
    g = torch.Generator().manual_seed(5)
    N, H, T = 2 ** 21 + 3, 2, 5
    spot = torch.randint(1, 5, (N, H, T), generator=g).to(torch.float32)
    unit = torch.randint(-2, 3, (N, H, T), generator=g).to(torch.float32)
    payoff = torch.randint(-3, 4, (N,), generator=g).to(torch.float32)
    for cost in ([0.125, 0.25], None):
        for first in (True, False):
            with torch.no_grad():
                whole = F.pl(spot, unit, cost=cost, payoff=payoff, deduct_first_cost=first)
                parts = torch.cat([F.pl(spot[a:a + 2 ** 18], unit[a:a + 2 ** 18], cost=cost, payoff=payoff[a:a + 2 ** 18], deduct_first_cost=first) for a in range(0, N, 2 ** 18)])
            ctx.count(("large-batch", str(cost), first), n=1)
            if whole.shape != parts.shape or not torch.equal(whole, parts):
                i = int((whole != parts).nonzero()[0]) if whole.shape == parts.shape else 0
                ctx.violation("pl:large-batch", f"pl() on {N * H * T} price points in one call differs from the same paths evaluated in chunks of 2^18",
                              {"cost": cost, "deduct_first_cost": first, "path": i, "spot": spot[i].tolist(), "unit": unit[i].tolist(), "payoff": payoff[i].item(),
                               "in_one_call": whole[i].item() if whole.shape == parts.shape else None, "in_chunks": parts[i].item()})


def long_lived_hedger(ctx: Ctx, F) -> None:
    """The hedger's P&L and portfolio value ARE the identity evaluated on the instruments' CURRENT prices, the hedge it computes
    NOW, their current cost rates and the derivative's current payoff - for one hedger object used again and again: on the same
    paths after the contract was re-struck, a clause added, the cost rate changed, the inputs replaced; after a call that raised
    half-way and a new simulation.  Reference for every step: pl() of the public pieces (compute_hedge of a FRESH hedger with the
    same model, the stacked spots, the costs, payoff())."""
    from pfhedge.instruments import BrownianStock, EuropeanOption, LookbackOption
    from pfhedge.nn import BlackScholes, Hedger, Naked
    dt = torch.float64

    class Lin(torch.nn.Module):
        def __init__(self, w, two=False):
            super().__init__()
            self.w, self.two = w, two

        def forward(self, x):
            y = torch.tanh((x * torch.tensor(self.w[: x.size(-1)], dtype=x.dtype)).sum(-1, keepdim=True))
            return y if not self.two else torch.cat([y, 0.5 - y * y], dim=-1)

    def reference(model, inputs, d, hedge):
        fresh = Hedger(model, list(inputs))
        hs = hedge if hedge is not None else [d.ul()]
        unit = fresh.compute_hedge(d, hedge=hedge)
        spot = torch.stack([h.spot for h in hs], dim=1)
        cost = [h.cost for h in hs]
        return F.pl(spot, unit, cost=cost, payoff=d.payoff()), F.pl(spot, unit, cost=cost)

    from pfhedge.features import FeatureList
    for mname in ("bs", "lin", "lin-prev", "lin2", "lin2-prev"):
        torch.manual_seed(ctx.seed + 31)
        stock = BrownianStock(cost=1e-3, dt=0.25, dtype=dt)
        d = EuropeanOption(stock, maturity=1.0, strike=1.0)
        listed = LookbackOption(stock, maturity=1.0, strike=1.1)
        listed.list(lambda x: x.ul().spot * 0.25 + 0.05, cost=5e-4)
        if mname == "bs":
            model = BlackScholes(d); inputs = [str(f) for f in model.inputs()]
        else:
            model = Lin([0.5, -0.25, 0.125, 0.75], two=mname.startswith("lin2")); inputs = ["log_moneyness", "time_to_maturity"] + (["prev_hedge"] if mname.endswith("prev") else [])
        hedger = Hedger(model, list(inputs))
        d.simulate(n_paths=4)
        steps = [("first use", lambda: None),
                 ("the contract re-struck on the same paths", lambda: setattr(d, "strike", 1.125)),
                 ("a clause added", lambda: d.add_clause("cap", lambda dd, p: p.clamp(max=0.0625))),
                 ("the cost rate changed", lambda: setattr(stock, "cost", 4e-3)),
                 ("a new simulation of the same size", lambda: d.simulate(n_paths=4)),
                 ("a call that raised half-way, then a new simulation", "abort"),
                 ("the inputs replaced by others of the same width", lambda: setattr(hedger, "inputs", FeatureList(["moneyness", "expiry_time"] + (["prev_hedge"] if mname.endswith("prev") else []))) if mname != "bs" else None)]
        cur_inputs = list(inputs)
        for label, act in steps:
            if act == "abort":
                class Fault(Exception):
                    pass

                def boom(module, args):
                    raise Fault()
                h_ = hedger.model.register_forward_pre_hook(boom)
                try:
                    hedger.compute_pl(d, hedge=None if not mname.startswith("lin2") else [stock, listed])
                except Fault:
                    pass
                finally:
                    h_.remove()
                d.simulate(n_paths=4)
            else:
                act()
                if label.startswith("the inputs") and mname != "bs":
                    cur_inputs = ["moneyness", "expiry_time"] + (["prev_hedge"] if mname.endswith("prev") else [])
            for hedge in ((None,) if not mname.startswith("lin2") else ([stock, listed],)):
                try:
                    with torch.no_grad():
                        got_pl = hedger.compute_pl(d, hedge=hedge)
                        got_pf = hedger.compute_portfolio(d, hedge=hedge)
                        want_pl, want_pf = reference(model, cur_inputs, d, hedge)
                except Exception as e:
                    ctx.violation("hedger:long-lived:raises", f"compute_pl of a long-lived hedger raised {type(e).__name__} after {label}", {"model": mname, "error": repr(e)[:200]})
                    continue
                ctx.count(("long-lived", mname, label, hedge is not None), n=1)
                for what, got, want in (("P&L", got_pl, want_pl), ("portfolio value", got_pf, want_pf)):
                    if got is None:
                        continue
                    if got.shape != want.shape or not torch.equal(got, want):
                        ctx.violation(f"hedger:long-lived:{what}", f"the {what} reported by a long-lived hedger after [{label}] is not the identity on the current prices, hedge, costs and payoff",
                                      {"model": mname, "hedge": "default" if hedge is None else "stock + listed option", "reported": got.tolist(), "identity": want.tolist()})
                        break


def check(ctx: Ctx) -> None:
    import pfhedge.nn.functional as F
    from checks import hedge_common

    cfgs = QUICK if ctx.tier == "quick" else THOROUGH
    with ThreadPoolExecutor(max_workers=8) as ex:
        results = list(ex.map(lambda c: ctx.tlc("MC_PnL", f"MC_PnL_{c}.cfg", workers=1), cfgs))
    rng = random.Random(ctx.seed)
    total = 0
    for res in results:
        require_actions(res, ["Trade", "Settle"])
        if not res.records:
            raise MachineryError(f"{res.cfg}: no record emitted")
        groups: Dict[Any, List[Dict[str, Any]]] = defaultdict(list)
        for r in res.records:
            groups[(len(r["spot"]), len(r["spot"][0]), tuple(r["cost"]), r["first"])].append(r)
            ctx.distinct.add((res.cfg, json.dumps(r, sort_keys=True)))
        total += len(res.records)
        for g in groups.values():
            replay_group(ctx, F, g, rng)
        ctx.sample({"cfg": res.cfg, "record": res.records[len(res.records) // 2]}, cap=4)
    # binding demonstration: a corrupted record must be rejected by the same comparison
    probe = Ctx.__new__(Ctx)
    probe.__dict__.update({"_per_key": {}, "violations": [], "findings": [], "known_hits": {}, "evaluations": 0, "distinct": set()})
    bad = dict(results[0].records[7])
    bad["pl"] = bad["pl"] + 1
    replay_group(probe, F, [bad], random.Random(0))
    ctx.selftest("corrupted expected wealth is rejected", len(probe.violations) > 0)

    double_precision(ctx, F)
    large_batch(ctx, F)
    long_lived_hedger(ctx, F)
    hedge_common.replay_hedger(ctx, focus="C01")

    from checks import suite_oracles
    suite_oracles.suite(ctx, "pl")        # every pl() call of the repository's own tests against the exact wealth identity

    ctx.rule = ("every terminal state of the PnL account machine (all spot/unit/cost/payoff/flag combinations of the "
                "bounded lattices) emitted by TLC and replayed into pl()/terminal_value() in float64/float32 under 4 "
                "power-of-two rescalings; plus Hedge.tla records replayed into a real Hedger; a case is distinct when "
                "its emitted record differs")
    ctx.traces_validated = total + ctx.sections.get("hedger_records", 0)
    ctx.exhaustive = True
    ctx.assumptions += [
        "float64/float32 arithmetic is exact on the small-integer and dyadic lattices used",
        "inputs outside the bounded lattices are covered only through exact power-of-two rescaling",
    ]


if __name__ == "__main__":
    raise SystemExit(run_check("C01", check))
