"""C17 - instrument dtype/device contract over any cast/simulate sequence.

Dtype.tla is the dtype state machine of primary instruments (to / float / double / half / bfloat16 / to(tensor) /
to(instrument) / rejected non-floating casts / simulate / register_buffer / set_default_dtype, each also issued through
a derivative).  TLC explores the full reachable graph (VIEW hides the history) with Contract as invariant and the action
properties SimulateUniform, SimulateInDeclared, RejectedIsNoop, Locality.

Binding, both directions:
  spec -> code   every history of length 3 (quick; 4 thorough) over a reduced alphabet, plus `tlc -simulate` histories
                 of length 7 over the full alphabet, is executed on real BrownianStock / HestonStock / EuropeanOption
                 objects; after EVERY operation the projected state (declared dtype, dtype of each buffer, default dtype,
                 derivative dtype) is compared with the machine's; at the end the dtype of payoff, features, listed
                 price, hedge, P&L, loss and price is compared with the buffers' dtype.
  code -> spec   seeded random operation sequences are run on the real objects with a recorder; DtypeTrace.tla (TLC)
                 accepts a trace iff every logged call and post-state is explained by the machine.
"""
from __future__ import annotations

import json
import os
import random
import warnings
from typing import Any, Dict, List, Optional, Tuple

import torch

from lib.core import Ctx, run_check
from lib.tlc import MachineryError, WORK, VERIF as VERIF_ROOT
REPO = os.environ.get("VERIF_REPO", "/repo")

DT = {"f16": torch.float16, "bf16": torch.bfloat16, "f32": torch.float32, "f64": torch.float64, "i64": torch.int64}
NAME = {v: k for k, v in DT.items()}
BUFS = {"p1": ["spot"], "p2": ["spot", "variance"]}


class World:
    """Two real primaries and their derivatives, driven by abstract operations."""

    def __init__(self, init: Dict[str, Any], variant: int = 0) -> None:
        from pfhedge.instruments import (AmericanBinaryOption, BrownianStock, CIRRate, EuropeanBinaryOption, EuropeanOption, HestonStock,
                                         KouJumpStock, LocalVolatilityStock, LookbackOption, MertonJumpStock, RoughBergomiStock, VasicekRate)
        torch.set_default_dtype(DT[init["default"]])
        d = init["declared"]
        dt1 = None if d["p1"] == "none" else DT[d["p1"]]
        dt2 = None if d["p2"] == "none" else DT[d["p2"]]
        # all eight primary kinds and the four option types take their turn (variant = index of the history)
        one = [BrownianStock, CIRRate, VasicekRate, MertonJumpStock, KouJumpStock][variant % 5]
        two = [("heston", "variance"), ("rough_bergomi", "variance"), ("local_volatility", "volatility")][variant % 3]
        if two[0] == "heston":
            p2 = HestonStock(dt=0.5, dtype=dt2)
        elif two[0] == "rough_bergomi":
            p2 = RoughBergomiStock(dt=0.5, dtype=dt2)
        else:
            p2 = LocalVolatilityStock(lambda t, s: torch.full_like(s, 0.2), dt=0.5, dtype=dt2)
        self.second = two[1]                      # real name of the buffer the machine calls "variance"
        self.prim = {"p1": one(dt=0.5, dtype=dt1), "p2": p2}
        opts = [EuropeanOption, LookbackOption, AmericanBinaryOption, EuropeanBinaryOption]
        self.deriv = {"p1": opts[variant % 4](self.prim["p1"], maturity=1.0), "p2": opts[(variant + 1) % 4](self.prim["p2"], maturity=1.0, call=(opts[(variant + 1) % 4] is not EuropeanOption))}   # closed forms of the other puts are not provided
        self.classes = [type(self.prim["p1"]).__name__, type(p2).__name__, type(self.deriv["p1"]).__name__, type(self.deriv["p2"]).__name__]
        self.backend_gap: Optional[str] = None

    def real(self, p: str, name: str) -> str:
        return self.second if (p == "p2" and name == "variance") else name

    def obj(self, p: str, via: str):
        return self.deriv[p] if via == "derivative" else self.prim[p]

    def apply(self, ev: Dict[str, Any]) -> Tuple[bool, Optional[str]]:
        """Returns (ok, error class)."""
        op, p, d, how, via = ev["op"], ev["p"], ev["d"], ev["how"], ev["via"]
        try:
            if op == "To":
                o = self.obj(p, via)
                if how == "to(dtype)":
                    o.to(DT[d])
                elif how == "method":
                    {"f16": o.half, "bf16": o.bfloat16, "f32": o.float, "f64": o.double}[d]()
                else:
                    o.to(torch.zeros(1, dtype=DT[d]))
            elif op == "ToNoArg":
                o = self.obj(p, via)
                o.to() if via == "primary" else o.cpu()
            elif op == "ToInstrument":
                self.prim[p].to(self.prim[d])
            elif op == "ToNonFloat":
                o = self.obj(p, via)
                # every kind of non-floating dtype takes its turn: integers, booleans and COMPLEX numbers
                self.nnf = getattr(self, "nnf", 0) + 1
                nf = [torch.int64, torch.complex64, torch.bool, torch.int32, torch.complex128][self.nnf % 5]
                o.to(nf) if how == "to(dtype)" else o.to(torch.zeros(1, dtype=nf))
            elif op == "Simulate":
                # every other simulation states the initial state explicitly, with the price as a Python INTEGER (admissible:
                # "scalar initial states"); the declared dtype decides the dtype of the series, not the spelling of the state
                self.nsim = getattr(self, "nsim", 0) + 1
                kw: Dict[str, Any] = {}
                if self.nsim % 2 == 0:
                    kw["init_state"] = (1,) if (p == "p1" or self.second == "volatility") else (1, 0.04)
                if via == "derivative":
                    self.deriv[p].simulate(n_paths=2, **kw)
                else:
                    self.prim[p].simulate(n_paths=2, time_horizon=1.0, **kw)
            elif op == "RegisterBuffer":
                name = self.real(p, how)
                have = dict(self.prim[p].named_buffers())
                if name != "spot" and "spot" in have and have["spot"].dtype == DT[d]:
                    # the SAME tensor object under a second name (an alias such as a "mid" price): still one buffer per name
                    self.prim[p].register_buffer(name, have["spot"])
                else:
                    self.prim[p].register_buffer(name, torch.ones(2, 3, dtype=DT[d]))
            elif op == "SetDefault":
                torch.set_default_dtype(DT[d])
            else:
                raise MachineryError(f"unknown op {op}")
            return True, None
        except TypeError as e:
            return False, "TypeError"
        except (RuntimeError, NotImplementedError, ValueError) as e:
            msg = str(e)
            eff = self.prim[p].dtype if (op == "Simulate" and self.prim[p].dtype is not None) else torch.get_default_dtype()
            if "not implemented for" in msg or "not supported" in msg.lower() or (op == "Simulate" and eff in (torch.float16, torch.bfloat16)):
                self.backend_gap = msg[:120]      # half precision: an operation of the generator is missing on this backend
                return False, "backend"
            return False, type(e).__name__ + ":" + msg[:120]

    def project(self) -> Dict[str, Any]:
        out = {"default": NAME[torch.get_default_dtype()], "declared": {}, "bufs": {}}
        for p, prim in self.prim.items():
            out["declared"][p] = "none" if prim.dtype is None else NAME.get(prim.dtype, str(prim.dtype))
            out["bufs"][p] = {}
            have = dict(prim.named_buffers())
            for b in BUFS[p]:
                rb = self.real(p, b)
                out["bufs"][p][b] = NAME.get(have[rb].dtype, str(have[rb].dtype)) if rb in have else "absent"
        return out

    def derivative_alias_ok(self) -> bool:
        return all(self.deriv[p].dtype == self.prim[p].dtype and self.deriv[p].device == self.prim[p].device for p in self.prim)

    def reused_objects(self, ctx: Ctx, trace: Any) -> None:
        """C16 across dtypes: hedger and feature objects that LIVE THROUGH the history (used after every operation, with
        whatever dtype the buffers had then) must give what freshly built ones give on the current buffers - dtype and values."""
        from pfhedge.features import FeatureList
        from pfhedge.nn import Hedger

        class SumNet(torch.nn.Module):
            def forward(self, x):
                return x.sum(-1, keepdim=True)

        feats = ["moneyness", "log_moneyness", "time_to_maturity", "max_moneyness", "underlier_spot", "prev_hedge"]

        def feats_for(prim):      # volatility / variance where the model defines them (computed on demand for BrownianStock & co.)
            return feats + ([] if type(prim).__name__ in ("CIRRate", "VasicekRate") else ["volatility", "variance"])
        if not hasattr(self, "_kept"):
            self._kept = {p: Hedger(SumNet(), feats_for(self.prim[p])) for p in self.prim}
            # ... and one that is evaluated for all steps at once (no prev_hedge among its inputs)
            self._kept_all = {p: Hedger(SumNet(), [f for f in feats_for(self.prim[p]) if f != "prev_hedge"]) for p in self.prim}
        for p, prim in self.prim.items():
            have = dict(prim.named_buffers())
            if set(have) != {self.real(p, b) for b in BUFS[p]}:
                continue
            if len({b.dtype for b in have.values()}) != 1 or len({tuple(b.shape) for b in have.values()}) != 1:
                continue
            dt = next(iter(have.values())).dtype
            d = self.deriv[p]
            for name, fn, keptset in (("hedge", lambda h: h.compute_hedge(d), self._kept), ("P&L", lambda h: h.compute_pl(d), self._kept),
                                      ("hedge (all steps at once)", lambda h: h.compute_hedge(d), self._kept_all), ("P&L (all steps at once)", lambda h: h.compute_pl(d), self._kept_all)):
                try:
                    kept = fn(keptset[p])
                    names = feats_for(prim) if keptset is self._kept else [f for f in feats_for(prim) if f != "prev_hedge"]
                    if keptset is self._kept:
                        fresh = fn(Hedger(SumNet(), names))
                    else:                       # ... against a fresh hedger on a freshly built derivative over the same instrument
                        kw = {"maturity": d.maturity, "strike": d.strike}
                        if "call" in type(d).__init__.__code__.co_varnames:
                            kw["call"] = d.call
                        fresh_d = type(d)(prim, **kw)
                        fresh = Hedger(SumNet(), names).compute_hedge(fresh_d) if name.startswith("hedge") else Hedger(SumNet(), names).compute_pl(fresh_d)
                except RuntimeError as e:
                    if dt in (torch.float16, torch.bfloat16):
                        ctx.skip("half precision: backend does not implement an operation", 1)
                        continue
                    ctx.violation("dtype:reused:raises", f"{name} with a long-lived hedger raised RuntimeError on {NAME.get(dt, str(dt))} buffers", {"error": str(e)[:200], "trace": trace})
                    continue
                ctx.count(n=1)
                if kept.dtype != fresh.dtype or kept.dtype != dt:
                    ctx.violation(f"dtype:reused:{name}", f"{name} of a hedger that was used with other dtypes before is {kept.dtype}; a fresh hedger gives {fresh.dtype} on {dt} buffers", {"primary": p, "trace": trace})
                elif not torch.equal(kept.nan_to_num(), fresh.nan_to_num()):
                    ctx.violation(f"history:reused:{name}", f"{name} of a hedger that was used with other dtypes / path counts before differs from a fresh hedger's on the same buffers", {"primary": p, "trace": trace})

    def computed_in(self, ctx: Ctx, trace: Any) -> None:
        """dtype of everything computed from an instrument == dtype of its buffers (when they are uniform)."""
        from pfhedge.nn import BlackScholes, EntropicRiskMeasure, Hedger

        class SumNet(torch.nn.Module):          # parameter-free model: follows the dtype of its input
            def forward(self, x):
                return x.sum(-1, keepdim=True)

        for p, prim in self.prim.items():
            have = dict(prim.named_buffers())
            if set(have) != {self.real(p, b) for b in BUFS[p]}:
                continue
            dts = {b.dtype for b in have.values()}
            shapes = {tuple(b.shape) for b in have.values()}
            if len(dts) != 1 or len(shapes) != 1:
                continue
            dt = dts.pop()
            half = dt in (torch.float16, torch.bfloat16)
            d = self.deriv[p]
            d.list(lambda dd: dd.ul().spot * 2, cost=1e-3)
            feats = ["moneyness", "log_moneyness", "time_to_maturity", "volatility", "variance", "max_moneyness", "zeros", "spot", "underlier_spot"]
            has_vol = hasattr(type(prim), "volatility") or "volatility" in have
            if not has_vol:                        # interest-rate models define no volatility
                feats = [f for f in feats if f not in ("volatility", "variance")]
            things = {"payoff": lambda: d.payoff(), "listed price": lambda: d.spot,
                      "moneyness": lambda: d.moneyness(), "time_to_maturity": lambda: d.time_to_maturity(), "time_to_maturity(0)": lambda: d.time_to_maturity(0),
                      "hedge": lambda: Hedger(SumNet(), feats).compute_hedge(d),
                      "hedge(stepwise)": lambda: Hedger(SumNet(), feats + ["prev_hedge"]).compute_hedge(d),
                      "P&L": lambda: Hedger(SumNet(), feats).compute_pl(d),
                      "P&L listed hedge": lambda: Hedger(SumNet(), ["moneyness"]).compute_pl(self.deriv["p1" if p == "p2" else "p2"], hedge=[d]) if False else Hedger(SumNet(), ["moneyness"]).compute_pl(d, hedge=[d]),
                      "loss": lambda: EntropicRiskMeasure()(Hedger(SumNet(), feats).compute_pl(d)),
                      "cash": lambda: EntropicRiskMeasure().cash(Hedger(SumNet(), feats).compute_pl(d)),
                      "BlackScholes hedge": lambda: Hedger(BlackScholes(d), BlackScholes(d).inputs()).compute_hedge(d)}
            if not has_vol:
                del things["BlackScholes hedge"]
            # certainty equivalents found by the DEFAULT search of HedgeLoss.cash (criteria without a closed form): a user
            # criterion and the built-in OCE, on one sample and on a constant sample (the shortcut of the search)
            from pfhedge.nn import HedgeLoss
            from pfhedge.nn.modules.loss import OCE

            class Exp2Loss(HedgeLoss):
                def forward(self, input, target=0.0):
                    return torch.exp2(-(input - target)).mean(0)
            # (a sample with non-finite entries has no certainty equivalent - half-precision overflow of the toy model - and is not
            #  a dtype matter: the sample itself is handed over then, it has the right dtype or the P&L clause above reports it;
            #  OCE carries a parameter of its own and is cast like any module)
            def searched(crit):
                pl_ = Hedger(SumNet(), feats).compute_pl(d)
                return crit.cash(pl_) if bool(pl_.isfinite().all()) else pl_
            # (not in half precision: the search's precision is below the resolution of the dtype there, it runs to its iteration
            #  limit and stops with an error - C19's business, and minutes of run time)
            if not half:
                things["cash (default search, user criterion)"] = lambda: searched(Exp2Loss())
                things["cash (default search, OCE)"] = lambda: searched(OCE(lambda z: 1 - torch.exp(-z)).to(dt))
            things["cash (default search, constant sample)"] = lambda: Exp2Loss().cash(torch.full_like(Hedger(SumNet(), feats).compute_pl(d), 0.5))
            from pfhedge.features import Barrier, ModuleOutput, get_feature
            from pfhedge.instruments import EuropeanForwardStartOption, VarianceSwap
            from pfhedge.nn import Naked
            # the other contracts on the same underlier, and the parameter-free built-in model
            things["variance swap payoff"] = lambda: VarianceSwap(prim, maturity=1.0).payoff()
            things["forward-start payoff"] = lambda: EuropeanForwardStartOption(prim, maturity=1.0, start=0.5).payoff()
            things["Naked hedge"] = lambda: Hedger(Naked(), ["empty"]).compute_hedge(d)
            things["Naked P&L"] = lambda: Hedger(Naked(), ["zeros"]).compute_pl(d)
            # every registered feature on its own, all steps at once and at one step (a container of several features would
            # hide a stray dtype behind torch.cat's promotion)
            from pfhedge.features import list_feature_names
            from pfhedge.features.features import Ones
            for fname in list(list_feature_names()) + [Ones()]:
                label = fname if isinstance(fname, str) else type(fname).__name__
                if label in ("prev_hedge",) or (label in ("volatility", "variance") and not has_vol):
                    continue
                things[f"feature {label}.get(None)"] = lambda fname=fname: get_feature(fname).of(d).get(None)
                things[f"feature {label}.get(0)"] = lambda fname=fname: get_feature(fname).of(d).get(0)
            things["barrier"] = lambda: Barrier(1.0).of(d).get(None)
            things["barrier(1)"] = lambda: Barrier(1.0, up=False).of(d).get(1)
            for name, fn in things.items():
                try:
                    t = fn()
                except RuntimeError as e:
                    if half:
                        ctx.skip("half precision: backend does not implement an operation", 1)
                        continue
                    ctx.violation("dtype:computed:raises", f"{name} raised RuntimeError on {NAME.get(dt, str(dt))} buffers", {"error": str(e)[:200], "trace": trace})
                    continue
                ctx.count(n=1)
                if t.dtype != dt:
                    ctx.violation(f"dtype:computed-in:{name}", f"{name} is computed in {t.dtype} although the instrument's buffers are {dt}", {"primary": p, "trace": trace})
            # averages over several FRESH simulations, last of all (they replace the buffers): the result is in the dtype the
            # instrument produces - the declared one, or the global default in force now when none is declared
            want = prim.dtype if prim.dtype is not None else torch.get_default_dtype()
            for name, fn in (("compute_loss(n_times=2)", lambda: Hedger(SumNet(), ["moneyness"]).compute_loss(d, n_paths=2, n_times=2)),
                             ("price(n_times=3)", lambda: Hedger(SumNet(), ["moneyness"]).price(d, n_paths=2, n_times=3)),
                             ) + (() if want in (torch.float16, torch.bfloat16) else
                                  (("price (criterion with the default cash search)", lambda: Hedger(SumNet(), ["moneyness"], criterion=Exp2Loss()).price(d, n_paths=3)),)):
                try:
                    t = fn()
                except (RuntimeError, NotImplementedError, ValueError) as e:
                    if want in (torch.float16, torch.bfloat16):
                        ctx.skip("half precision: backend does not implement an operation", 1)
                        continue
                    ctx.violation("dtype:computed:raises", f"{name} raised {type(e).__name__}", {"error": str(e)[:200], "trace": trace})
                    continue
                ctx.count(n=1)
                if t.dtype != want:
                    ctx.violation(f"dtype:computed-in:{name}", f"{name} is computed in {t.dtype} although the instrument simulates in {want}", {"primary": p, "trace": trace})
            d.delist()


def replay_history(ctx: Ctx, rec: Dict[str, Any], computed: bool, variant: int = 0) -> None:
    w = World(rec["init"], variant)
    for i, ev in enumerate(rec["hist"]):
        ok, err = w.apply(ev)
        ctx.count(n=1)
        short = {"init": rec["init"], "classes": w.classes, "ops": [[e["op"], e["p"], e["d"], e["how"], e["via"]] for e in rec["hist"][: i + 1]]}
        if err == "backend":
            ctx.skip("half precision: backend does not implement simulate/cast; rest of the history not judged", len(rec["hist"]) - i)
            return
        if ok != ev["ok"]:
            if ev["ok"]:
                ctx.violation(f"dtype:{ev['op']}:raises", f"{ev['op']} raised {err} where the machine accepts the call", short)
            else:
                ctx.violation("dtype:nonfloat-accepted", "a non-floating dtype was accepted instead of being rejected with TypeError", short)
            return
        if not ev["ok"] and err != "TypeError":
            ctx.violation("dtype:nonfloat-wrong-error", f"non-floating dtype rejected with {err} instead of TypeError", short)
            return
        got = w.project()
        if got != ev["post"]:
            diff = _diff(got, ev["post"])
            ctx.violation(f"dtype:{ev['op']}:post-state", f"after {ev['op']} the instrument state differs from the dtype machine: {diff}",
                          {**short, "observed": got, "expected": ev["post"]})
            return
        if not w.derivative_alias_ok():
            ctx.violation("dtype:derivative-alias", "a derivative's dtype/device differ from its underlier's", short)
            return
        if computed:
            w.reused_objects(ctx, short)
    if computed:
        w.computed_in(ctx, {"init": rec["init"], "ops": [[e["op"], e["p"], e["d"], e["how"], e["via"]] for e in rec["hist"]]})


def _diff(a: Dict[str, Any], b: Dict[str, Any]) -> str:
    out = []
    if a["default"] != b["default"]:
        out.append(f"default {a['default']} vs {b['default']}")
    for p in a["declared"]:
        if a["declared"][p] != b["declared"][p]:
            out.append(f"{p}.dtype {a['declared'][p]} vs {b['declared'][p]}")
        for n in a["bufs"][p]:
            if a["bufs"][p][n] != b["bufs"][p][n]:
                out.append(f"{p}.{n} {a['bufs'][p][n]} vs {b['bufs'][p][n]}")
    return "; ".join(out)


# ------------------------------------------------------------------------------------------------ code -> spec
def record_traces(seed: int, n_traces: int, length: int) -> List[Dict[str, Any]]:
    rng = random.Random(seed)
    floats = ["f16", "bf16", "f32", "f64"]
    traces = []
    for _ in range(n_traces):
        init = {"default": rng.choice(["f32", "f64"]), "declared": {p: rng.choice(["none", "f32", "f64"]) for p in ("p1", "p2")}}
        w = World(init, len(traces))
        events = []
        for _ in range(length):
            kind = rng.choice(["To", "To", "To", "ToNoArg", "ToInstrument", "ToNonFloat", "Simulate", "Simulate", "RegisterBuffer", "SetDefault"])
            p = rng.choice(["p1", "p2"])
            ev = {"op": kind, "p": p, "d": "none", "how": "-", "via": rng.choice(["primary", "derivative"])}
            if kind == "To":
                ev.update(d=rng.choice(floats if rng.random() < 0.3 else ["f32", "f64"]), how=rng.choice(["to(dtype)", "method", "to(tensor)"]))
            elif kind == "ToNoArg":
                ev.update(how="to()")
            elif kind == "ToInstrument":
                ev.update(d="p2" if p == "p1" else "p1", how="to(instrument)", via="primary")
            elif kind == "ToNonFloat":
                ev.update(d="i64", how=rng.choice(["to(dtype)", "to(tensor)"]))
            elif kind == "Simulate":
                ev.update(how="simulate()")
            elif kind == "RegisterBuffer":
                ev.update(d=rng.choice(["f32", "f64", "i64"] if w.prim[p].dtype is not None else ["f32", "f64"]), how=rng.choice(BUFS[p]), via="primary")
            else:
                cur = NAME[torch.get_default_dtype()]
                ev.update(p="-", d="f64" if cur == "f32" else "f32", how="set_default_dtype", via="-")
            ok, err = w.apply(ev)
            if err == "backend":
                break                                   # half precision unsupported here: end this trace before the failed call
            ev["ok"] = ok
            ev["post"] = w.project()                    # logged at the call's return, error path included
            events.append(ev)
        traces.append({"init": init, "events": events})
    return traces


def validate_traces(ctx: Ctx, traces: List[Dict[str, Any]], tag: str) -> List[Tuple[int, int, int]]:
    """Run DtypeTrace.tla over the traces; returns (trace index, furthest line explained + 1, needed)."""
    path = WORK / ctx.pid / f"traces_{tag}.json"
    path.parent.mkdir(parents=True, exist_ok=True)
    path.write_text(json.dumps(traces))
    res = ctx.tlc("MC_DtypeTrace", "MC_DtypeTrace.cfg", workers=1, coverage=False, env={"TRACE_FILE": str(path)})
    out = []
    import re
    for m in re.finditer(r'<<"TRACE", (\d+), (\d+), (\d+)>>', res.stdout):
        out.append((int(m.group(1)), int(m.group(2)), int(m.group(3))))
    if len(out) != len(traces):
        raise MachineryError(f"DtypeTrace reported {len(out)} verdicts for {len(traces)} traces")
    return out


def repository_test_traces(ctx: Ctx) -> None:
    """code -> spec on the REPOSITORY'S OWN tests: the instrument tests run under lib/recorder_plugin.py (public entry
    points wrapped, no file of /repo changed); every primary instrument's event stream is validated by DtypeTrace.tla."""
    import subprocess
    import sys
    out = WORK / ctx.pid / "repo_trace.json"
    out.parent.mkdir(parents=True, exist_ok=True)
    env = dict(os.environ, PYTHONPATH=str(VERIF_ROOT) + ":" + REPO, PFHEDGE_VERIF_TRACE=str(out))
    files = ["tests/instruments"] if ctx.tier == "quick" else ["tests/instruments", "tests/features", "tests/nn/modules/test_hedger.py", "tests/test_examples.py"]
    proc = subprocess.run([sys.executable, "-m", "pytest", "-q", "-p", "no:cacheprovider", "-p", "lib.recorder_plugin", "-m", "not gpu", "-x", "-q"] + files,
                          cwd=REPO, env=env, capture_output=True, text=True, timeout=1200)
    if not out.exists():
        raise MachineryError("recorder plugin produced no trace:\n" + proc.stdout[-800:] + proc.stderr[-800:])
    data = json.loads(out.read_text())
    by_k: Dict[int, List[Dict[str, Any]]] = {1: [], 2: [], 3: []}
    skipped = 0
    for st in data["dtype_streams"]:
        names = sorted({n for e in st["events"] for n in e["post"]["bufs"]} | set(st["init"]["bufs"]))
        sims = [e for e in st["events"] if e["op"] == "Simulate"]
        simnames = sorted(sims[-1]["post"]["bufs"]) if sims else names
        if not names or len(names) > 3 or (sims and names != simnames) or st["init"]["bufs"]:
            skipped += 1
            continue
        m = {n: f"b{i + 1}" for i, n in enumerate(names)}
        if any(v == "other" for e in st["events"] for v in list(e["post"]["bufs"].values()) + [e["post"]["declared"]]):
            skipped += 1
            continue

        def post(e):
            return {"default": e["post"]["default"], "declared": {"p1": e["post"]["declared"]},
                    "bufs": {"p1": {m[n]: e["post"]["bufs"].get(n, "absent") for n in names}}}
        evs = []
        for e in st["events"]:
            ev = {"op": e["op"], "p": "p1" if e["op"] != "SetDefault" else "-", "d": e["d"], "how": "to(dtype)", "via": "primary", "ok": e["ok"], "post": post(e)}
            if e["op"] == "RegisterBuffer":
                if e["how"] not in m or e["d"] == "other":
                    evs = None
                    break
                ev["how"] = m[e["how"]]
            evs.append(ev)
        if evs is None:
            skipped += 1
            continue
        by_k[len(names)].append({"init": {"default": st["init"]["default"], "declared": {"p1": st["init"]["declared"]}}, "events": evs, "test": st["test"], "cls": st["cls"]})
    ctx.skip("repository-test streams outside the dtype machine's vocabulary (extra buffer names, non-float registrations)", skipped)
    import re
    total = 0
    for k, traces in by_k.items():
        if not traces:
            continue
        path = WORK / ctx.pid / f"repo_traces_k{k}.json"
        path.write_text(json.dumps([{"init": t["init"], "events": t["events"]} for t in traces]))
        res = ctx.tlc("MC_DtypeTrace", f"MC_DtypeTrace_k{k}.cfg", workers=1, coverage=False, env={"TRACE_FILE": str(path)})
        verdicts = [(int(a), int(b), int(c)) for a, b, c in re.findall(r'<<"TRACE", (\d+), (\d+), (\d+)>>', res.stdout)]
        if len(verdicts) != len(traces):
            raise MachineryError("DtypeTrace verdict count mismatch on repository-test traces")
        for i, reached, need in verdicts:
            total += 1
            ctx.traces_validated += 1
            if reached != need:
                t = traces[i - 1]
                ev = t["events"][reached - 1]
                ctx.violation(f"dtype:repo-test-trace:{ev['op']}", f"trace recorded from the repository's own test {t['test']} ({t['cls']}) is not explained by the dtype machine at event #{reached}",
                              {"init": t["init"], "events": t["events"][:reached]})
    ctx.sections["repository_test_streams_validated"] = total
    if total < 20:
        raise MachineryError(f"only {total} repository-test streams were recorded")
    if by_k[1]:
        ctx.sample({"repository_test_stream": {k: by_k[1][0][k] for k in ("test", "cls", "init")}, "events": by_k[1][0]["events"][:3]})


def produced_in_declared(ctx: Ctx) -> None:
    """"Subsequent simulations are PRODUCED in the declared dtype": a float64 instrument under the float32 default - declared at
    construction, by double(), or by to(float64) after a first float32 simulation - simulates series that carry double
    precision (beyond the initial column, the values of a random path are not all representable in float32; a scheme run in
    single precision and cast afterwards yields only such values)."""
    import pfhedge.instruments as inst
    from pfhedge.instruments import BasePrimary
    saved = torch.get_default_dtype()
    torch.set_default_dtype(torch.float32)
    try:
        for cname in sorted(dir(inst)):
            cls = getattr(inst, cname)
            if not (isinstance(cls, type) and issubclass(cls, BasePrimary) and cls is not BasePrimary):
                continue
            for route in ("dtype=float64", "double()", "simulate(); to(float64)"):
                try:
                    kw = {"sigma_fn": (lambda t, s: 0.2 + 0.1 * s)} if cname == "LocalVolatilityStock" else {}
                    p = cls(dtype=torch.float64, **kw) if route == "dtype=float64" else cls(**kw)
                    if route == "double()":
                        p.double()
                    elif route.startswith("simulate"):
                        p.simulate(n_paths=2, time_horizon=3 * p.dt)
                        p.to(torch.float64)
                    torch.manual_seed(ctx.seed + 1)
                    p.simulate(n_paths=4, time_horizon=6 * p.dt)
                except Exception as e:
                    ctx.skip(f"produced-in: {cname} could not be simulated on the generic arguments ({type(e).__name__})")
                    continue
                for bname, b in p.named_buffers():
                    ctx.count(n=1)
                    tail = b[:, 1:]
                    if b.dtype != torch.float64:
                        ctx.violation("dtype:produced-in:dtype", f"{cname} ({route}): buffer {bname} is {b.dtype}", {})
                    elif tail.numel() >= 8 and bool((tail != tail[:, :1]).any()) and bool((tail.float().double() == tail).all()):
                        ctx.violation("dtype:produced-in", f"{cname} ({route}) declares float64 under the float32 default, but every simulated value of {bname} is representable in float32: "
                                      "the series was produced in single precision and cast afterwards", {"class": cname, "route": route, "buffer": bname, "values": tail[0, :4].tolist()})
    finally:
        torch.set_default_dtype(saved)


def constructors_reject_nonfloat(ctx: Ctx) -> None:
    """"Non-floating dtypes are rejected" - whichever way the dtype is declared: Dtype.tla's ToNonFloat goes through to(); the
    constructor is the other public way to declare a dtype, and a floating one given there is the declared dtype of the instrument
    and of a derivative on it."""
    import pfhedge.instruments as inst
    from pfhedge.instruments import BasePrimary, EuropeanOption
    for cname in sorted(dir(inst)):
        cls = getattr(inst, cname)
        if not (isinstance(cls, type) and issubclass(cls, BasePrimary) and cls is not BasePrimary):
            continue
        import inspect
        if inspect.isabstract(cls):
            continue
        kw = {"sigma_fn": (lambda t, s: 0.2 + 0.1 * s)} if cname == "LocalVolatilityStock" else {}
        for bad in (torch.int32, torch.int64, torch.bool, torch.complex64):
            ctx.count(("ctor-nonfloat", cname, str(bad)), n=1)
            try:
                p = cls(dtype=bad, **kw)
            except TypeError:
                continue
            except Exception as e:
                ctx.violation("dtype:nonfloat-wrong-error", f"{cname}(dtype={bad}) is rejected with {type(e).__name__} instead of TypeError", {"class": cname})
                continue
            ctx.violation("dtype:nonfloat-accepted", f"{cname}(dtype={bad}) is accepted: the instrument declares {p.dtype}", {"class": cname, "dtype": str(bad)})
        for good in (torch.float64, torch.float16):
            p = cls(dtype=good, **kw)
            ctx.count(("ctor-float", cname, str(good)), n=1)
            if p.dtype != good or EuropeanOption(p).dtype != good:
                ctx.violation("dtype:constructor:declared", f"{cname}(dtype={good}) declares {p.dtype}; a derivative on it {EuropeanOption(p).dtype}", {"class": cname})


def check(ctx: Ctx) -> None:
    warnings.filterwarnings("ignore")
    saved = torch.get_default_dtype()
    try:
        g = ctx.tlc("MC_Dtype", "MC_Dtype_graph.cfg", workers=8)
        for a in ("To", "ToNoArg", "ToInstrument", "ToNonFloat", "Simulate", "RegisterBuffer", "SetDefault"):
            if g.actions.get(a, [0, 0])[1] == 0:
                raise MachineryError(f"Dtype.tla: action {a} never taken")
        ctx.sections["abstract_graph"] = {"distinct_states": g.distinct, "transitions": g.transitions}
        ex = ctx.tlc("MC_Dtype", "MC_Dtype_q_d3.cfg" if ctx.tier == "quick" else "MC_Dtype_t_d4.cfg", workers=8, coverage=False)
        sim = ctx.tlc("MC_Dtype", "MC_Dtype_sim.cfg", workers=4, simulate=f"num={600 if ctx.tier == 'quick' else 5000}", depth=8, seed=ctx.seed + 1)
        seen = set()
        n_hist = 0
        for k, rec in enumerate(ex.records):
            replay_history(ctx, rec, computed=(k % (23 if ctx.tier == "quick" else 131) == 0), variant=k)
            n_hist += 1
        for rec in sim.records:
            key = json.dumps(rec, sort_keys=True)
            if key in seen or len(rec["hist"]) < 7:
                continue
            seen.add(key)
            replay_history(ctx, rec, computed=True, variant=n_hist)
            n_hist += 1
        ctx.sections["histories_replayed"] = n_hist
        ctx.distinct_count_extra = n_hist
        ctx.sample({"history": {"init": ex.records[5000]["init"], "ops": [[e["op"], e["p"], e["d"], e["how"], e["via"], e["post"]] for e in ex.records[5000]["hist"]]}})
        # ---- code -> spec
        traces = record_traces(ctx.seed, 400 if ctx.tier == "quick" else 3000, 10)
        verdicts = validate_traces(ctx, traces, "recorded")
        for i, reached, need in verdicts:
            ctx.traces_validated += 1
            if reached != need:
                t = traces[i - 1]
                ev = t["events"][reached - 1] if reached - 1 < len(t["events"]) else None
                ctx.violation(f"dtype:trace:{ev['op'] if ev else '?'}", f"recorded trace not explained by the dtype machine at line {reached}",
                              {"init": t["init"], "prefix": [[e["op"], e["p"], e["d"], e["how"], e["via"]] for e in t["events"][:reached]], "line": ev})
        ctx.sample({"recorded_trace": {"init": traces[0]["init"], "events": traces[0]["events"][:3]}})
        repository_test_traces(ctx)
        produced_in_declared(ctx)
        constructors_reject_nonfloat(ctx)
        # binding demonstration on behaviours generated by the specification itself (independent of /repo):
        # corrupt one logged field / drop one event -> rejected at exactly that line; untouched ones accepted
        good = [{"init": r["init"], "events": json.loads(json.dumps(r["hist"]))} for r in sim.records[:400] if len(r["hist"]) >= 7][:10]
        corrupt = json.loads(json.dumps(good[0]))
        line = next(i for i, e in enumerate(corrupt["events"]) if e["op"] in ("To", "Simulate", "RegisterBuffer") and e["ok"])
        pp = corrupt["events"][line]["p"]
        bname = "spot"
        cur = corrupt["events"][line]["post"]["bufs"][pp][bname]
        corrupt["events"][line]["post"]["bufs"][pp][bname] = "f16" if cur != "f16" else "f32"
        # several traces with one state-changing event removed: a removed event is not always observable (the next call may
        # lead to the same state), so the demonstration is that at least one of them is rejected
        dropped_set = []
        for g in good[1:8]:
            dd = json.loads(json.dumps(g))
            idx = next((i for i, e in enumerate(dd["events"][:-1]) if e["ok"] and e["op"] in ("To", "Simulate", "RegisterBuffer", "SetDefault")
                        and e["post"] != (dd["events"][i - 1]["post"] if i else None)), None)
            if idx is not None:
                del dd["events"][idx]
                dropped_set.append(dd)
        tests = [corrupt] + good[2:6] + dropped_set
        idx = 0 if dropped_set else None
        v = validate_traces(ctx, tests, "selftest")
        ctx.traces_validated -= 0
        ctx.selftest("a corrupted post-state is rejected at exactly the corrupted line", v[0][1] == line + 1 and v[0][1] != v[0][2])
        ctx.selftest("unmodified specification behaviours in the same batch are accepted", all(r == n for _, r, n in v[1:5]))
        if idx is not None:
            ctx.selftest("traces with a dropped state-changing event are rejected (at least one of several)", any(r != n for _, r, n in v[5:]))
    finally:
        torch.set_default_dtype(saved)
    ctx.exhaustive = True
    ctx.rule = ("spec->code: all histories of length 3 (quick) over the reduced alphabet + simulated histories of length 7 over the full alphabet, state compared after every "
                "operation; code->spec: seeded random real runs validated by DtypeTrace.tla; distinct = distinct history")
    ctx.assumptions += ["CPU only: device is modelled but only 'cpu' is exercised",
                        "float16/bfloat16: 'not implemented' backend errors end the judged part of a history",
                        "for an instrument without a declared dtype the buffers keep the dtype in force when they were produced"]


if __name__ == "__main__":
    raise SystemExit(run_check("C17", check))
