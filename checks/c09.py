"""C09 (partial) - the no-arbitrage structure of the Black-Scholes prices.

BSAlgebra.tla, layer 1: the price formulas as integer linear forms over opaque atoms (N(d1), N(d2), ...), transcribed
term by term from pfhedge.nn.functional; TLC checks put-call parity, the binary complement, homogeneity in
(spot, strike, maximum), equality of the two lookback branches at max = strike and the value one of the American binary
at spot = max = strike as identities between forms.  Layer 2 enumerates, over a lattice of argument indices, every
relation C09 names (bounds, monotonicity and convexity on neighbouring points, dominance between products, the barrier
value, continuity at the branch); each obligation is evaluated on the real functional forms at dyadic arguments.

The machine cannot evaluate erf/exp, so inequalities are decided on the lattice only (see DESIGN.md 4).
"""
from __future__ import annotations

import json
from typing import Any, Dict, List

import torch

from checks import bs_common
from lib.bsgrid import Grid
from lib.core import Ctx, run_check
from lib.tlc import MachineryError

FORM_INVARIANTS = ["ImplementationIsDefinition", "PutCallParity", "BinaryComplement", "PricesHomogeneous", "LookbackContinuousAtStrike", "AmericanOneAtBarrier"]


class Skewed:
    """A deliberately wrong pricing library for the binding self-test: the put loses parity, the American binary its barrier value."""

    def __init__(self, grid: Grid) -> None:
        self.grid = grid

    def __enter__(self):
        import pfhedge.nn.functional as F
        self.F = F
        self.orig = (F.bs_european_price, F.bs_american_binary_price)
        o_eu, o_am = self.orig

        def eu(log_moneyness, time_to_maturity, volatility, strike=1.0, call=True):
            out = o_eu(log_moneyness, time_to_maturity, volatility, strike=strike, call=call)
            return out if call else out + 1e-6 * strike

        def am(log_moneyness, max_log_moneyness, time_to_maturity, volatility):
            return o_am(log_moneyness, max_log_moneyness, time_to_maturity, volatility) * (1 - 1e-9)
        F.bs_european_price, F.bs_american_binary_price = eu, am
        return self

    def __exit__(self, *a):
        self.F.bs_european_price, self.F.bs_american_binary_price = self.orig


def check(ctx: Ctx) -> None:
    tier = "thorough" if ctx.tier == "thorough" else "quick"
    forms = ctx.tlc("MC_BSAlgebra", "MC_BSAlgebra_forms.cfg", workers=2)
    if forms.violated:
        raise MachineryError(f"BSAlgebra: form identity violated in the specification itself: {forms.violated}")
    res = ctx.tlc("MC_BSAlgebra", f"MC_BSAlgebra_{'t' if tier == 'thorough' else 'q'}_C09.cfg", workers=8)
    recs = res.records
    if len(recs) < 1000:
        raise MachineryError("BSAlgebra: too few obligations")
    torch.set_default_dtype(torch.float64)
    grid = Grid(tier)
    seen = bs_common.evaluate(ctx, grid, recs, "C09")
    bs_common.positional_forms(ctx, grid)
    bs_common.normal_functions(ctx)
    bs_common.batch_consistency(ctx, grid, greeks=("price",))
    bs_common.broadcasting(ctx, "price")
    bs_common.python_strike_on_lattice(ctx, grid, greeks=("price",))
    bs_common.modules_follow_the_derivative(ctx)
    missing = [k for k in ("parity", "binary_complement", "greek_parity", "call_bounds", "put_bounds", "unit_interval", "increasing_in_spot", "convex_in_spot",
                           "nondecreasing_in_volatility", "nondecreasing_in_time", "lookback_ge_european", "lookback_ge_locked_in", "american_ge_european_binary",
                           "american_one_once_reached", "lookback_continuous_at_strike", "american_continuous_at_barrier") if not seen.get(k)]
    if missing:
        raise MachineryError(f"obligation kinds never enumerated: {missing}")
    for r in recs:
        ctx.distinct.add(json.dumps(r["ob"], sort_keys=True))
    ctx.sample(recs[0]); ctx.sample(recs[len(recs) // 2]); ctx.sample(recs[-1])
    # binding: the same obligations evaluated on a skewed library must be rejected
    probe = Ctx.__new__(Ctx)
    probe.__dict__.update({"_per_key": {}, "violations": [], "findings": [], "known_hits": {}, "evaluations": 0, "distinct": set(), "skipped": {}})
    with Skewed(grid):
        bs_common.evaluate(probe, Grid(tier), [r for r in recs if r["ob"]["kind"] in ("parity", "american_one_once_reached")], "C09")
    keys = {v["key"] for v in probe.violations}
    ctx.selftest("a put that misses parity by 1e-6 K is rejected", "parity:european" in keys)
    ctx.selftest("an American binary worth 1 - 1e-9 after the barrier is rejected", "barrier:american:one" in keys)
    ctx.traces_validated = len(recs)
    ctx.exhaustive = True
    ctx.sections["obligations_by_kind"] = seen
    ctx.rule = (f"every obligation of BSAlgebra.tla over the {tier} lattice {grid.sizes()} (S/K in {grid.ax['spot']}, t in {grid.ax['time']}, sigma in {grid.ax['vol']}, "
                f"K in {grid.ax['strike']}, M/S in {grid.ax['max']}) evaluated on pfhedge.nn.functional in float64; identities to 1e-12, inequalities with 1e-12 slack; "
                "the form identities (parity, complement, homogeneity, branch continuity) checked by TLC; distinct = distinct obligation")
    ctx.assumptions += ["PARTIAL CLAIM: inequalities, monotonicity, convexity and dominance are decided on the dyadic lattice only (neighbouring points; all pairs of the lattice follow by "
                        "transitivity), not on the continuum between lattice points",
                        "monotonicity in volatility/time is also required of the lookback and American binary (true by time change of the driving Brownian motion)"]


if __name__ == "__main__":
    raise SystemExit(run_check("C09", check, level="exploration"))
