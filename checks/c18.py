"""C18 - Black-Scholes functions are total at maturity and at zero volatility.

BSCases.tla: an abstract machine over IEEE special values (nan, +-inf, signs) and exact linear forms in S, K, M; the
formula DAGs of the bs_* functions are transcribed operation by operation and TLC evaluates them for every boundary
case (S vs K, running maximum vs K, t = 0 / v = 0 / both) with the invariants NoNaN, PriceIsIntrinsic, DeltaLimit.
Replay: every abstract case on concrete representatives (several strikes, |log-moneyness| from 0.1 to 50, exact zeros and
tiny positive values, all cases mixed in one tensor) into the functional forms and the BS modules; negative arguments must
raise; BlackScholes / WhalleyWilmott hedgers must give finite hedges and P&L on simulated and scripted paths.
"""
from __future__ import annotations

import itertools
import json
import math
import warnings
from typing import Any, Dict, List

import torch

from lib.core import Ctx, run_check
from lib.tlc import MachineryError

DT = torch.float64


def concrete(rec: Dict[str, Any], K: float, mag: float, gap: float):
    """log-moneyness s, max log-moneyness m for the abstract case."""
    s = {"lt": -mag, "eq": 0.0, "gt": mag}[rec["rel"]]
    if not rec["mabove"]:
        m = s
    else:
        m = {"lt": s + min(gap, -s / 2), "eq": 0.0, "gt": max(s, 0.0) + gap}[rec["mrel"]]
    return s, m


def value_of(form: List[int], S: float, K: float, M: float) -> float:
    return (form[0] * S + form[1] * K + form[2] * M + form[3]) / 2.0


def check_value(ctx: Ctx, name: str, got: torch.Tensor, spec: Dict[str, Any], S: float, K: float, M: float, case: Dict[str, Any], inputs: Dict[str, float]) -> None:
    g = got.item()
    ctx.count(n=1)
    detail = {"function": name, "case": {k: case[k] for k in ("rel", "mrel", "mabove", "tz", "vz")}, "inputs": inputs, "observed": g}
    if math.isnan(g):
        ctx.violation(f"bs:nan:{name}", f"{name} is NaN at maturity / zero volatility", detail)
        return
    if spec["f"]:
        e = value_of(spec["f"], S, K, M)
        if not abs(g - e) <= 1e-12 * max(1.0, abs(e), S, K):
            ctx.violation(f"bs:limit:{name}", f"{name} differs from the value that is certain at maturity / zero volatility", {**detail, "expected": e})
    else:
        want = spec["c"]
        ok = {"pinf": g == math.inf, "ninf": g == -math.inf, "pos": g > 0, "neg": g < 0, "zero": g == 0, "fin": math.isfinite(g)}.get(want, True)
        if not ok:
            ctx.violation(f"bs:class:{name}", f"{name} is {g}, the formula's limit is of class {want}", detail)


def replay_cases(ctx: Ctx, recs: List[Dict[str, Any]]) -> None:
    import pfhedge.nn.functional as F
    import pfhedge.nn as nn
    tiny = [0.0, -0.0, 1e-30, 1e-300]       # (-0.0 is zero: e.g. -(t - T) at t = T)
    for rec in recs:
        for K, mag, gap in itertools.product((0.5, 1.0, 2.0), (0.1, 1.0, 50.0, 2.0 ** -30), (0.05, 1.0)):      # (2^-30: next to the strike, not at it)
            s, m = concrete(rec, K, mag, gap)
            if rec["mabove"] and rec["mrel"] == "lt" and not (m < 0 and m > s):
                continue
            S, M = K * math.exp(s), K * math.exp(m)
            if not math.isfinite(S) or not math.isfinite(M):
                continue
            for tval, vval in itertools.product(tiny if rec["tz"] else [0.5], tiny if rec["vz"] else [0.3]):
                exact = (tval == 0.0 or not rec["tz"]) and (vval == 0.0 or not rec["vz"])
                if not exact and mag * 1.0 < 1e-3:
                    continue
                ts = lambda x: torch.tensor(x, dtype=DT)
                st, mt, tt, vt = ts(s), ts(m), ts(tval), ts(vval)
                inputs = {"log_moneyness": s, "max_log_moneyness": m, "time_to_maturity": tval, "volatility": vval, "strike": K}
                with warnings.catch_warnings():
                    warnings.simplefilter("ignore")
                    calls = []
                    for call in (True, False):
                        cp = "call" if call else "put"
                        calls += [(f"bs_european_price[{cp}]", lambda c=call: F.bs_european_price(st, tt, vt, strike=K, call=c), rec["european"][cp]),
                                  (f"bs_european_delta[{cp}]", lambda c=call: F.bs_european_delta(st, tt, vt, call=c), rec["european_delta"][cp]),
                                  (f"bs_european_binary_price[{cp}]", lambda c=call: F.bs_european_binary_price(st, tt, vt, call=c), rec["binary"][cp]),
                                  (f"bs_european_binary_delta[{cp}]", lambda c=call: F.bs_european_binary_delta(st, tt, vt, call=c, strike=K), rec["binary_delta"][cp]),
                                  (f"BSEuropeanOption.price[{cp}]", lambda c=call: nn.BSEuropeanOption(call=c, strike=K).price(st, tt, vt), rec["european"][cp]),
                                  (f"BSEuropeanOption.delta[{cp}]", lambda c=call: nn.BSEuropeanOption(call=c, strike=K).delta(st, tt, vt), rec["european_delta"][cp]),
                                  (f"BSEuropeanBinaryOption.price[{cp}]", lambda c=call: nn.BSEuropeanBinaryOption(call=c, strike=K).price(st, tt, vt), rec["binary"][cp])]
                    calls += [("bs_american_binary_price", lambda: F.bs_american_binary_price(st, mt, tt, vt), rec["american"]),
                              ("bs_american_binary_delta", lambda: F.bs_american_binary_delta(st, mt, tt, vt, strike=K), rec["american_delta"]),
                              ("bs_lookback_price", lambda: F.bs_lookback_price(st, mt, tt, vt, strike=K), rec["lookback"]),
                              ("BSAmericanBinaryOption.price", lambda: nn.BSAmericanBinaryOption(strike=K).price(st, mt, tt, vt), rec["american"]),
                              ("BSAmericanBinaryOption.delta", lambda: nn.BSAmericanBinaryOption(strike=K).delta(st, mt, tt, vt), rec["american_delta"]),
                              ("BSLookbackOption.price", lambda: nn.BSLookbackOption(strike=K).price(st, mt, tt, vt), rec["lookback"])]
                    for name, fn, spec in calls:
                        if not exact and not spec["f"]:
                            continue        # the class-only limits (infinite binary delta at the strike) are stated for exact zeros
                        if not exact and rec["rel"] == "eq":
                            continue        # at the strike with tiny (non-zero) t or v the value is the interior formula's
                        try:
                            got = fn()
                        except Exception as e:
                            ctx.violation(f"bs:raises:{name}", f"{name} raised {type(e).__name__} at maturity / zero volatility", {"inputs": inputs, "error": repr(e)[:200]})
                            continue
                        check_value(ctx, name, got, spec, S, K, M, rec, inputs)
                    # the lookback delta is an automatic derivative: demanded not to be NaN
                    try:
                        ld = F.bs_lookback_delta(st, mt, tt, vt, strike=K)
                        ctx.count(n=1)
                        if exact and math.isnan(ld.item()):
                            ctx.violation("bs:nan:bs_lookback_delta", "bs_lookback_delta is NaN at maturity / zero volatility", {"inputs": inputs, "case": {k: rec[k] for k in ("rel", "mrel", "mabove", "tz", "vz")}})
                    except Exception as e:
                        ctx.violation("bs:raises:bs_lookback_delta", f"bs_lookback_delta raised {type(e).__name__}", {"inputs": inputs, "error": repr(e)[:200]})


def mixed_tensor(ctx: Ctx) -> None:
    """All boundary cases in ONE tensor call (a guard that works per call but not per element is caught here)."""
    import pfhedge.nn.functional as F
    s = torch.tensor([-1.0, 0.0, 1.0, -0.1, 0.1, 0.3, -0.3], dtype=DT)
    t = torch.tensor([0.0, 0.0, 0.0, 0.5, 0.0, 0.2, 0.0], dtype=DT)
    v = torch.tensor([0.2, 0.0, 0.0, 0.0, 0.3, 0.2, 0.0], dtype=DT)
    m = torch.maximum(s, torch.tensor([-0.5, 0.0, 1.5, 0.0, 0.1, 0.4, -0.2], dtype=DT))
    outs = {"bs_european_price": F.bs_european_price(s, t, v), "bs_european_delta": F.bs_european_delta(s, t, v),
            "bs_european_binary_price": F.bs_european_binary_price(s, t, v), "bs_european_binary_delta": F.bs_european_binary_delta(s, t, v),
            "bs_american_binary_price": F.bs_american_binary_price(s, m, t, v), "bs_american_binary_delta": F.bs_american_binary_delta(s, m, t, v, 1.0),
            "bs_lookback_price": F.bs_lookback_price(s, m, t, v, 1.0)}
    for name, o in outs.items():
        ctx.count(n=o.numel())
        if bool(o.isnan().any()):
            ctx.violation(f"bs:nan:{name}", f"{name} is NaN for some element of a tensor mixing boundary and interior cases", {"nan_at": o.isnan().nonzero().flatten().tolist()})
    intrinsic = torch.relu(s.exp() - 1.0)
    b = (t == 0) | (v == 0)
    if not bool(((outs["bs_european_price"] - intrinsic).abs()[b] <= 1e-12).all()):
        ctx.violation("bs:limit:bs_european_price[call]", "European price differs from the intrinsic value in a mixed tensor", {})


def rejects_negative(ctx: Ctx) -> None:
    import pfhedge.nn.functional as F
    s, m, pos, neg = (torch.tensor(x, dtype=DT) for x in (0.1, 0.2, 0.3, -0.1))
    fns = {"bs_european_price": lambda t, v: F.bs_european_price(s, t, v), "bs_european_delta": lambda t, v: F.bs_european_delta(s, t, v),
           "bs_european_binary_price": lambda t, v: F.bs_european_binary_price(s, t, v), "bs_european_binary_delta": lambda t, v: F.bs_european_binary_delta(s, t, v),
           "bs_american_binary_price": lambda t, v: F.bs_american_binary_price(s, m, t, v), "bs_american_binary_delta": lambda t, v: F.bs_american_binary_delta(s, m, t, v, 1.0),
           "bs_lookback_price": lambda t, v: F.bs_lookback_price(s, m, t, v, 1.0), "d1": lambda t, v: F.d1(s, t, v), "d2": lambda t, v: F.d2(s, t, v)}
    zero = torch.tensor(0.0, dtype=DT)
    tiny_neg, tiny = torch.tensor(-1e-30, dtype=DT), torch.tensor(1e-40, dtype=DT)
    cases = [(neg, pos, "time_to_maturity"), (pos, neg, "volatility"), (torch.stack([pos, neg]), torch.stack([pos, pos]), "time_to_maturity (one element)"),
             # a negative argument together with the OTHER one exactly zero (or so small that their product underflows)
             (zero, neg, "volatility (time to maturity exactly 0)"), (neg, zero, "time_to_maturity (volatility exactly 0)"),
             (tiny, tiny_neg, "volatility (product with sqrt(t) underflows)"),
             (torch.stack([pos, zero]), torch.stack([pos, neg]), "volatility (one element, at t = 0)")]
    # d1 / d2 are documented for tensors AND plain Python numbers
    for name in ("d1", "d2"):
        for t, v, what in ((-1.0, 0.2, "time_to_maturity given as a Python float"), (1.0, -0.2, "volatility given as a Python float"), (-1, 0.2, "time_to_maturity given as a Python int")):
            ctx.count(n=1)
            try:
                out = getattr(F, name)(s, t, v)
                ctx.violation(f"bs:negative-accepted:{name}", f"{name} accepts a negative {what} (returns {out.flatten().tolist()}) instead of raising", {})
            except ValueError:
                pass
            except Exception as e:
                ctx.violation(f"bs:negative-wrong-error:{name}", f"{name} raises {type(e).__name__} instead of ValueError for a negative {what}", {})
    for name, fn in fns.items():
        for t, v, what in cases:
            ctx.count(n=1)
            try:
                out = fn(t, v)
                ctx.violation(f"bs:negative-accepted:{name}", f"{name} accepts a negative {what} (returns {out.flatten().tolist()}) instead of raising", {})
            except ValueError:
                pass
            except Exception as e:
                ctx.violation(f"bs:negative-wrong-error:{name}", f"{name} raises {type(e).__name__} instead of ValueError for a negative {what}", {})


def rejects_negative_after_failed_calls(ctx: Ctx) -> None:
    """The rejection of negative arguments does not depend on what happened before: after calls of the library that ended in an
    exception - an implied-volatility search that could not converge, a search given prices of the wrong size, a pricing call
    with a negative argument - the same negative arguments are rejected again (rejects_negative once more)."""
    from pfhedge.nn import BSEuropeanOption, BSLookbackOption
    provoked = 0
    for make in (lambda: BSEuropeanOption().implied_volatility(torch.tensor([-0.1, 0.05]), torch.tensor([0.5, 0.5]), torch.tensor([0.02, 0.09]), precision=1e-12),
                 lambda: BSEuropeanOption().implied_volatility(torch.tensor([-0.1, 0.05]), torch.tensor([0.5, 0.5]), torch.tensor([0.02, 0.09, 0.1])),
                 lambda: BSLookbackOption().implied_volatility(torch.tensor([-0.1]), torch.tensor([0.0]), torch.tensor([0.5]), torch.tensor([0.05]), precision=0.0),
                 lambda: BSEuropeanOption().price(torch.tensor([0.1]), torch.tensor([-1.0]), torch.tensor([0.2]))):
        try:
            make()
        except Exception:
            provoked += 1
    if provoked < 2:
        raise MachineryError("rejects_negative_after_failed_calls: the provoking calls did not fail")
    rejects_negative(ctx)


def hedgers_finite(ctx: Ctx) -> None:
    from pfhedge.instruments import AmericanBinaryOption, BrownianStock, EuropeanBinaryOption, EuropeanOption, HestonStock, LookbackOption
    from pfhedge.nn import BlackScholes, Hedger, WhalleyWilmott
    torch.manual_seed(ctx.seed)
    class ZeroVolStock(BrownianStock):        # volatility exactly zero: the paths stay at the initial price (at the money)
        def __init__(self, **kw):
            super().__init__(sigma=0.0, **kw)

    class TinyVolStock(BrownianStock):
        def __init__(self, **kw):
            super().__init__(sigma=1e-30, **kw)

    for dcls in (EuropeanOption, LookbackOption, AmericanBinaryOption, EuropeanBinaryOption):
        for scls in (BrownianStock, HestonStock, ZeroVolStock, TinyVolStock):
            for mk in (BlackScholes, WhalleyWilmott):
                if mk is WhalleyWilmott and dcls is not EuropeanOption and False:
                    continue
                for scripted in (False, True):
                    zero_vol = scls in (ZeroVolStock, TinyVolStock)
                    if zero_vol and dcls is LookbackOption:
                        continue      # its delta is an automatic derivative that is NaN at zero volatility: the known finding
                    stock = scls(cost=1e-3, dt=1 / 50, dtype=DT)
                    # at zero volatility the spot never moves: exactly at the strike the binary deltas are genuinely infinite,
                    # so the binaries are struck away from the spot; the European option stays at the money (infinite gamma,
                    # hence an infinitely wide Whalley-Wilmott band, with a finite delta)
                    strike = 1.0 if (not zero_vol or dcls is EuropeanOption) else 1.1
                    d = dcls(stock, maturity=6 / 50, strike=strike)
                    d.simulate(n_paths=64)
                    if scripted and scls in (ZeroVolStock, TinyVolStock):
                        continue
                    if scripted:      # paths ending exactly at the strike / touching it exactly / flat at the strike
                        sp = stock.spot.clone()
                        sp[:16, -1] = 1.0
                        sp[16:24, 3] = 1.0
                        sp[24:32, :] = 1.0
                        stock.register_buffer("spot", sp)
                    try:
                        model = mk(d)
                        h = Hedger(model, model.inputs())
                        hedge = h.compute_hedge(d)
                        plv = h.compute_pl(d)
                    except Exception as e:
                        ctx.violation(f"hedger:raises:{mk.__name__}", f"{mk.__name__} hedger raised {type(e).__name__} on {dcls.__name__}/{scls.__name__}", {"error": repr(e)[:200]})
                        continue
                    ctx.count((dcls.__name__, scls.__name__, mk.__name__, scripted), n=64)
                    if scls in (ZeroVolStock, TinyVolStock) and (dcls is LookbackOption or mk is BlackScholes and dcls is not EuropeanOption and False):
                        pass
                    if not bool(hedge.isfinite().all()):
                        bad = (~hedge.isfinite()).nonzero()[0].tolist()
                        ctx.violation(f"hedger:nonfinite-hedge:{mk.__name__}:{dcls.__name__}:{scls.__name__}", f"{mk.__name__} hedge of {dcls.__name__} on {scls.__name__} is not finite",
                                      {"scripted_paths": scripted, "first_bad_index": bad})
                    if not bool(plv.isfinite().all()):
                        ctx.violation(f"hedger:nonfinite-pl:{mk.__name__}:{dcls.__name__}:{scls.__name__}", f"{mk.__name__} P&L of {dcls.__name__} on {scls.__name__} is not finite", {"scripted_paths": scripted})


def hedgers_finite_underflow(ctx: Ctx) -> None:
    """Volatility AND step size both tiny but positive, so small that their product sigma*sqrt(t) underflows to zero although
    neither factor is zero (sigma = 1e-200, dt = 1e-260; 1e-160 each; 1e-30 and 1e-32 in float32): the hedges and the P&L are
    finite - European options under both hedgers at, below and above the strike; the binaries under the Black-Scholes hedger
    away from the strike (their Whalley-Wilmott hedge needs the binary gamma at sigma*sqrt(t) = 0: the known finding)."""
    from pfhedge.instruments import AmericanBinaryOption, BrownianStock, EuropeanBinaryOption, EuropeanOption
    from pfhedge.nn import BlackScholes, Hedger, WhalleyWilmott
    for dtype, regimes in ((torch.float64, ((1e-200, 1e-260), (1e-160, 1e-160), (1e-300, 1e-10))), (torch.float32, ((1e-30, 1e-32), (1e-25, 1e-25)))):
        for sigma, dt in regimes:
            for dcls, models, strikes in ((EuropeanOption, (BlackScholes, WhalleyWilmott), (0.9, 1.0, 1.1)), (EuropeanBinaryOption, (BlackScholes,), (0.9, 1.1)), (AmericanBinaryOption, (BlackScholes,), (0.9, 1.1))):
                for strike in strikes:
                    for mk in models:
                        stock = BrownianStock(sigma=sigma, cost=1e-3, dt=dt, dtype=dtype)
                        d = dcls(stock, maturity=6 * dt, strike=strike)
                        torch.manual_seed(ctx.seed)
                        try:
                            d.simulate(n_paths=4)
                            if tuple(stock.spot.shape) != (4, 7):
                                ctx.skip("underflow regime: the grid of 6 tiny steps is not representable")
                                continue
                            model = mk(d)
                            h = Hedger(model, model.inputs())
                            hedge, plv = h.compute_hedge(d), h.compute_pl(d)
                        except Exception as e:
                            ctx.violation(f"hedger:raises:{mk.__name__}:underflow", f"{mk.__name__} hedger raised {type(e).__name__} on {dcls.__name__} with sigma={sigma}, dt={dt}", {"error": repr(e)[:200]})
                            continue
                        ctx.count(n=4)
                        if not bool(hedge.isfinite().all()) or not bool(plv.isfinite().all()):
                            ctx.violation(f"hedger:nonfinite:{mk.__name__}:{dcls.__name__}:underflow", f"{mk.__name__} hedge / P&L of {dcls.__name__} (strike {strike}) is not finite when sigma = {sigma} and dt = {dt} "
                                          "(both positive, their product underflows)", {"sigma": sigma, "dt": dt, "strike": strike, "dtype": str(dtype), "hedge": hedge[0, 0].tolist()})


def modules_at_maturity(ctx: Ctx) -> None:
    """The module built from a derivative, at the derivative's own maturity column: price() with no arguments equals the payoff
    of the CURRENT simulation (also after the derivative was simulated again with the same shape); forward(input) - the call
    path a Hedger uses - returns the limiting delta at exactly t = 0, like delta() does."""
    from pfhedge.instruments import AmericanBinaryOption, BrownianStock, EuropeanBinaryOption, EuropeanOption, LookbackOption
    from pfhedge.nn import BlackScholes
    torch.manual_seed(ctx.seed + 5)
    for dcls in (EuropeanOption, LookbackOption, AmericanBinaryOption, EuropeanBinaryOption):
        stock = BrownianStock(sigma=0.3, dt=1 / 10, dtype=DT)
        d = dcls(stock, maturity=5 / 10, strike=1.05)
        m = None
        for run in range(3):                    # the same derivative and module through three simulations of equal shape
            d.simulate(n_paths=48)
            if m is None:
                m = BlackScholes(d)
            try:
                price = m.price()
            except Exception as e:
                ctx.violation(f"module-at-maturity:{dcls.__name__}:raises", f"BlackScholes({dcls.__name__}).price() raised {type(e).__name__}", {"run": run, "error": repr(e)[:200]})
                break
            payoff = d.payoff()
            away = (stock.spot[:, -1] - d.strike).abs() > 1e-9
            ctx.count(n=48)
            if price.shape[-1] != stock.spot.size(1) or not bool((((price[:, -1] - payoff).abs() <= 1e-12) | ~away).all()):
                ctx.violation(f"module-at-maturity:{dcls.__name__}:price", f"BlackScholes({dcls.__name__}).price() at the maturity column differs from the payoff of the current simulation "
                              f"(simulation #{run + 1} of the same derivative)", {"run": run, "max_abs_diff": float(((price[:, -1] - payoff).abs() * away).max())})
                break
        # forward(input) against delta(...) at exactly t = 0, in / at / out of the money
        lm = torch.tensor([-0.25, 0.0, 0.25, 0.5], dtype=DT)
        cols = {"log_moneyness": lm, "max_log_moneyness": torch.tensor([-0.125, 0.0, 0.25, 0.75], dtype=DT), "time_to_maturity": torch.zeros(4, dtype=DT), "volatility": torch.full((4,), 0.2, dtype=DT)}
        try:
            inp = torch.stack([cols[n] for n in m.inputs()], dim=-1)
            fwd = m(inp).squeeze(-1)
            ref = m.delta(**{n: cols[n].clone() for n in m.inputs()})
        except Exception as e:
            ctx.violation(f"module-at-maturity:{dcls.__name__}:forward-raises", f"BlackScholes({dcls.__name__}) forward raised {type(e).__name__} at t = 0", {"error": repr(e)[:200]})
            continue
        ctx.count(n=4)
        same = ((fwd - ref).abs() <= 1e-12) | (fwd.isnan() & ref.isnan()) | ((fwd == ref))
        if not bool(same.all()):
            ctx.violation(f"module-at-maturity:{dcls.__name__}:forward", f"BlackScholes({dcls.__name__})(input) at t = 0 is not the limiting delta that delta() returns",
                          {"forward": fwd.tolist(), "delta": ref.tolist()})


def check(ctx: Ctx) -> None:
    warnings.filterwarnings("ignore")
    res = ctx.tlc("BSCases", "MC_BSCases.cfg", workers=1, coverage=False)
    if len(res.records) < 20:
        raise MachineryError("BSCases: too few abstract cases")
    replay_cases(ctx, res.records)
    mixed_tensor(ctx)
    rejects_negative(ctx)
    rejects_negative_after_failed_calls(ctx)
    modules_at_maturity(ctx)
    hedgers_finite(ctx)
    hedgers_finite_underflow(ctx)
    for r in res.records:
        ctx.distinct.add(json.dumps({k: r[k] for k in ("rel", "mrel", "mabove", "tz", "vz")}))
    ctx.distinct_count_extra = 0
    ctx.sample(res.records[0]); ctx.sample(res.records[13])
    probe = Ctx.__new__(Ctx)
    probe.__dict__.update({"_per_key": {}, "violations": [], "findings": [], "known_hits": {}, "evaluations": 0, "distinct": set()})
    bad = json.loads(json.dumps(next(r for r in res.records if r["rel"] == "gt" and not r["mabove"])))
    bad["european"]["call"]["f"] = [2, -2, 0, 2]                  # intrinsic value + 1
    replay_cases(probe, [bad])
    ctx.selftest("a corrupted intrinsic value is rejected", any(v["key"].startswith("bs:limit:bs_european_price") for v in probe.violations))
    ctx.traces_validated = len(res.records)
    ctx.exhaustive = True
    ctx.rule = ("all 24 abstract boundary cases (S vs K x running maximum vs K x {t=0, v=0, both}) of BSCases.tla, each replayed on 3 strikes x 3 magnitudes x 2 gaps x "
                "exact/tiny zeros into 19 functional/module entry points; plus mixed tensors, negative-argument rejection and hedger finiteness on 4 option types x 2 underliers")
    ctx.assumptions += ["with tiny (non-zero) t or v the exact-limit comparison is made away from the strike only",
                        "the lookback delta is an automatic derivative: only 'not NaN' is demanded of it"]


if __name__ == "__main__":
    raise SystemExit(run_check("C18", check))
