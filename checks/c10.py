"""C10 (partial: path-wise exactness) - simulated paths follow the scheme of the model they are named after.

Sim.tla models the discretisation schemes as machines with one Step(z) action per time step, the standard normals (and,
for Merton, jump counts and jump normals) supplied by the environment; values are exact (coefficient vectors / rationals).
TLC checks the closed forms (BrownianClosedForm, OUClosedForm, EulerMartingale, JumpFreeReduction) for every sequence of
supplied normals.  Replay: the real generators are run with exactly those normals - through the `engine` argument where
offered, otherwise by replacing torch.randn_like / Poisson.sample for the duration of one call - and whole paths are
compared with the evaluated specification.  NOT decided here (see DESIGN.md): every distributional statement of C10
(means, variances, correlations, rough Bergomi, the CIR schemes).
"""
from __future__ import annotations

import contextlib
import json
import math
import sys
from collections import defaultdict
from typing import Any, Dict, List

import torch

from lib.core import Ctx, run_check
from lib.doubles import LN2, fr, frf
from lib.tlc import MachineryError

DT = torch.float64
CFGS = {"quick": ["q_diff", "q_merton", "q_kou"], "thorough": ["q_diff", "q_merton", "q_kou", "t_diff", "t_merton"]}


@contextlib.contextmanager
def patched(obj: Any, name: str, fn: Any):
    old = getattr(obj, name)
    setattr(obj, name, fn)
    try:
        yield
    finally:
        setattr(obj, name, old)


def scripted_engine(mats: List[torch.Tensor]):
    """An engine that hands out the scripted matrices.  Matrices are matched BY SHAPE (jump normals are (N, T-1), diffusion
    normals (N, T)), so the order and the number of draws the generator makes is not imposed; a shape the script does not have
    is a machinery error."""
    pool = list(mats)

    def engine(*size: int, dtype=None, device=None) -> torch.Tensor:
        for m in pool:
            if tuple(m.shape) == tuple(size):
                return m.clone().to(dtype)
        raise MachineryError(f"engine asked for {size}, script has {[tuple(m.shape) for m in pool]}")
    return engine


def close(ctx: Ctx, key: str, what: str, got: torch.Tensor, exp: torch.Tensor, recs, extra=None, tol: float = 1e-12) -> None:
    ctx.count(n=len(recs))
    if got.shape != exp.shape:
        ctx.violation(key + ":shape", f"{what}: shape {tuple(got.shape)} instead of {tuple(exp.shape)}", extra)
        return
    bad = ~((got - exp).abs() <= tol * (1 + exp.abs()))
    if bool(bad.any()):
        i = int(bad.any(dim=1).nonzero()[0])
        ctx.violation(key, what, {"normals": recs[i]["zs"], "expected": exp[i].tolist(), "observed": got[i].tolist(), **(extra or {})})


def replay(ctx: Ctx, recs: List[Dict[str, Any]]) -> None:
    from pfhedge.stochastic import (generate_brownian, generate_geometric_brownian, generate_kou_jump, generate_local_volatility_process,
                                    generate_merton_jump, generate_vasicek)
    groups: Dict[Any, List[Dict[str, Any]]] = defaultdict(list)
    for r in recs:
        groups[(r["scheme"], len(r["path"]))].append(r)
    for (scheme, T), rs in groups.items():
        N = len(rs)
        Z = torch.tensor([[7.0] + [float(z) for z in r["zs"]] for r in rs], dtype=DT)        # column 0 is a decoy: must be ignored
        ks = torch.arange(T, dtype=DT)
        if scheme in ("brownian", "gbm"):
            S = torch.tensor([[float(p[1]) for p in r["path"]] for r in rs], dtype=DT)       # sum of z
            for sigma, mu, dt, x0 in ((2.0, 4.0, 0.25, 3.0), (1.0, 0.5, 1 / 16, 1.5), (0.5, 0.0, 1 / 4, 0.75)):
                if scheme == "brownian":
                    got = generate_brownian(N, T, init_state=(x0,), sigma=sigma, mu=mu, dt=dt, dtype=DT, engine=scripted_engine([Z]))
                    exp = x0 + mu * dt * ks + sigma * math.sqrt(dt) * S
                    close(ctx, "scheme:brownian", "generate_brownian differs from X0 + mu t + sigma W_t on the supplied normals", got, exp, rs, {"sigma": sigma, "mu": mu, "dt": dt})
                    # an engine that hands out ONE tensor the caller keeps (common random numbers for two runs): the second run
                    # must be driven by the same normals
                    Zown = Z.clone()
                    same = lambda *size, dtype=None, device=None: Zown
                    generate_brownian(N, T, init_state=(x0,), sigma=sigma, mu=mu, dt=dt, dtype=DT, engine=same)
                    again = generate_brownian(N, T, init_state=(x0,), sigma=sigma, mu=mu, dt=dt, dtype=DT, engine=same)
                    close(ctx, "scheme:brownian:engine-tensor-reused", "a second path driven by the SAME engine tensor differs from the exact solution (the generator consumed the caller's normals in place)",
                          again, exp, rs, {"sigma": sigma, "mu": mu, "dt": dt})
                else:
                    got = generate_geometric_brownian(N, T, init_state=(x0,), sigma=sigma, mu=mu, dt=dt, dtype=DT, engine=scripted_engine([Z]))
                    dc = rs[0]["drift"]            # drift coefficients of the specification over (mu, sigma^2/2, lambda E[e^J - 1])
                    exp = x0 * torch.exp((dc[0] * mu + dc[1] * sigma ** 2 / 2) * dt * ks + sigma * math.sqrt(dt) * S)
                    close(ctx, "scheme:gbm", "generate_geometric_brownian differs from S0 exp((mu - sigma^2/2) t + sigma W_t) on the supplied normals", got, exp, rs, {"sigma": sigma, "mu": mu, "dt": dt})
                    # jump models with zero intensity reduce to it on the same normals
                    gm = generate_merton_jump(N, T, init_state=(x0,), sigma=sigma, mu=mu, dt=dt, jump_per_year=0.0, dtype=DT, engine=scripted_engine([torch.zeros(N, T - 1, dtype=DT), Z]))
                    close(ctx, "scheme:merton:zero-intensity", "Merton model with zero jump intensity differs from geometric Brownian motion on the same normals", gm, exp, rs)
                    gk = generate_kou_jump(N, T, init_state=(x0,), sigma=sigma, mu=mu, dt=dt, jump_per_year=0.0, dtype=DT, engine=scripted_engine([Z]))
                    close(ctx, "scheme:kou:zero-intensity", "Kou model with zero jump intensity differs from geometric Brownian motion on the same normals", gk, exp, rs)
            # the INSTRUMENT classes on the same normals (their constructor arguments must reach the generator as given:
            # an intensity of exactly zero is zero)
            if scheme == "gbm":
                from pfhedge.instruments import BrownianStock, KouJumpStock, MertonJumpStock
                sigma, mu, dt = 1.0, 0.5, 1 / 16
                expi = 1.5 * torch.exp((mu - sigma ** 2 / 2) * dt * ks + sigma * math.sqrt(dt) * S)
                for label, mk in (("MertonJumpStock(jump_per_year=0)", lambda e: MertonJumpStock(sigma=sigma, mu=mu, dt=dt, dtype=DT, jump_per_year=0.0, engine=e)),
                                  ("KouJumpStock(jump_per_year=0)", lambda e: KouJumpStock(sigma=sigma, mu=mu, dt=dt, dtype=DT, jump_per_year=0.0, engine=e)),
                                  ("KouJumpStock(jump_per_year=0 as int)", lambda e: KouJumpStock(sigma=sigma, mu=mu, dt=dt, dtype=DT, jump_per_year=0, engine=e))):
                    try:
                        inst = mk(scripted_engine([torch.zeros(N, T - 1, dtype=DT), Z]))
                        inst.simulate(n_paths=N, time_horizon=(T - 1) * dt, init_state=(1.5,))
                        close(ctx, f"scheme:instrument:{label.split('(')[0]}", f"{label}.simulate differs from geometric Brownian motion on the supplied normals", inst.spot, expi, rs)
                    except MachineryError:
                        raise
                    except Exception as ex:
                        ctx.violation(f"scheme:instrument:{label.split('(')[0]}", f"{label}.simulate raised {type(ex).__name__} with a supplied engine", {"error": repr(ex)[:200]})
            # one initial value PER PATH, given as a bare tensor (the documented tensor spelling of init_state)
            x0s = 1.0 + 0.25 * torch.arange(N, dtype=DT)
            sigma, mu, dt = 1.0, 0.5, 1 / 16
            try:
                if scheme == "brownian":
                    got = generate_brownian(N, T, init_state=x0s[:, None].clone(), sigma=sigma, mu=mu, dt=dt, dtype=DT, engine=scripted_engine([Z]))
                    exp = x0s[:, None] + mu * dt * ks + sigma * math.sqrt(dt) * S
                    gk = None
                else:
                    got = generate_geometric_brownian(N, T, init_state=x0s[:, None].clone(), sigma=sigma, mu=mu, dt=dt, dtype=DT, engine=scripted_engine([Z]))
                    exp = x0s[:, None] * torch.exp((mu - sigma ** 2 / 2) * dt * ks + sigma * math.sqrt(dt) * S)
                    gk = generate_kou_jump(N, T, init_state=x0s.clone(), sigma=sigma, mu=mu, dt=dt, jump_per_year=0.0, dtype=DT, engine=scripted_engine([Z]))
                close(ctx, f"scheme:{scheme}:per-path-initial-state", f"{scheme} paths started from one initial value per path (a bare tensor) differ from the exact solution from THOSE values",
                      got, exp, rs, {"init_state": x0s.tolist()[:4]})
                if gk is not None:
                    close(ctx, "scheme:kou:per-path-initial-state", "Kou paths (zero intensity) started from one initial value per path differ from the exact solution from those values", gk, exp, rs)
            except Exception as ex:
                ctx.violation(f"scheme:{scheme}:per-path-initial-state", f"{scheme} generator raised {type(ex).__name__} for one initial value per path given as a bare tensor", {"error": repr(ex)[:200]})
        elif scheme == "merton":
            S = torch.tensor([[float(p[1]) for p in r["path"]] for r in rs], dtype=DT)
            SN = torch.tensor([[float(p[2]) for p in r["path"]] for r in rs], dtype=DT)
            SY = torch.tensor([[float(p[3]) for p in r["path"]] for r in rs], dtype=DT)
            NJ = torch.tensor([[float(n) for n in r["ns"]] for r in rs], dtype=DT)
            Y = torch.tensor([[float(y) for y in r["ys"]] for r in rs], dtype=DT)
            import torch.distributions.poisson as tp
            # (the third set: jumps of a FIXED size - jump_std = 0 with a non-zero mean)
            for sigma, mu, dt, lam, jm, js in ((2.0, 4.0, 0.25, 8.0, -0.25, 0.5), (1.0, 0.0, 1 / 16, 68.2, 0.0, 0.02), (0.5, 0.25, 0.25, 4.0, -0.25, 0.0)):
                with patched(tp.Poisson, "sample", lambda self, shape=torch.Size(): NJ.clone()):
                    got = generate_merton_jump(N, T, init_state=(1.25,), sigma=sigma, mu=mu, dt=dt, jump_per_year=lam, jump_mean=jm, jump_std=js,
                                               dtype=DT, engine=scripted_engine([Y, Z]))
                dc = rs[0]["drift"]
                drift = (dc[0] * mu + dc[1] * sigma ** 2 / 2 + dc[2] * lam * (math.exp(jm + js ** 2 / 2) - 1)) * dt
                exp = 1.25 * torch.exp(drift * ks + sigma * math.sqrt(dt) * S + jm * SN + js * SY)
                close(ctx, "scheme:merton", "generate_merton_jump differs from the compensated jump-diffusion solution on the supplied normals and jump counts", got, exp, rs,
                      {"sigma": sigma, "mu": mu, "lambda": lam, "jump_mean": jm, "jump_std": js})
        elif scheme == "kou":
            # the n jumps of a step have the signed log-sizes y u, 2 y u, ..., n y u (u = ln2 / 4): supplied through the public
            # torch distributions the generator draws from (Poisson counts, Uniform directions, Exponential sizes)
            S = torch.tensor([[float(p[1]) for p in r["path"]] for r in rs], dtype=DT)
            SQ = torch.tensor([[float(p[3]) for p in r["path"]] for r in rs], dtype=DT)
            NJ = torch.tensor([[float(n) for n in r["ns"]] for r in rs], dtype=DT)
            Y = torch.tensor([[float(y) for y in r["ys"]] for r in rs], dtype=DT)
            import torch.distributions.exponential as te
            import torch.distributions.poisson as tp
            import torch.distributions.uniform as tu
            u = LN2 / 4
            for sigma, mu, dt, lam, up_mean, down_mean, p_up in ((2.0, 4.0, 0.25, 8.0, 0.25, 0.5, 0.25), (1.0, 0.0, 1 / 16, 30.0, 0.5, 0.125, 0.75)):
                def sizes(self, shape=torch.Size()):
                    j = torch.arange(1, shape[-1] + 1, dtype=DT)
                    return (j * u).expand(*shape).clone()

                def directions(self, shape=torch.Size()):
                    return torch.where(Y > 0, torch.zeros_like(Y), torch.ones_like(Y))[..., None].expand(*shape).clone()
                try:
                    with patched(tp.Poisson, "sample", lambda self, shape=torch.Size(): NJ.clone()), patched(te.Exponential, "sample", sizes), patched(tu.Uniform, "sample", directions):
                        got = generate_kou_jump(N, T, init_state=(1.25,), sigma=sigma, mu=mu, dt=dt, jump_per_year=lam, jump_mean_up=up_mean, jump_mean_down=down_mean,
                                                jump_up_prob=p_up, dtype=DT, engine=scripted_engine([Z]))
                except Exception as ex:
                    ctx.violation("scheme:kou:raises", f"generate_kou_jump raised {type(ex).__name__} on supplied jump counts, directions and sizes", {"error": repr(ex)[:300]})
                    continue
                eta_up, eta_down = 1 / up_mean, 1 / down_mean
                m = (1 - p_up) * eta_down / (eta_down + 1) + p_up * eta_up / (eta_up - 1) - 1          # E[e^J] - 1 of the double-exponential jump
                dc = rs[0]["drift"]
                drift = (dc[0] * mu + dc[1] * sigma ** 2 / 2 + dc[2] * lam * m) * dt
                exp = 1.25 * torch.exp(drift * ks + sigma * math.sqrt(dt) * S + u * SQ)
                close(ctx, "scheme:kou", "generate_kou_jump differs from the compensated double-exponential jump-diffusion on the supplied normals, jump counts, directions and sizes "
                      "(every jump of a step moves the price)", got, exp, rs, {"sigma": sigma, "mu": mu, "lambda": lam, "jump_mean_up": up_mean, "jump_mean_down": down_mean, "p_up": p_up})
        elif scheme == "vasicek":
            c0 = torch.tensor([[frf(p[0]) for p in r["path"]] for r in rs], dtype=DT)
            cv = torch.tensor([[frf(p[1]) for p in r["path"]] for r in rs], dtype=DT)
            dt = 0.25
            kappa = LN2 / dt                                   # mu = exp(-kappa dt) = 1/2
            for theta, x0, sigma in ((0.04, 0.04, 0.04), (0.04, 0.0, 0.04), (0.04, 0.07, 0.1), (0.0, 0.05, 0.2), (0.5, 0.25, 1.0)):
                vola = sigma * math.sqrt((1 - 0.25) / 2 / kappa)
                exp = theta + c0 * (x0 - theta) + cv * vola
                old_limit = sys.getrecursionlimit()
                sys.setrecursionlimit(300)
                try:
                    # the generator draws randn_like(output) of shape (N, T); entry [:, i] drives the step i -> i + 1
                    Zv = torch.cat([Z[:, 1:], torch.full((N, 1), 9.0, dtype=DT)], dim=1)
                    with patched(torch, "randn_like", lambda t, **kw: Zv.clone().to(t.dtype)):
                        got = generate_vasicek(N, T, init_state=(x0,), kappa=kappa, theta=theta, sigma=sigma, dt=dt, dtype=DT)
                        got_scalar = generate_vasicek(N, T, init_state=x0, kappa=kappa, theta=theta, sigma=sigma, dt=dt, dtype=DT)   # documented scalar form
                    close(ctx, "scheme:vasicek:scalar-initial-state", "generate_vasicek with the initial state given as a bare scalar differs from the exact Ornstein-Uhlenbeck transition",
                          got_scalar, exp, rs, {"theta": theta, "x0": x0}, tol=1e-6)
                except RecursionError:
                    ctx.violation("scheme:vasicek:recursion", "generate_vasicek does not terminate (infinite recursion) unless the initial state equals theta",
                                  {"theta": theta, "x0": x0})
                    continue
                finally:
                    sys.setrecursionlimit(old_limit)
                key = "scheme:vasicek:theta-ignored" if x0 == 0.0 and theta != 0 else "scheme:vasicek"
                close(ctx, key, "generate_vasicek differs from the exact Ornstein-Uhlenbeck transition theta + (x - theta) e^(-kappa dt) + vola z", got, exp, rs, {"theta": theta, "x0": x0},
                      tol=1e-6)       # kappa, theta, sigma, dt given as Python floats pass through float32 inside the generator
        elif scheme in ("localvol_const", "localvol_lin"):
            exp = torch.tensor([[frf(p) for p in r["path"]] for r in rs], dtype=DT)
            Zl = torch.cat([Z[:, 1:], torch.full((N, 1), 9.0, dtype=DT)], dim=1)
            fn = (lambda t, s: torch.ones_like(s)) if scheme == "localvol_const" else (lambda t, s: s / 4)
            with patched(torch, "randn_like", lambda t, **kw: Zl.clone().to(t.dtype)):
                out = generate_local_volatility_process(N, T, sigma_fn=fn, init_state=(2.0,), dt=0.25, dtype=DT)
            close(ctx, f"scheme:{scheme}", "generate_local_volatility_process differs from the Euler scheme S (1 + sigma(t,S) sqrt(dt) z)", out.spot, exp, rs)
            vexp = torch.ones_like(exp) if scheme == "localvol_const" else exp / 4
            close(ctx, f"scheme:{scheme}:volatility", "the volatility series is not sigma(t_k, S_k)", out.volatility, vexp, rs)


def cir_moments(ctx: Ctx, recs: List[Dict[str, Any]]) -> None:
    """One step of the quadratic-exponential scheme from the value v must have the conditional mean m and variance s2 of the
    CIR process (CIR.tla).  The real generator is run on Gauss-Hermite nodes as normals (quadratic branch: V' is a quadratic
    polynomial of Z, so three nodes integrate V' and V'^2 exactly) or on Gauss-Laguerre nodes mapped to uniforms (exponential
    branch: V' = y/beta for u = 1 - (1-p) exp(-y)); plus probes on both sides of the atom at zero."""
    import math
    from pfhedge.stochastic import generate_cir, generate_heston
    r3, r2 = math.sqrt(3.0), math.sqrt(2.0)
    zn, zw = [-r3, 0.0, r3], [1 / 6, 2 / 3, 1 / 6]
    yn, yw = [2 - r2, 2 + r2], [(2 + r2) / 4, (2 - r2) / 4]
    # The CIR process is scale-covariant (X -> cX with theta -> c theta, sigma^2 -> c sigma^2; psi is unchanged): every record is
    # replayed at its own level and at the level 2^-40 times it (a variance or rate of 1e-13 - far below machine epsilon, far
    # above the smallest normal number), where the conditional mean scales by c and the variance by c^2 exactly.
    for r, sc in ((r_, sc_) for r_ in recs for sc_ in (0, -40)):
        c_ = 2.0 ** sc
        th, ka, sg2, E, v = (frf(r[k]) for k in ("theta", "kappa", "sigma2", "E", "v"))
        m, s2, psi = frf(r["m"]) * c_, frf(r["s2"]) * c_ * c_, frf(r["psi"])
        th, v = th * c_, v * c_
        sigma = math.sqrt(sg2) * 2.0 ** (sc // 2)
        # a float64 tensor: Python-float parameters are converted through the default dtype (float32) inside the generators,
        # which would move exp(-kappa dt) by 1e-8 (theta, kappa, sigma are dyadic and survive that conversion exactly)
        dt = torch.tensor(-math.log(E) / ka, dtype=DT)
        detail = {"level_scale": f"2^{sc}", "theta": th, "kappa": ka, "sigma": sigma, "dt": float(dt), "exp(-kappa dt)": E, "from": v, "branch": r["branch"], "psi": psi,
                  "conditional_mean": m, "conditional_variance": s2}
        # Both kinds of node are supplied at once (3 normals x 2 uniforms, then three probes around the atom), and the branch the
        # code took is read off its output: any switching level in [1, 2] is a correct scheme, so the record's branch (the
        # code's present level 3/2) is not imposed.
        psi_ok_exp = psi >= 1.0
        p = (psi - 1) / (psi + 1) if psi_ok_exp else 0.0
        u_nodes = [1 - (1 - p) * math.exp(-y) for y in yn]
        rows = [(z, u) for z in zn for u in u_nodes] + [(0.0, p / 2), (0.0, p * (1 - 1e-9)), (0.0, p + (1 - p) * 1e-6)]
        Z = torch.tensor([[z, 0.0] for z, _ in rows], dtype=DT)
        U = torch.tensor([[u, 0.5] for _, u in rows], dtype=DT)
        for gen in ("generate_cir", "generate_heston"):
            try:
                with patched(torch, "randn_like", lambda t, **k: Z.clone().to(t.dtype)), patched(torch, "rand_like", lambda t, **k: U.clone().to(t.dtype)):
                    if gen == "generate_cir":
                        out = generate_cir(Z.size(0), 2, init_state=(v,), kappa=ka, theta=th, sigma=sigma, dt=dt, dtype=DT)
                    else:
                        out = generate_heston(Z.size(0), 2, init_state=(1.0, v), kappa=ka, theta=th, sigma=sigma, rho=-0.5, dt=dt, dtype=DT).variance
            except Exception as ex:
                ctx.violation(f"cir:{gen}:raises", f"{gen} raised {type(ex).__name__} on supplied quadrature nodes", {**detail, "error": repr(ex)[:200]})
                continue
            ctx.count(n=1)
            V = out[:, 1]
            grid = V[:6].reshape(3, 2)                                 # [normal node, uniform node]
            took = "quadratic" if bool((grid[:, 0] - grid[0, 0]).abs().max() > 0) else "exponential"
            if took == "quadratic":
                w = torch.tensor(zw, dtype=DT)
                vals = grid[:, 0]
            else:
                w = torch.tensor([(1 - p) * x for x in yw], dtype=DT)
                vals = grid[0, :]
            mean = float((w * vals).sum())
            var = float((w * vals * vals).sum()) - mean * mean
            d = {**detail, "generator": gen, "branch_taken": took, "one_step_values": V.tolist(), "observed_mean": mean, "observed_variance": var}
            if not bool(V.isfinite().all()) or not (abs(mean - m) <= 1e-9 * (abs(m) + 1e-12 * c_)):
                ctx.violation(f"cir:{took}:mean", f"one {took} step of the CIR scheme does not have the mean-reverting conditional mean theta + (v - theta) exp(-kappa dt)", d)
            elif not (abs(var - s2) <= 1e-8 * (s2 + 1e-12 * m * m)):
                ctx.violation(f"cir:{took}:variance", f"one {took} step of the CIR scheme does not have the conditional variance of the CIR process", d)
            if took == "exponential" and psi_ok_exp and s2 > 0:
                z0, zlo, zhi = float(V[6]), float(V[7]), float(V[8])
                if z0 != 0.0 or zlo != 0.0 or not (zhi > 0.0):
                    ctx.violation("cir:exponential:atom", "the exponential branch does not put the mass p = (psi - 1)/(psi + 1) at zero", {**d, "p": p, "at_p/2": z0, "just_below_p": zlo, "just_above_p": zhi})


def jump_moments(ctx: Ctx, recs: List[Dict[str, Any]]) -> None:
    """One step of the Merton / Kou generators CONDITIONAL on the number of jumps must have the mean and variance of Jump.tla
    (relative to the compensated drift of the step).  The generators get the jump count through Poisson.sample - whose RATE must
    be lambda dt - Gauss-Hermite nodes as normals (the move is linear in them: three nodes integrate it and its square exactly)
    and, for Kou, Gauss-Laguerre nodes as exponential sizes - scaled by the MEAN the generator's own Exponential object declares -
    with the directions decided just below / just above the documented up-probability."""
    import itertools
    import torch.distributions.exponential as te
    import torch.distributions.poisson as tp
    import torch.distributions.uniform as tu
    from pfhedge.stochastic import generate_kou_jump, generate_merton_jump
    r3, r2 = math.sqrt(3.0), math.sqrt(2.0)
    zn, zw = [-r3, 0.0, r3], [1 / 6, 2 / 3, 1 / 6]
    yn, yw = [2 - r2, 2 + r2], [(2 + r2) / 4, (2 - r2) / 4]
    dt, mu = 0.25, 0.125

    def seq(x):          # a TLA+ function over 0..n is serialised as an object with the keys "0", "1", ...
        return [x[str(i)] for i in range(len(x))] if isinstance(x, dict) else list(x)
    for r in recs:
        sd2, L, a1, a2, p = (frf(r[k]) for k in ("sd2", "L", "a1", "a2", "p"))
        sigma, lam = math.sqrt(sd2 / dt), L / dt
        model = r["model"]
        base = {"model": model, "sigma": sigma, "dt": dt, "jump_per_year": lam, "mu": mu}
        rates: List[float] = []

        def counts(n):
            def sample(self, shape=torch.Size()):
                rates.append(float(torch.as_tensor(self.rate).flatten()[0]))
                return torch.full(tuple(shape), float(n), dtype=DT)
            return sample
        if model == "merton":
            js = math.sqrt(a2)
            c = (mu - sigma ** 2 / 2 - lam * (math.exp(a1 + a2 / 2) - 1)) * dt
            grid = list(itertools.product(range(3), range(3)))
            Zj = torch.tensor([[zn[i]] for i, _ in grid], dtype=DT)
            Zd = torch.tensor([[9.0, zn[j]] for _, j in grid], dtype=DT)
            w = torch.tensor([zw[i] * zw[j] for i, j in grid], dtype=DT)
            for n, want in enumerate(seq(r["cond"])):
                detail = {**base, "jump_mean": a1, "jump_std": js, "jumps_in_the_step": n}
                try:
                    with patched(tp.Poisson, "sample", counts(n)):
                        out = generate_merton_jump(len(grid), 2, init_state=(1.5,), mu=mu, sigma=sigma, jump_per_year=lam, jump_mean=a1, jump_std=js, dt=dt, dtype=DT,
                                                   engine=scripted_engine([Zj, Zd]))
                except Exception as ex:
                    ctx.violation("jump:merton:raises", f"generate_merton_jump raised {type(ex).__name__} on supplied jump counts and quadrature nodes", {**detail, "error": repr(ex)[:200]})
                    break
                ctx.count(n=1)
                x = (out[:, 1] / out[:, 0]).log() - c
                m1 = float((w * x).sum())
                v1 = float((w * x * x).sum()) - m1 * m1
                em, ev = frf(want["mean"]), frf(want["var"])
                d = {**detail, "observed_mean_minus_drift": m1, "expected": em, "observed_variance": v1, "expected_variance": ev}
                if not math.isfinite(m1) or abs(m1 - em) > 1e-11 * (1 + abs(em)):
                    ctx.violation("jump:merton:mean", "one step of generate_merton_jump given n jumps does not have the mean drift + n * jump_mean", d)
                elif abs(v1 - ev) > 1e-11 * (1 + ev):
                    ctx.violation("jump:merton:variance", "one step of generate_merton_jump given n jumps does not have the variance sigma^2 dt + n * jump_std^2", d)
        else:
            eu, ed = 1 / a1, 1 / a2
            comp = (1 - p) * ed / (ed + 1) + p * eu / (eu - 1) - 1
            c = (mu - sigma ** 2 / 2 - lam * comp) * dt
            for n, per_j in enumerate(seq(r["condu"])):
                for j, want in enumerate(seq(per_j)):
                    # paths: one per (normal node, Laguerre node of each of the n jumps); the first j jumps go up
                    combos = list(itertools.product(range(3), *[range(2)] * n))
                    Zd = torch.tensor([[9.0, zn[cb[0]]] for cb in combos], dtype=DT)
                    w = torch.tensor([zw[cb[0]] * math.prod(yw[q] for q in cb[1:]) for cb in combos], dtype=DT)
                    nodes = torch.tensor([[yn[q] for q in cb[1:]] for cb in combos], dtype=DT).reshape(len(combos), 1, n)
                    seen_rates: List[float] = []

                    def sizes(self, shape=torch.Size()):
                        seen_rates.append(float(torch.as_tensor(self.rate).flatten()[0]))
                        return (nodes / self.rate).expand(*shape).clone()

                    def directions(self, shape=torch.Size()):
                        up = torch.tensor([p * (1 - 1e-9) if q < j else p + (1 - p) * 1e-9 for q in range(n)], dtype=DT)
                        return up.expand(*shape).clone()
                    detail = {**base, "jump_mean_up": a1, "jump_mean_down": a2, "jump_up_prob": p, "jumps_in_the_step": n, "upward": j}
                    try:
                        with patched(tp.Poisson, "sample", counts(n)), patched(te.Exponential, "sample", sizes), patched(tu.Uniform, "sample", directions):
                            out = generate_kou_jump(len(combos), 2, init_state=(1.5,), mu=mu, sigma=sigma, jump_per_year=lam, jump_mean_up=a1, jump_mean_down=a2, jump_up_prob=p,
                                                    dt=dt, dtype=DT, engine=scripted_engine([Zd]))
                    except Exception as ex:
                        ctx.violation("jump:kou:raises", f"generate_kou_jump raised {type(ex).__name__} on supplied jump counts, directions and quadrature nodes", {**detail, "error": repr(ex)[:200]})
                        break
                    ctx.count(n=1)
                    x = (out[:, 1] / out[:, 0]).log() - c
                    m1 = float((w * x).sum())
                    v1 = float((w * x * x).sum()) - m1 * m1
                    em, ev = frf(want["mean"]), frf(want["var"])
                    d = {**detail, "observed_mean_minus_drift": m1, "expected": em, "observed_variance": v1, "expected_variance": ev, "exponential_rates_used": sorted(set(seen_rates))}
                    if not math.isfinite(m1) or abs(m1 - em) > 1e-11 * (1 + abs(em)):
                        ctx.violation("jump:kou:mean", "one step of generate_kou_jump given n jumps (j upward) does not have the mean drift + j * mean_up - (n - j) * mean_down", d)
                    elif abs(v1 - ev) > 1e-11 * (1 + ev):
                        ctx.violation("jump:kou:variance", "one step of generate_kou_jump given n jumps (j upward) does not have the variance sigma^2 dt + j * mean_up^2 + (n - j) * mean_down^2", d)
        if rates and any(abs(x - L) > 1e-12 * (1 + L) for x in rates):
            ctx.violation(f"jump:{model}:intensity", f"the {model} generator draws its jump counts from Poisson(rate) with a rate other than jump_per_year * dt",
                          {**base, "rates_used": sorted(set(rates)), "lambda_dt": L})


def antithetic_engine(ctx: Ctx) -> None:
    """The antithetic engine on SUPPLIED normals (torch.randn replaced for the call): every row it hands out is +z or -z for one
    supplied row z - so each row has the law of the supplied draws, whatever the number of paths - every supplied row is used at
    most once with each sign, and the rows come in antithetic pairs as far as the size allows.  Odd and even sizes, shuffled or not."""
    from pfhedge.stochastic import randn_antithetic
    for n in (1, 2, 3, 4, 5, 8):
        for shuffle in (True, False):
            half = -(-n // 2)
            Z = torch.tensor([[float(2 * i + 1), float(-(i + 2)) / 4, 0.5 ** i] for i in range(half)], dtype=DT)
            asked: List[Any] = []

            def supplied(*size, **kw):
                asked.append(tuple(size))
                if tuple(size) != tuple(Z.shape):
                    raise MachineryError(f"randn_antithetic drew normals of shape {size}; {tuple(Z.shape)} are needed for {n} rows")
                return Z.clone().to(kw.get("dtype") or DT)
            try:
                with patched(torch, "randn", supplied):
                    out = randn_antithetic(n, 3, dtype=DT, shuffle=shuffle)
            except MachineryError as e:
                ctx.violation("engine:antithetic:draws", str(e), {"n": n})
                continue
            except Exception as e:
                ctx.violation("engine:antithetic:raises", f"randn_antithetic({n}, 3) raised {type(e).__name__}", {"error": repr(e)[:200]})
                continue
            ctx.count(("antithetic", n, shuffle), n=1)
            used = set()
            ok = tuple(out.shape) == (n, 3)
            for r in out.tolist() if ok else []:
                hit = [(i, sg) for i in range(half) for sg in (1, -1) if r == [sg * v for v in Z[i].tolist()]]
                if not hit or hit[0] in used:
                    ok = False
                    break
                used.add(hit[0])
            pairs = sum(1 for i in range(half) if (i, 1) in used and (i, -1) in used)
            if not ok or pairs != n // 2:
                ctx.violation("engine:antithetic", f"randn_antithetic({n}, 3, shuffle={shuffle}) does not hand out the supplied normals and their negatives",
                              {"supplied": Z.tolist(), "returned": out.tolist() if tuple(out.shape) == (n, 3) else list(out.shape), "antithetic_pairs": pairs, "expected_pairs": n // 2})


def vasicek_long_horizon(ctx: Ctx) -> None:
    """The exact Ornstein-Uhlenbeck transition applied step by step over a LONG horizon (kappa T in the hundreds and beyond 700),
    float64 and float32, on supplied normals: the path equals the recursion x' = theta + (x - theta) e^(-kappa dt) + vola z computed
    by the harness - every step is a contraction, nothing grows with the horizon."""
    from pfhedge.stochastic import generate_vasicek
    for dtype, T, tol in ((torch.float64, 1300, 1e-6), (torch.float32, 400, 2e-3)):
        dt = 0.25
        kappa = 4 * LN2 / dt                     # e^(-kappa dt) = 1/16:  kappa T = 2.77 T
        theta, sigma, x0 = 0.05, 0.3, 0.75
        g = torch.Generator().manual_seed(ctx.seed + 13)
        Z = torch.randn(2, T, generator=g, dtype=torch.float64).to(dtype)
        mu = 1.0 / 16
        vola = sigma * math.sqrt((1 - mu * mu) / (2 * kappa))
        ref = torch.empty(2, T, dtype=torch.float64)
        ref[:, 0] = x0
        for i in range(T - 1):
            ref[:, i + 1] = theta + (ref[:, i] - theta) * mu + vola * Z[:, i].double()
        try:
            with patched(torch, "randn_like", lambda t, **kw: Z.clone().to(t.dtype)):
                got = generate_vasicek(2, T, init_state=(x0,), kappa=kappa, theta=theta, sigma=sigma, dt=dt, dtype=dtype)
        except Exception as ex:
            ctx.violation("scheme:vasicek:long-horizon", f"generate_vasicek raised {type(ex).__name__} over {T} steps", {"error": repr(ex)[:200]})
            continue
        ctx.count(n=2)
        if got.dtype != dtype or not bool(got.isfinite().all()) or not bool(((got.double() - ref).abs() <= tol * (1 + ref.abs())).all()):
            bad = (~got.isfinite()).nonzero()
            ctx.violation("scheme:vasicek:long-horizon", f"generate_vasicek over {T} steps (kappa T = {kappa * dt * T:.0f}, {dtype}) differs from the step-by-step Ornstein-Uhlenbeck transition",
                          {"first_non_finite_step": (int(bad[0][1]) if len(bad) else None), "max_abs_diff": float((got.double() - ref).abs().nan_to_num(posinf=1e300).max())})


def heston_steps(ctx: Ctx, recs: List[Dict[str, Any]]) -> None:
    """The log-price step of generate_heston / HestonStock on supplied normals: with the variance move (v -> v') produced by the
    code's own variance step, ln S' - ln S must be k0 + k1 v + k2 v' + sqrt(k3 v + k4 v') Z with the coefficients of Heston.tla."""
    from pfhedge.instruments import HestonStock
    from pfhedge.stochastic import generate_heston
    zs_var = torch.tensor([[-1.0, 0.0], [0.0, 0.0], [1.5, 0.0], [0.5, 0.0]], dtype=DT)
    zs_spot = torch.tensor([[0.0, 0.0], [2.0, 0.0], [-1.0, 0.0], [0.5, 0.0]], dtype=DT)
    us = torch.tensor([[0.3, 0.5], [0.9, 0.5], [0.6, 0.5], [0.99, 0.5]], dtype=DT)
    for r in recs:
        rho, ka, th, sg, dt = (frf(r[k]) for k in ("rho", "kappa", "theta", "sigma", "dt"))
        k0, k1, k2, k3, k4 = (frf(x) for x in r["k"])
        for v0 in (th, 4 * th, th / 16):
            detail = {"rho": rho, "kappa": ka, "theta": th, "sigma": sg, "dt": dt, "v0": v0, "coefficients k0..k4": [k0, k1, k2, k3, k4]}
            for how in ("generate_heston", "HestonStock"):
                calls = iter([zs_var, zs_spot])                    # first randn_like: variance scheme; second: the price
                try:
                    with patched(torch, "randn_like", lambda t, **k: next(calls).clone().to(t.dtype)), patched(torch, "rand_like", lambda t, **k: us.clone().to(t.dtype)):
                        if how == "generate_heston":
                            out = generate_heston(4, 2, init_state=(2.0, v0), kappa=ka, theta=th, sigma=sg, rho=rho, dt=dt, dtype=DT)
                            spot, var = out.spot, out.variance
                        else:
                            st = HestonStock(kappa=ka, theta=th, sigma=sg, rho=rho, dt=dt, dtype=DT)
                            st.simulate(n_paths=4, time_horizon=dt, init_state=(2.0, v0))
                            spot, var = st.spot, st.variance
                except Exception as ex:
                    ctx.violation(f"heston:{how}:raises", f"{how} raised {type(ex).__name__} on supplied normals", {**detail, "error": repr(ex)[:200]})
                    continue
                ctx.count(n=1)
                if tuple(spot.shape) != (4, 2):
                    ctx.violation(f"heston:{how}:shape", f"{how}: shape {tuple(spot.shape)} for 4 paths and 2 time points", detail)
                    continue
                v1 = var[:, 1]
                got = (spot[:, 1] / spot[:, 0]).log()
                want = k0 + k1 * v0 + k2 * v1 + (k3 * v0 + k4 * v1).clamp(min=0).sqrt() * zs_spot[:, 0]
                if not bool(((got - want).abs() <= 1e-11 * (1 + want.abs())).all()):
                    ctx.violation("heston:log-return", "the Heston log-price step is not (rho/sigma)(v' - v - kappa theta dt) + (kappa rho/sigma - 1/2) dt (v + v')/2 + sqrt((1 - rho^2) dt (v + v')/2) Z",
                                  {**detail, "via": how, "v1": v1.tolist(), "normals": zs_spot[:, 0].tolist(), "observed_log_return": got.tolist(), "expected": want.tolist()})


def check(ctx: Ctx) -> None:
    vasicek_long_horizon(ctx)
    antithetic_engine(ctx)
    hes = ctx.tlc("MC_Heston", "MC_Heston.cfg", workers=4)
    hrecs = [r for r in hes.records if r.get("rec") == "heston_step"]
    if len(hrecs) < 100:
        raise MachineryError("Heston.tla: too few parameter points")
    heston_steps(ctx, hrecs)
    for r in hrecs:
        ctx.distinct.add(json.dumps(["heston", r["rho"], r["kappa"], r["theta"], r["sigma"], r["dt"]]))
    ctx.sample(hrecs[7])
    probe1 = Ctx.__new__(Ctx)
    probe1.__dict__.update({"_per_key": {}, "violations": [], "findings": [], "known_hits": {}, "evaluations": 0, "distinct": set()})
    badh = json.loads(json.dumps(next(r for r in hrecs if r["rho"][0] != 0)))
    badh["k"][2] = [-badh["k"][2][0], badh["k"][2][1]]                 # the return answers a variance move with the wrong sign
    heston_steps(probe1, [badh])
    ctx.selftest("a Heston step record whose k2 has the wrong sign is rejected", any(v["key"] == "heston:log-return" for v in probe1.violations))
    cir = ctx.tlc("MC_CIR", "MC_CIR.cfg", workers=4)
    if cir.actions.get("Step", [0, 0])[1] == 0 or len(cir.records) < 100:
        raise MachineryError("CIR.tla: moment machine not exercised")
    crecs = [r for r in cir.records if r.get("rec") == "cir_step"]
    if not any(r["branch"] == "exponential" for r in crecs) or not any(r["branch"] == "quadratic" for r in crecs):
        raise MachineryError("CIR.tla: one branch of the scheme never selected")
    cir_moments(ctx, crecs)
    for r in crecs:
        ctx.distinct.add(json.dumps(["cir", r["theta"], r["kappa"], r["sigma2"], r["E"], r["v"]]))
    ctx.sample(next(r for r in crecs if r["branch"] == "exponential"))
    probe0 = Ctx.__new__(Ctx)
    probe0.__dict__.update({"_per_key": {}, "violations": [], "findings": [], "known_hits": {}, "evaluations": 0, "distinct": set()})
    badc = json.loads(json.dumps(next(r for r in crecs if r["branch"] == "quadratic")))
    badc["s2"] = [badc["s2"][0] * 5, badc["s2"][1] * 4]               # a conditional variance 25 % too large
    cir_moments(probe0, [badc])
    ctx.selftest("a CIR step record with a corrupted conditional variance is rejected", any(v["key"] == "cir:quadratic:variance" for v in probe0.violations))
    jmp = ctx.tlc("MC_Jump", "MC_Jump.cfg", workers=4)
    jrecs = [r for r in jmp.records if r.get("rec") == "jump_step"]
    if jmp.actions.get("Step", [0, 0])[1] == 0 or len(jrecs) < 100 or not any(r["model"] == "kou" for r in jrecs):
        raise MachineryError("Jump.tla: moment machine not exercised")
    jump_moments(ctx, jrecs)
    for r in jrecs:
        ctx.distinct.add(json.dumps(["jump", r["model"], r["sd2"], r["L"], r["a1"], r["a2"], r["p"]]))
    ctx.sample(next(r for r in jrecs if r["model"] == "kou"))
    probe2 = Ctx.__new__(Ctx)
    probe2.__dict__.update({"_per_key": {}, "violations": [], "findings": [], "known_hits": {}, "evaluations": 0, "distinct": set()})
    badj = json.loads(json.dumps(next(r for r in jrecs if r["model"] == "kou" and r["L"][0] != 0)))
    cell = badj["condu"]["2"]["1"] if isinstance(badj["condu"], dict) else badj["condu"][2][1]
    cell["var"] = [cell["var"][0] * 3, cell["var"][1] * 2]      # a conditional variance 50 % too large
    jump_moments(probe2, [badj])
    ctx.selftest("a Kou step record with a corrupted conditional variance is rejected", any(v["key"] == "jump:kou:variance" for v in probe2.violations))
    results = [ctx.tlc("MC_Sim", f"MC_Sim_{c}.cfg", workers=4) for c in CFGS[ctx.tier]]
    recs: List[Dict[str, Any]] = []
    for res in results:
        if res.actions.get("Step", [0, 0])[1] == 0 or not res.records:
            raise MachineryError(f"{res.cfg}: scheme machine not exercised")
        recs += res.records
    replay(ctx, recs)
    for r in recs:
        ctx.distinct.add(json.dumps([r["scheme"], r["zs"], r["ns"], r["ys"]]))
    ctx.sample(recs[3]); ctx.sample(recs[-1]); ctx.sample(next(r for r in recs if r["scheme"] == "vasicek" and len(r["zs"]) >= 2))
    probe = Ctx.__new__(Ctx)
    probe.__dict__.update({"_per_key": {}, "violations": [], "findings": [], "known_hits": {}, "evaluations": 0, "distinct": set()})
    bad = [json.loads(json.dumps(r)) for r in recs if r["scheme"] == "gbm"][:5]
    bad[2]["path"][-1][1] += 1                                   # one Brownian increment too many
    replay(probe, bad)
    ctx.selftest("a specification path with a corrupted Brownian sum is rejected", any(v["key"].startswith("scheme:gbm") for v in probe.violations))
    ctx.traces_validated = len(recs) + len(crecs) + len(hrecs) + len(jrecs)
    ctx.exhaustive = True
    ctx.rule = ("every parameter point of CIR.tla (theta, kappa, sigma^2, exp(-kappa dt), starting value; both branches) with one real step on quadrature nodes, generate_cir and generate_heston; every parameter point of Heston.tla (rho, kappa, theta, sigma, dt) x 3 starting variances with one real log-price step on supplied normals; "
                "every sequence of supplied normals z in {-1,0,1,2}^(T-1) (T=4; Merton: z, y in {-1,1}, jump counts in {0,1,4}, T=3) for 6 schemes, "
                "replayed with 2-5 parameter sets each; distinct = distinct (scheme, normals)")
    ctx.assumptions += ["Vasicek paths are compared with relative tolerance 1e-6: the generator converts Python-float parameters through float32",
                        "PARTIAL CLAIM: only path-wise exactness under supplied normals (Brownian, GBM, Merton, Kou at zero intensity, Vasicek, local volatility) is decided; "
                        "one-step conditional mean and variance of the CIR/Heston variance scheme are decided exactly (quadrature nodes) and their propagation to the closed-form "
                        "mean-reverting moments by TLC (tower law); other distributional statements (sample moments of prices, Heston correlation, rough Bergomi) are not",
                        "randn_like / Poisson.sample are replaced for the duration of one call (public torch API, not a pfhedge internal)"]


if __name__ == "__main__":
    raise SystemExit(run_check("C10", check))
