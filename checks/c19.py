"""C19 - bisection and implied volatility invert monotone functions to precision.

Bisect.tla is the algorithm of pfhedge._utils.bisect.bisect in PlusCal (Bracket, Direction, Test, Mid, Eval, Update,
Return, the RuntimeError abort) over an integer grid with per-element monotone tables; TLC checks Bracketed,
WithinPrecision, IterationCount, AbortOnlyWhenStuck, ElementwiseIndependent and Termination for ALL monotone tables,
targets, precisions and iteration limits of the bounded model.  Replay: every terminal behaviour is executed by the real
bisect() with a table function on exactly representable points; the recorded sequence of evaluation points must be the
specification's midpoint sequence, the result must be bitwise equal, aborts must be RuntimeError.  P = 0 behaviours are
replayed with one grid unit = one ulp (float resolution).  Then the postcondition WithinPrecision is evaluated on
continuous monotone functions with known inverses and on implied volatility round trips.
"""
from __future__ import annotations

import json
import math
from concurrent.futures import ThreadPoolExecutor
from typing import Any, Dict, List

import torch

from lib.core import Ctx, run_check
from lib.tlc import MachineryError, require_actions

CFGS = {"quick": ["q_e1w8", "q_e2w4"], "thorough": ["q_e1w8", "q_e2w4", "t_e1w16", "t_e3w4"]}


def replay_record(ctx: Ctx, bisect, r: Dict[str, Any], lo: float, unit: float, dtype=torch.float64) -> None:
    F = [[t[str(j)] for j in range(len(t))] for t in r["F"]]
    E, W = len(F), len(F[0]) - 1
    tables = torch.tensor(F, dtype=dtype)                       # (E, W+1)
    seen: List[List[int]] = []

    def fn(x: torch.Tensor) -> torch.Tensor:
        idx = ((x - lo) / unit)
        j = idx.round().long()
        if not bool((idx == j).all()) or bool(((j < 0) | (j > W)).any()):
            raise MachineryError(f"bisect evaluated off-grid points {x.tolist()}")
        if x.numel() == E and len(seen) < 10_000:
            seen.append(j.tolist())
        return tables.gather(1, j.view(E, 1)).view(E)

    lower = torch.full((E,), lo, dtype=dtype)
    upper = torch.full((E,), lo + W * unit, dtype=dtype)
    target = torch.tensor(r["target"], dtype=dtype)
    status, result = "returned", None
    try:
        result = bisect(fn, target, lower, upper, precision=r["P"] * unit, max_iter=r["maxIter"])
    except RuntimeError:
        status = "RuntimeError"
    except ValueError:
        status = "ValueError"
    ctx.count(n=1)
    # leading evaluations are the direction test fn(lower), fn(upper) - performed again by the recursive call on
    # the reflected function when the function is decreasing
    lead = 4 if r["sign"] == -1 else 2
    mids = seen[lead:]
    ends = [[0] * E, [W] * E] * (lead // 2)
    if status != "ValueError" and seen[:lead] != ends:
        ctx.violation("bisect:direction-test", "the direction test does not evaluate the function at the bracket ends", {"observed": seen[:lead], "expected": ends})
        return
    detail = {"record": {k: r[k] for k in ("target", "P", "maxIter", "status", "n", "result")}, "table": F, "unit": unit}
    if status != r["status"]:
        kind = "loops-or-wrong-error" if r["status"] == "RuntimeError" else "status"
        ctx.violation(f"bisect:{kind}", f"bisect ended with {status}, the algorithm ends with {r['status']}", detail)
        return
    if mids != r["evals"]:
        ctx.violation("bisect:trajectory", "the sequence of evaluation points differs from the algorithm's midpoint sequence",
                      {**detail, "observed": mids[:12], "expected": r["evals"][:12]})
        return
    if status == "returned":
        exp = [lo + j * unit for j in r["result"]]
        if result.tolist() != exp:
            ctx.violation("bisect:result", "bisect returned a different point than the algorithm (upper end of the final bracket)",
                          {**detail, "observed": result.tolist(), "expected": exp})


def continuous_cases(ctx: Ctx, bisect) -> None:
    """Postcondition of the specification (WithinPrecision) on continuous monotone functions with known roots."""
    fams = {
        "affine+": (lambda x: 3 * x - 1, lambda y: (y + 1) / 3),
        "affine-": (lambda x: -2 * x + 5, lambda y: (5 - y) / 2),
        "exp": (lambda x: torch.exp(x), lambda y: torch.log(y)),
        "exp-": (lambda x: torch.exp(-x), lambda y: -torch.log(y)),
        "logistic": (lambda x: torch.sigmoid(4 * x), lambda y: torch.logit(y) / 4),
        "cubic": (lambda x: x ** 3 + x, None),
        "cubic-": (lambda x: -(x ** 3) - 2 * x, None),
    }
    # a function that obtains its values by differentiating (the slope of softplus(4x)/4 is the logistic function): nothing in
    # the property restricts HOW a continuous monotone function computes its values
    def slope(x: torch.Tensor) -> torch.Tensor:
        z = x.detach().clone().requires_grad_(True)
        (g,) = torch.autograd.grad(torch.nn.functional.softplus(4 * z).sum(), z)
        return g / 4
    fams["autograd-slope"] = (slope, lambda y: torch.logit(y) / 4)
    for name, (f, inv) in fams.items():
        for lo, hi in ((-1.0, 2.0), (0.125, 0.75), (-3.0, -0.5)):
            for precision in (1e-2, 1e-4, 1e-6, 1e-9):
                for shape in ((), (5,), (3, 4)):
                    for dtype in (torch.float64, torch.float32):
                        if dtype == torch.float32 and precision < 1e-5:
                            continue
                        lower = torch.full(shape, lo, dtype=dtype)
                        upper = torch.full(shape, hi, dtype=dtype)
                        frac = torch.linspace(0.0, 1.0, max(1, lower.numel()), dtype=dtype).reshape(shape) if lower.numel() > 1 else torch.tensor(0.37, dtype=dtype)
                        root = lower + frac * (upper - lower)           # chosen roots, incl. both ends
                        target = f(root)
                        try:
                            got = bisect(f, target, lower, upper, precision=precision, max_iter=200)
                        except Exception as e:
                            ctx.violation(f"bisect:continuous:{name}:raises", f"bisect raised {type(e).__name__} on a monotone function with targets inside its range",
                                          {"family": name, "bracket": [lo, hi], "precision": precision, "shape": list(shape), "error": repr(e)[:200]})
                            continue
                        ctx.count((name, lo, precision, shape, str(dtype)), n=1)
                        slack = 8 * torch.finfo(dtype).eps * max(abs(lo), abs(hi), 1.0)
                        # the caller's bracket and target tensors (full output shape) are inputs, not work space: they are intact
                        # afterwards, so a second call given the very same tensors for other targets is as good as the first
                        if not (bool((lower == lo).all()) and bool((upper == hi).all()) and torch.equal(target, f(root))):
                            ctx.violation("bisect:arguments-modified", "bisect changed the bracket / target tensors passed by the caller",
                                          {"family": name, "bracket": [lo, hi], "shape": list(shape), "lower_after": lower.flatten().tolist()[:4], "upper_after": upper.flatten().tolist()[:4]})
                            continue
                        if precision == 1e-4 and shape == (5,):
                            root2 = lower + (1 - frac) * (upper - lower)
                            try:
                                again = bisect(f, f(root2), lower, upper, precision=precision, max_iter=200)
                                if bool((~(((again - root2).abs() <= precision + slack) | (f(again) == f(root2)))).any()):
                                    ctx.violation("bisect:bracket-reused", "a second bisect call given the same bracket tensors returns points farther than `precision` from the roots",
                                                  {"family": name, "bracket": [lo, hi], "max_error": float((again - root2).abs().max())})
                            except Exception as e:
                                ctx.violation("bisect:bracket-reused", f"a second bisect call given the same bracket tensors raised {type(e).__name__}", {"family": name, "error": repr(e)[:200]})
                        # flat float plateaus: accept any point whose function value equals the target's
                        err = (got - root).abs()
                        bad = ~((err <= precision + slack) | (f(got) == target))
                        if got.shape != root.shape or bool(bad.any()):
                            ctx.violation(f"bisect:continuous:{name}", "bisect result is farther than `precision` from the root",
                                          {"family": name, "bracket": [lo, hi], "precision": precision, "shape": list(shape), "dtype": str(dtype),
                                           "max_error": float(err.max())})
    # per-element different functions in one call (all increasing)
    def mixed(x: torch.Tensor) -> torch.Tensor:
        return torch.stack([3 * x[0] - 1, torch.exp(x[1]), x[2] ** 3 + x[2], torch.sigmoid(4 * x[3])])
    lower, upper = torch.full((4,), -1.0, dtype=torch.float64), torch.full((4,), 2.0, dtype=torch.float64)
    root = torch.tensor([-1.0, 0.3, 1.7, 2.0], dtype=torch.float64)
    got = bisect(mixed, mixed(root), lower, upper, precision=1e-8, max_iter=200)
    ctx.count(("mixed",), n=1)
    if not bool(((got - root).abs() <= 1e-8 + 1e-14).all()):
        ctx.violation("bisect:continuous:per-element", "per-element different functions: result farther than precision from the root", {"got": got.tolist(), "root": root.tolist()})
    # (precision below float resolution - abort instead of looping - is covered by the P = 0 behaviours of Bisect.tla,
    #  replayed with one grid unit = one ulp)
    try:
        bisect(lambda x: x, torch.tensor([0.5]), torch.tensor([1.0]), torch.tensor([0.0]))
        ctx.violation("bisect:bad-bracket", "lower > upper accepted silently", {})
    except ValueError:
        pass


def implied_vol(ctx: Ctx) -> None:
    """Spec postcondition |iv - v| <= precision wherever the float price separates v - precision and v + precision."""
    from pfhedge.nn import BSAmericanBinaryOption, BSEuropeanBinaryOption, BSEuropeanOption, BSLookbackOption
    dtype = torch.float64
    vols = torch.tensor([0.01, 0.05, 0.1, 0.2, 0.35, 0.5, 0.75, 0.95], dtype=dtype)
    for cls, extra in ((BSEuropeanOption, {}), (BSEuropeanOption, {"call": False}), (BSLookbackOption, {}), (BSAmericanBinaryOption, {}),
                       (BSEuropeanBinaryOption, {}), (BSEuropeanBinaryOption, {"call": False})):
        for strike in (0.5, 1.0, 3.0):
            m = cls(strike=strike, **extra)
            for s in (-0.3, -0.05, 0.0, 0.05, 0.3):
                for t in (0.02, 0.25, 1.0, 3.0):
                    for precision in (1e-4, 1e-6, 1e-9):
                        lm = torch.full_like(vols, s)
                        tm = torch.full_like(vols, t)
                        kw = {"log_moneyness": lm, "time_to_maturity": tm}
                        if cls in (BSLookbackOption, BSAmericanBinaryOption):
                            kw["max_log_moneyness"] = lm.clamp(min=0.0) if cls is BSAmericanBinaryOption and False else torch.maximum(lm, torch.full_like(lm, s))
                        price = m.price(volatility=vols, **kw)
                        plo = m.price(volatility=(vols - precision).clamp(min=1e-3), **kw)
                        phi = m.price(volatility=(vols + precision).clamp(max=1.0), **kw)
                        # strictly monotone well above float noise: the price is a difference of terms of the size of
                        # spot and strike, so changes below ~1e3 ulp of that size are cancellation noise
                        noise = 1e3 * torch.finfo(dtype).eps * strike * max(1.0, math.exp(s))
                        usable = (price - plo > noise) & (phi - price > noise)
                        if cls is BSEuropeanBinaryOption:
                            # N(d2) is DEcreasing in the volatility in the money (s > 0 for the call) and increasing out of the money only
                            # while sigma^2 t < -2 s: cases that are not monotone on the whole bracket [0.001, 1] are outside the property
                            s_eff = s                      # the put is one minus the call: monotone on the bracket exactly when the call is
                            if s_eff == 0.0 or (s_eff < 0 and -2 * s_eff / t < 1.0):
                                ctx.skip("implied volatility of a binary: price not monotone in the volatility on the whole bracket", len(vols))
                                continue
                            noise = 1e3 * torch.finfo(dtype).eps
                            usable = ((price - plo).abs() > noise) & ((phi - price).abs() > noise) & (((price - plo) > 0) == ((phi - price) > 0))
                        if cls is BSAmericanBinaryOption:
                            usable &= (lm < 0)                        # at/above the barrier the price is 1 for every volatility
                        if not bool(usable.any()):
                            ctx.skip("implied volatility: price not strictly monotone at float resolution", int((~usable).sum()))
                            continue
                        try:
                            iv = m.implied_volatility(price=price, precision=precision, **kw)
                        except Exception as e:
                            ctx.violation(f"iv:{cls.__name__}:raises", f"implied_volatility raised {type(e).__name__}", {"s": s, "t": t, "strike": strike, "error": repr(e)[:200]})
                            continue
                        ctx.count((cls.__name__, strike, s, t, precision), n=int(usable.sum()))
                        ctx.skip("implied volatility: price not strictly monotone at float resolution", int((~usable).sum()))
                        if iv.dtype != vols.dtype:
                            ctx.violation(f"iv:{cls.__name__}:dtype", f"implied volatility of {vols.dtype} inputs is returned in {iv.dtype}", {"precision": precision})
                        err = (iv - vols).abs()
                        bad = usable & ~(err <= precision * (1 + 1e-9))
                        if bool(bad.any()):
                            i = int(bad.nonzero()[0])
                            ctx.violation(f"iv:{cls.__name__}", "implied volatility does not reproduce the volatility that generated the price",
                                          {"class": cls.__name__, **extra, "strike": strike, "log_moneyness": s, "time_to_maturity": t, "precision": precision,
                                           "volatility": vols[i].item(), "implied": iv[i].item()})


def implied_vol_mixed_batches(ctx: Ctx) -> None:
    """One call with elements of DIFFERENT moneyness (at the money next to in the money, several maturities): every element is
    recovered to the requested precision - each batch is chosen so that all of its elements are monotone in the same direction."""
    from pfhedge.nn import BSEuropeanBinaryOption, BSEuropeanOption
    dtype = torch.float64
    cases = [("BSEuropeanBinaryOption call, at and in the money", BSEuropeanBinaryOption(), [0.0, 0.1, 0.3, 0.0, 0.05], [0.25, 0.25, 1.0, 2.0, 0.5]),
             ("BSEuropeanBinaryOption put, at and in the money", BSEuropeanBinaryOption(call=False), [0.0, 0.1, 0.3, 0.0, 0.05], [0.25, 0.25, 1.0, 2.0, 0.5]),
             ("BSEuropeanOption call, mixed moneyness", BSEuropeanOption(), [-0.3, 0.0, 0.2, 0.0, -0.05], [0.25, 0.25, 1.0, 2.0, 0.5]),
             ("BSEuropeanOption put, strike 1.1", BSEuropeanOption(call=False, strike=1.1), [-0.3, 0.0, 0.2, 0.0, -0.05], [0.25, 0.25, 1.0, 2.0, 0.5])]
    vols = torch.tensor([0.15, 0.3, 0.45, 0.6, 0.8], dtype=dtype)
    for label, m, lms, ts in cases:
        lm, tm = torch.tensor(lms, dtype=dtype), torch.tensor(ts, dtype=dtype)
        price = m.price(log_moneyness=lm, time_to_maturity=tm, volatility=vols)
        for precision in (1e-6, 1e-9):
            try:
                iv = m.implied_volatility(log_moneyness=lm, time_to_maturity=tm, price=price, precision=precision)
            except Exception as e:
                ctx.violation("iv:mixed-batch:raises", f"implied_volatility raised {type(e).__name__} on a batch of mixed moneyness ({label})", {"error": repr(e)[:200]})
                continue
            ctx.count(n=len(lms))
            err = (iv - vols).abs()
            if iv.shape != vols.shape or not bool((err <= precision * (1 + 1e-9)).all()):
                ctx.violation("iv:mixed-batch", f"implied volatility of a batch of mixed moneyness does not reproduce the volatilities ({label})",
                              {"log_moneyness": lms, "time_to_maturity": ts, "precision": precision, "volatility": vols.tolist(), "implied": iv.tolist()})


def bisect_mixed_dtypes(ctx: Ctx, bisect) -> None:
    """Targets of another dtype than the bracket (integer targets with a fractional bracket; single-precision targets with a
    double-precision bracket and a precision only double precision resolves): the search runs in the precision of the BRACKET,
    the root is within the requested precision of the true one."""
    cases = [("integer targets, float64 bracket", torch.tensor([1, 2, 3]), torch.tensor([0.5, 0.5, 0.5], dtype=torch.float64), torch.tensor([2.5, 2.5, 2.5], dtype=torch.float64), 1e-9),
             ("integer targets, Python-float bracket ends", torch.tensor([1, 2, 3]), 0.5, 2.5, 1e-6),
             ("float32 targets, float64 bracket", torch.tensor([1.0, 2.0, 3.0], dtype=torch.float32), torch.tensor([0.5] * 3, dtype=torch.float64), torch.tensor([2.5] * 3, dtype=torch.float64), 1e-10)]
    for label, target, lower, upper, precision in cases:
        try:
            got = bisect(lambda x: x * x, target, lower, upper, precision=precision, max_iter=200)
        except Exception as e:
            ctx.violation("bisect:mixed-dtypes:raises", f"bisect raised {type(e).__name__} ({label})", {"error": repr(e)[:200]})
            continue
        ctx.count(("bisect-mixed", label), n=3)
        want = target.double().sqrt()
        if got.shape != want.shape or not bool(((got.double() - want).abs() <= precision * (1 + 1e-9)).all()):
            ctx.violation("bisect:mixed-dtypes", f"bisect does not return the root within the requested precision ({label})",
                          {"targets": target.tolist(), "precision": precision, "returned": got.tolist(), "roots": want.tolist()})


def implied_vol_unreachable_precision(ctx: Ctx) -> None:
    """A precision that cannot be reached in the dtype of the prices (float32 prices, precision 1e-9 or 0): the search has to STOP -
    with an error, or with a value if it happens to land exactly - and must not go on for ever.  (Bisect.tla: the abort branch is
    always reachable, Terminates.)  Judged under a watchdog in the main thread."""
    import signal
    from pfhedge.nn import BSAmericanBinaryOption, BSEuropeanOption, BSLookbackOption

    class Watchdog(Exception):
        pass

    def on_alarm(signum, frame):
        raise Watchdog()
    cases = [(BSEuropeanOption(), {}), (BSEuropeanOption(call=False, strike=1.1), {}), (BSLookbackOption(), {"max_log_moneyness": True}), (BSAmericanBinaryOption(), {"max_log_moneyness": True})]
    old = signal.signal(signal.SIGALRM, on_alarm)
    try:
        for m, extra in cases:
            for dtype, precision in ((torch.float32, 1e-9), (torch.float32, 0.0), (torch.float64, 0.0)):
                lm = torch.tensor([-0.1, -0.02], dtype=dtype)
                kw = {"log_moneyness": lm, "time_to_maturity": torch.full_like(lm, 0.5)}
                if extra:
                    kw["max_log_moneyness"] = lm.clone()
                price = m.price(volatility=torch.tensor([0.2, 0.3], dtype=dtype), **kw)
                detail = {"module": type(m).__name__, "dtype": str(dtype), "precision": precision}
                signal.setitimer(signal.ITIMER_REAL, 20.0)
                try:
                    iv = m.implied_volatility(price=price, precision=precision, **kw)
                    outcome = "value"
                except Watchdog:
                    outcome = "watchdog"
                except RuntimeError:
                    outcome = "error"
                except Exception as e:
                    outcome = f"raised {type(e).__name__}"
                finally:
                    signal.setitimer(signal.ITIMER_REAL, 0.0)
                ctx.count(("iv-unreachable", type(m).__name__, str(dtype), precision), n=1)
                if outcome == "watchdog":
                    ctx.violation("iv:unreachable-precision:does-not-stop", "implied_volatility with a precision the dtype cannot resolve was still searching after 20 s "
                                  "(it has to stop with an error when it cannot converge)", detail)
                    return
                elif outcome == "value":
                    if not bool(((iv - torch.tensor([0.2, 0.3], dtype=dtype)).abs() <= 1e-3).all()):
                        ctx.violation("iv:unreachable-precision:value", "implied_volatility returned without an error for an unreachable precision, and not near the generating volatility",
                                      {**detail, "implied": iv.tolist()})
                elif outcome != "error":
                    ctx.violation("iv:unreachable-precision:raises", f"implied_volatility {outcome} for an unreachable precision (the documented outcome is RuntimeError)", detail)
    finally:
        signal.signal(signal.SIGALRM, old)


def check(ctx: Ctx) -> None:
    from pfhedge._utils.bisect import bisect
    with ThreadPoolExecutor(max_workers=4) as ex:
        results = list(ex.map(lambda c: ctx.tlc("MC_Bisect", f"MC_Bisect_{c}.cfg", workers=6), CFGS[ctx.tier]))
    n = 0
    for res in results:
        require_actions(res, ["Bracket", "Direction", "Test", "Mid", "Eval", "Update", "Return"])
        if not res.records:
            raise MachineryError(f"{res.cfg}: no record")
        for k, r in enumerate(res.records):
            if r["P"] == 0:
                replay_record(ctx, bisect, r, 1.0, 2.0 ** -52)            # one grid unit = one ulp
            else:
                replay_record(ctx, bisect, r, -1.0, 0.25)
                if k % 5 == 0:
                    replay_record(ctx, bisect, r, 3.0, 2.0 ** -10)
                if k % 9 == 0:
                    replay_record(ctx, bisect, r, 2.0, 2.0 ** -6, dtype=torch.float32)
            ctx.distinct.add(json.dumps([r["F"], r["target"], r["P"], r["maxIter"]]))
            n += 1
            if k % 3001 == 0:
                ctx.sample({"bisect_behaviour": r})
    # binding demonstration: a behaviour with a corrupted trajectory / result is rejected
    probe = Ctx.__new__(Ctx)
    probe.__dict__.update({"_per_key": {}, "violations": [], "findings": [], "known_hits": {}, "evaluations": 0, "distinct": set()})
    good = next(r for r in results[0].records if r["status"] == "returned" and r["P"] == 1 and len(r["evals"]) >= 3)
    bad = json.loads(json.dumps(good))
    bad["result"] = [bad["result"][0] - 1]                          # "returns lower"
    replay_record(probe, bisect, bad, -1.0, 0.25)
    ctx.selftest("a behaviour whose result is the lower end of the final bracket is rejected", len(probe.violations) == 1)
    continuous_cases(ctx, bisect)
    implied_vol(ctx)
    implied_vol_mixed_batches(ctx)
    implied_vol_unreachable_precision(ctx)
    bisect_mixed_dtypes(ctx, bisect)
    ctx.traces_validated = n
    ctx.exhaustive = True
    ctx.rule = ("every terminal behaviour of Bisect.tla (all monotone tables on 9 grid points with values 0..3, all targets, precisions 0/1/2/4 units, "
                "max_iter 2/20; two elements on 5 points) replayed with exact trajectory comparison; plus WithinPrecision on 7 continuous families x brackets x "
                "precisions x shapes and implied-volatility round trips; distinct = distinct behaviour / configuration")
    ctx.assumptions += ["mixed monotonicity across elements of one call is not demanded",
                        "implied-volatility cases where the float price does not separate v-precision, v, v+precision are skipped and counted"]


if __name__ == "__main__":
    raise SystemExit(run_check("C19", check))
