"""C08 (partial: automatic Greeks) - Greeks are the derivatives of the price.

AutoGreek.tla models the dataflow of pfhedge.autogreek (ParseLeaf with its spelling priority, Rederive, Filter by the
pricer's signature, Differentiate) and evaluates polynomial pricers over second-order jets of exact rationals; TLC checks
PricerCallable and JetEqualsCentralDifference (the jets equal exact central differences of the price as a function of
spot / volatility / time with every dependent spelling recomputed) for all pricer signatures x caller spellings x points.
Replay: real Python pricers with exactly those signatures are generated and pfhedge.autogreek.delta/gamma/vega/theta, and
the default Greeks of a BS module mixin, are compared with the jets.
NOT decided (DESIGN.md 4): that the closed-form Greeks of the bs_* functions are the derivatives of the closed-form prices.
"""
from __future__ import annotations

import json
import math
import warnings
from typing import Any, Callable, Dict, List

import torch

from lib.core import Ctx, run_check
from lib.doubles import frf
from lib.tlc import MachineryError, require_actions

DT = torch.float64


def make_pricer(pr: Dict[str, Any]) -> Callable[..., torch.Tensor]:
    names = [pr["xarg"], pr["yarg"], "time_to_maturity"] + (["strike"] if pr["strike"] else [])
    c = pr["c"]
    body = (f"    x = {pr['xarg']}; y = {pr['yarg']}; t = time_to_maturity\n"
            f"    out = {c[0]} + {c[1]} * x + {c[2]} * x * x + {c[3]} * x * y + {c[4]} * y * y + {c[5]} * x * t + {c[6]} * y * t\n"
            + ("    out = out + strike * x\n" if pr["strike"] else "") + "    return out\n")
    ns: Dict[str, Any] = {}
    exec(f"def pricer({', '.join(names)}):\n" + body, ns)
    return ns["pricer"]


def caller_kwargs(caller: str, S: float, K: float, n: int) -> Dict[str, Any]:
    st = torch.full((n,), S, dtype=DT)
    if caller == "spot":
        return {"spot": st}
    if caller == "spot+strike":
        return {"spot": st, "strike": K}
    if caller == "moneyness+strike":
        return {"moneyness": st / K, "strike": K}
    return {"log_moneyness": (st / K).log(), "strike": K}


def replay(ctx: Ctx, recs: List[Dict[str, Any]]) -> None:
    import pfhedge.autogreek as ag
    n = 3
    for rec in recs:
        pt, pr, caller, greek = rec["pt"], rec["pr"], rec["caller"], rec["greek"]
        S, K, sig, t = float(pt["S"]), float(pt["K"]), pt["sig"] / 4, pt["t"] / 4
        pricer = make_pricer(pr)
        e = frf(rec["value"])
        for decoy in (False, True):
            kw = caller_kwargs(caller, S, K, n)
            kw["time_to_maturity"] = torch.full((n,), t, dtype=DT)
            kw[rec["volcaller"]] = torch.full((n,), sig if rec["volcaller"] == "volatility" else sig * sig, dtype=DT)
            if decoy:
                # lower-priority spellings carrying junk: delta/gamma must ignore them (spot wins) or recompute them from the
                # spot (a strike is given); vega must recompute the variance from the volatility
                if greek in ("delta", "gamma") and "spot" in kw and "strike" in kw:
                    kw["moneyness"] = torch.full((n,), 99.0, dtype=DT)
                    kw["log_moneyness"] = torch.full((n,), -7.0, dtype=DT)
                elif greek in ("delta", "gamma") and "moneyness" in kw:
                    kw["log_moneyness"] = torch.full((n,), -7.0, dtype=DT)
                elif greek == "vega" and rec["volcaller"] == "volatility":
                    kw["variance"] = torch.full((n,), 55.0, dtype=DT)
                else:
                    continue
            detail = {"greek": greek, "pricer_signature": [pr["xarg"], pr["yarg"]] + (["strike"] if pr["strike"] else []), "coefficients": pr["c"],
                      "caller_gives": sorted(k for k in kw), "point": pt, "decoy_spellings": decoy}
            try:
                with warnings.catch_warnings():
                    warnings.simplefilter("ignore")
                    args = {k: (v.clone() if isinstance(v, torch.Tensor) else v) for k, v in kw.items()}
                    first = getattr(ag, greek)(pricer, **args)
                    got = getattr(ag, greek)(pricer, **args)            # the same tensor objects again: a Greek is a function of its arguments
            except Exception as ex:
                ctx.violation(f"autogreek:{greek}:raises", f"autogreek.{greek} raised {type(ex).__name__} for an accepted parameter combination", {**detail, "error": repr(ex)[:300]})
                continue
            ctx.count(n=1)
            if not torch.equal(first, got):
                ctx.violation(f"autogreek:{greek}:repeat", f"autogreek.{greek} evaluated twice on the same argument tensors gives two different results (state is kept on the caller's tensors)",
                              {**detail, "first": first.flatten().tolist()[:3], "second": got.flatten().tolist()[:3]})
                continue
            touched = [k for k, v in args.items() if isinstance(v, torch.Tensor) and (v.grad is not None or not torch.equal(v, kw[k]))]   # (requires_grad_() on the leaf is pfhedge's documented way of differentiating and is not counted)
            if touched:
                ctx.violation(f"autogreek:{greek}:arguments-modified", f"autogreek.{greek} left an accumulated gradient or new values on the caller's tensors {touched}", detail)
                continue
            if got.dtype != DT:
                ctx.violation(f"autogreek:{greek}:dtype", f"autogreek.{greek} of float64 inputs is returned in {got.dtype} (the differentiation leaf was re-cast)", detail)
                continue
            if got.shape != (n,) or not bool(((got - e).abs() <= 1e-11 * (1 + abs(e))).all()):
                ctx.violation(f"autogreek:{greek}:{pr['xarg']}:{pr['yarg']}", f"autogreek.{greek} is not the derivative of the pricer's own price (pricer parameterised by {pr['xarg']}/{pr['yarg']}, caller gives {caller}/{rec['volcaller']})",
                              {**detail, "expected": e, "observed": got.flatten().tolist()[:3]})


def module_plumbing(ctx: Ctx, recs: List[Dict[str, Any]]) -> None:
    """Default Greeks of a Black-Scholes module (BSModuleMixin) are autogreek of the module's OWN price with all arguments forwarded."""
    from pfhedge.nn.modules.bs._base import BSModuleMixin
    for rec in recs:
        pt, pr, greek = rec["pt"], rec["pr"], rec["greek"]
        S, K, sig, t = float(pt["S"]), float(pt["K"]), pt["sig"] / 4, pt["t"] / 4
        fn = make_pricer(pr)

        class PolyModule(BSModuleMixin):
            pass
        PolyModule.price = staticmethod(fn)          # keeps the pricer's signature visible to autogreek's filtering
        m = PolyModule()
        kw = caller_kwargs(rec["caller"], S, K, 2)
        kw["time_to_maturity"] = torch.full((2,), t, dtype=DT)
        kw[rec["volcaller"]] = torch.full((2,), sig if rec["volcaller"] == "volatility" else sig * sig, dtype=DT)
        try:
            got = getattr(m, greek)(**{k: (v.clone() if isinstance(v, torch.Tensor) else v) for k, v in kw.items()})
        except Exception as ex:
            ctx.violation(f"module:{greek}:raises", f"BSModuleMixin.{greek} raised {type(ex).__name__}", {"error": repr(ex)[:200], "pricer": pr, "caller": rec["caller"]})
            continue
        ctx.count(n=1)
        e = frf(rec["value"])
        if not bool(((got - e).abs() <= 1e-11 * (1 + abs(e))).all()):
            ctx.violation(f"module:{greek}", f"the default {greek} of a BS module is not the automatic derivative of the module's own price", {"point": pt, "pricer": pr, "expected": e, "observed": got.tolist()})


def bound_modules_after_strike_change(ctx: Ctx) -> None:
    """A module built from a derivative whose strike is changed afterwards: whichever strike the module then uses, its Greeks are
    the derivatives of ITS OWN price (all five methods must use the same one)."""
    from checks.c07 import classes, make_derivative
    from pfhedge.nn import BlackScholes
    lm0 = torch.tensor([-0.25, -0.0625, 0.125], dtype=DT)
    for p in classes():
        d = make_derivative(p, True, 1.0)
        m = BlackScholes(d)
        d.strike = 2.5                                               # the contract is re-struck after the module was built
        spot = (lm0.exp() * 1.0).clone().requires_grad_(True)
        t = torch.full_like(lm0, 0.5).requires_grad_(True)
        v = torch.full_like(lm0, 0.25).requires_grad_(True)
        kw = {"log_moneyness": (spot / 1.0).log(), "time_to_maturity": t, "volatility": v}
        if p in ("american_binary", "lookback"):
            kw["max_log_moneyness"] = torch.tensor([-0.125, -0.0625, 0.25], dtype=DT)
        try:
            price = m.price(**kw)
            (dl,) = torch.autograd.grad(price.sum(), spot, create_graph=True)
            (gm,) = torch.autograd.grad(dl.sum(), spot, retain_graph=True)
            vg, dt_ = torch.autograd.grad(price.sum(), [v, t])
            ad = {"delta": dl.detach(), "gamma": gm.detach(), "vega": vg, "theta": -dt_}
            plain = {k: x.detach() for k, x in kw.items()}
            got = {g: getattr(m, g)(**{k: x.clone() for k, x in plain.items()}).detach() for g in ad}
        except Exception as ex:
            ctx.violation(f"bound-module:{p}:raises", f"a module built from a {p} derivative raised {type(ex).__name__} after the derivative's strike was changed", {"error": repr(ex)[:300]})
            continue
        for g in ad:
            ctx.count(n=1)
            if not bool(((got[g] - ad[g]).abs() <= 1e-7 * (ad[g].abs() + 1e-6)).all()):
                ctx.violation(f"bound-module:{p}:{g}", f"{type(m).__name__} built from a derivative whose strike was changed afterwards: {g} is not the derivative of the module's own price "
                              "(the methods use different strikes)", {"greek": got[g].tolist(), "derivative_of_own_price": ad[g].tolist()})


def bound_modules_without_arguments(ctx: Ctx) -> None:
    """A module built from a simulated derivative with several paths: every Greek called WITHOUT arguments is, element by
    element, the Greek at the derivative's simulated state (same shape and values as the call with that state given explicitly)."""
    from checks.c07 import classes, make_derivative, state_of
    from pfhedge.nn import BlackScholes
    for p in classes():
        for heston in (False, True):
            d = make_derivative(p, True, 1.1, heston=heston)
            m = BlackScholes(d)
            st = {k: v for k, v in state_of(d).items() if k in m.inputs()}
            for g in ("price", "delta", "gamma", "vega", "theta"):
                try:
                    bare = getattr(m, g)().detach()
                    full = getattr(m, g)(**{k: v.clone() for k, v in st.items()}).detach()
                except Exception as ex:
                    ctx.violation(f"bound-module:{p}:{g}:raises", f"{type(m).__name__}.{g}() without arguments raised {type(ex).__name__}", {"error": repr(ex)[:200]})
                    continue
                ctx.count(n=1)
                if bare.shape != full.shape or not bool((((bare - full).abs() <= 1e-12 * (1 + full.abs())) | (bare.isnan() & full.isnan())).all()):
                    ctx.violation(f"bound-module:{p}:{g}:no-arguments", f"{type(m).__name__}.{g}() without arguments is not the {g} at the derivative's simulated state (one value per path and step)",
                                  {"shape_without_arguments": list(bare.shape), "shape_with_state": list(full.shape), "underlier": type(d.ul()).__name__})


def closed_forms(ctx: Ctx) -> Dict[str, int]:
    """Every closed-form Greek (functional forms and modules) against the derivative of the same product's own price on the
    lattice of BSAlgebra.tla: which Greek is which derivative (variable, order, sign) comes from the specification, the
    derivative of the code's price from the harness's own differentiation graph (spot as the leaf, running maximum fixed)."""
    from checks import bs_common
    from lib.bsgrid import Grid
    tier = "thorough" if ctx.tier == "thorough" else "quick"
    alg = ctx.tlc("MC_BSAlgebra", f"MC_BSAlgebra_{'t' if tier == 'thorough' else 'q'}_C08.cfg", workers=8)
    if len(alg.records) < 1000:
        raise MachineryError("BSAlgebra: too few Greek obligations")
    grid = Grid(tier)
    seen = bs_common.evaluate(ctx, grid, alg.records, "C08")
    if tier == "quick" or True:
        # the same obligations in another physical regime (short-dated, near the money, low-priced): same index lattice
        micro = Grid("quick_micro")
        if micro.shape == grid.shape:
            bs_common.evaluate(ctx, micro, [r for r in alg.records if r["ob"]["kind"] == "greek_is_derivative"], "C08")
            ctx.sections["greek_obligations_micro_regime"] = micro.sizes()
    # the modules' Greeks (closed form or automatic) are the same derivatives
    from checks.c07 import classes
    from lib.bsgrid import PATH_DEPENDENT, PUT_OFFERED
    for p, (_, mcls) in classes().items():
        for call in ([True, False] if p in PUT_OFFERED else [True]):
            ad = grid.derivatives(p, call)
            # all modules of this product are built FIRST and stay alive together (a book of several strikes): each one's Greeks
            # are the derivatives of ITS OWN price, whatever was constructed after it
            book = [mcls(call=call, strike=K) for K in grid.ax["strike"]]
            for ki, K in enumerate(grid.ax["strike"]):
                m = book[ki]
                sl = (slice(None), slice(None), slice(None), ki, slice(None))
                kw = {"log_moneyness": grid.lm[sl], "time_to_maturity": grid.t[sl], "volatility": grid.v[sl]}
                if p in PATH_DEPENDENT:
                    kw["max_log_moneyness"] = grid.mlm[sl]
                for g in ("delta", "gamma", "vega", "theta"):
                    try:
                        args = {k: v.clone() for k, v in kw.items()}
                        first = getattr(m, g)(**args).detach()
                        got = getattr(m, g)(**args).detach()
                        if not torch.equal(first.nan_to_num(), got.nan_to_num()):
                            ctx.violation(f"module:{p}:{g}:repeat", f"{mcls.__name__}.{g} evaluated twice on the same argument tensors gives two different results", {"strike": K, "call": call})
                            continue
                    except Exception as ex:
                        ctx.violation(f"module:{p}:{g}:raises", f"{mcls.__name__}.{g} raised {type(ex).__name__} inside the open domain", {"error": repr(ex)[:300], "strike": K})
                        continue
                    want, unit = ad[g][sl], grid.unit(p, g)[sl]
                    ctx.count(n=got.numel())
                    bad = ~((got - want).abs() <= 1e-7 * (want.abs() + 1e-6 * unit))
                    if bool(bad.any()):
                        i = tuple(int(x) for x in bad.nonzero()[0])
                        ctx.violation(f"greek:{p}:{g}", f"{g} of the {p} option ({'call' if call else 'put'}) is not the derivative of its own price ({mcls.__name__})",
                                      {"call": call, "at": grid.describe((i[0], i[1], i[2], ki, i[3])), "module": got[i].item(), "derivative_of_price": want[i].item()})
    for r in alg.records:
        ctx.distinct.add(json.dumps(r["ob"], sort_keys=True))
    ctx.sample(alg.records[0])
    # binding: an obligation naming the wrong derivative must be rejected
    probe = Ctx.__new__(Ctx)
    probe.__dict__.update({"_per_key": {}, "violations": [], "findings": [], "known_hits": {}, "evaluations": 0, "distinct": set(), "skipped": {}})
    wrong = [json.loads(json.dumps(r)) for r in alg.records if r["ob"]["p"] == "european" and r["ob"]["greek"] == "vega"][:60]
    for w in wrong:
        w["ob"]["greek"] = "theta"                                   # "theta is the derivative with respect to volatility"
    real = grid.derivatives
    grid.derivatives = lambda p, call: {**real(p, call), "theta": real(p, call)["vega"]}
    try:
        bs_common.evaluate(probe, grid, wrong, "C08")
    finally:
        grid.derivatives = real
    ctx.selftest("theta compared with the volatility derivative is rejected", any(v["key"] == "greek:european:theta" for v in probe.violations))
    ctx.sections["obligations_by_kind"] = seen
    ctx.sections["lattice"] = {**grid.sizes(), **{k: v for k, v in grid.ax.items()}}
    return seen


def check(ctx: Ctx) -> None:
    torch.set_default_dtype(torch.float64)
    closed_forms(ctx)
    from checks import bs_common
    from lib.bsgrid import Grid
    bs_common.strike_spelling(ctx, "greeks")
    bs_common.inplace_between_calls(ctx)
    bs_common.broadcasting(ctx, "greeks")
    bs_common.python_strike_on_lattice(ctx, Grid("quick"), greeks=("delta", "gamma", "vega", "theta"))
    bs_common.batch_consistency(ctx, Grid("quick"), greeks=("delta", "gamma", "vega", "theta"))
    bound_modules_after_strike_change(ctx)
    bound_modules_without_arguments(ctx)
    torch.set_default_dtype(torch.float32)
    res = ctx.tlc("MC_AutoGreek", "MC_AutoGreek.cfg", workers=8)
    require_actions(res, ["ParseLeaf", "Rederive", "Filter", "Differentiate"])
    recs = res.records
    if len(recs) < 100:
        raise MachineryError("AutoGreek: too few cases")
    replay(ctx, recs)
    module_plumbing(ctx, recs)
    for r in recs:
        ctx.distinct.add(json.dumps([r["pt"], r["pr"], r["caller"], r["volcaller"], r["greek"]]))
    ctx.sample(recs[0]); ctx.sample(recs[-1])
    probe = Ctx.__new__(Ctx)
    probe.__dict__.update({"_per_key": {}, "violations": [], "findings": [], "known_hits": {}, "evaluations": 0, "distinct": set()})
    bad = json.loads(json.dumps(next(r for r in recs if r["greek"] == "delta" and r["pr"]["xarg"] == "moneyness" and r["pt"]["K"] != 1 and r["value"][0] != 0)))
    bad["value"] = [bad["value"][0] * bad["pt"]["K"] * bad["pt"]["K"], bad["value"][1]]        # "multiplied by the strike instead of divided"
    replay(probe, [bad])
    ctx.selftest("a delta with the wrong strike factor is rejected", any(v["key"].startswith("autogreek:delta") for v in probe.violations))
    ctx.traces_validated = len(recs)
    ctx.exhaustive = True
    ctx.rule = ("every Greek obligation of BSAlgebra.tla on the lattice (4 products x call/put where offered x delta/gamma/vega/theta x every lattice point and running maximum) for the "
                "functional forms and the modules; and "
                "every admissible (point, pricer signature in {spot, moneyness, log_moneyness} x {volatility, variance} x strike?, 3 coefficient vectors, caller spelling) of AutoGreek.tla, "
                "per Greek exactly the combinations autogreek accepts, each also replayed with junk lower-priority spellings; distinct = distinct (point, pricer, caller, Greek)")
    ctx.assumptions += ["closed-form Greeks: decided on the dyadic lattice of BSAlgebra.tla (open domain, both branches of the running maximum) against torch.autograd of the code's own "
                        "price, tolerance 1e-7 relative; between lattice points nothing is decided",
                        "log-moneyness pricers are evaluated at S = K (log(S/K) = 0 exactly)"]


if __name__ == "__main__":
    raise SystemExit(run_check("C08", check))
