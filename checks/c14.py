"""C14 - loss gradients through the hedger are the true gradients.

Grad.tla evaluates the hedging pipeline (features, model with the recurrent prev_hedge input, positions, transaction
costs, P&L, criterion) over dual numbers of exact rationals, i.e. it differentiates the SPECIFICATION'S loss in forward
mode with respect to the model (and criterion) parameters; TLC enumerates integer markets x configurations x criteria at
generic parameter points.  Replay: the real Hedger on a scripted market must return the same loss and, through
torch.autograd (reverse mode through simulation data, features, prev_hedge, costs, pl(), criterion), exactly the same
gradient, in both evaluation branches and in training and evaluation mode of the module.  The grad-mode protocol
(price() and compute_loss(enable_grad=False) carry no graph) is replayed as well.  Criteria without an exact rational
form (entropic risk, quadratic CVaR, entropic/isoelastic loss) are compared with central finite differences on the same paths.
"""
from __future__ import annotations

import json
import math
import warnings
from typing import Any, Dict, List

import torch

from lib.core import Ctx, run_check
from lib.doubles import DecodeLinear, LOG_FEATURES, ScriptedPrimary, feature_columns, fr, frf, make_feature
from lib.tlc import MachineryError

DT = torch.float64


def u_poly(z: torch.Tensor) -> torch.Tensor:
    return z - z.square() / 8


def criterion_for(name: str):
    from pfhedge.nn import ExpectedShortfall
    from pfhedge.nn.modules.loss import OCE
    if name == "es_half":
        return ExpectedShortfall(0.5)
    if name == "es_one":
        return ExpectedShortfall(1.0)
    if name == "mse":
        return torch.nn.MSELoss()
    if name == "oce":
        c = OCE(u_poly)
        with torch.no_grad():
            c.w.fill_(1.0)
        return c.to(DT)
    raise KeyError(name)


def build(rec: Dict[str, Any]):
    from pfhedge.instruments import EuropeanOption
    from pfhedge.nn import Hedger
    cfg = rec["cfg"]
    T = len(rec["p1"])
    spot = torch.tensor([rec["p1"], rec["p2"]], dtype=DT)
    stock = ScriptedPrimary([{"spot": spot, "variance": torch.full_like(spot, 4.0)}], cost=frf(cfg["cost"]), dt=0.25, dtype=DT)
    deriv = EuropeanOption(stock, strike=2.0, maturity=(T - 1) * 0.25)
    feats = list(cfg["feats"])
    cols = feature_columns(feats, 1)
    model = DecodeLinear([[float(w) for w in cfg["W"]]], [float(cfg["B"])], cfg["kind"] == "relu", [i for i, c in enumerate(cols) if c in LOG_FEATURES], dtype=DT, record=False)
    crit = criterion_for(rec["crit"])
    hedger = Hedger(model, [make_feature(f, 1, DT) for f in feats], criterion=crit)
    return stock, deriv, model, crit, hedger


def replay(ctx: Ctx, recs: List[Dict[str, Any]]) -> None:
    for rec in recs:
        exp_loss = frf(rec["loss"])
        exp_grad = [frf(g) for g in rec["grad"]]
        for mode in ("train", "eval"):
            stock, deriv, model, crit, hedger = build(rec)
            hedger.train() if mode == "train" else hedger.eval()
            params = [model.lin.weight, model.lin.bias] + ([crit.w] if rec["crit"] == "oce" else [])
            detail = {"p1": rec["p1"], "p2": rec["p2"], "cfg": rec["cfg"], "criterion": rec["crit"], "module_mode": mode,
                      "branch": "stepwise" if "prev_hedge" in rec["cfg"]["feats"] else "batched"}
            try:
                loss = hedger.compute_loss(deriv, n_paths=2)
                grads = torch.autograd.grad(loss, params, allow_unused=True)
            except Exception as e:
                ctx.violation(f"grad:raises:{detail['branch']}", f"computing the loss gradient raised {type(e).__name__}", {**detail, "error": repr(e)[:300]})
                continue
            ctx.count(n=1)
            flat: List[float] = []
            for g, p in zip(grads, params):
                flat += [0.0] * p.numel() if g is None else g.flatten().tolist()
            scale = 1 + abs(exp_loss) + max(abs(g) for g in exp_grad)
            if not abs(loss.item() - exp_loss) <= 1e-12 * scale:
                ctx.violation(f"grad:loss-value:{detail['branch']}", "the loss differs from the specification's loss on the same paths", {**detail, "expected": exp_loss, "observed": loss.item()})
                continue
            bad = [i for i, (a, b) in enumerate(zip(flat, exp_grad)) if not abs(a - b) <= 1e-12 * scale]
            if bad or len(flat) != len(exp_grad):
                which = "recurrent" if "prev_hedge" in rec["cfg"]["feats"] else "feed-forward"
                ctx.violation(f"grad:value:{detail['branch']}:{mode}", f"back-propagated gradient differs from the true derivative of the loss ({which} model, module in {mode} mode)",
                              {**detail, "expected": exp_grad, "observed": flat, "wrong_components": bad})


def grad_mode_protocol(ctx: Ctx, recs: List[Dict[str, Any]]) -> None:
    """price() (default) and compute_loss(enable_grad=False) carry no graph; compute_loss() does."""
    for rec in recs:
        stock, deriv, model, crit, hedger = build(rec)
        for mode in ("train", "eval"):
            hedger.train() if mode == "train" else hedger.eval()
            for n_times in (1, 2):
                ctx.count(n=1)
                a = hedger.compute_loss(deriv, n_paths=2, n_times=n_times, enable_grad=False)
                if a.requires_grad or a.grad_fn is not None:
                    ctx.violation("gradmode:loss-disabled-has-graph", "compute_loss(enable_grad=False) returns a tensor that carries a graph", {"criterion": rec["crit"], "mode": mode, "n_times": n_times})
                b = hedger.compute_loss(deriv, n_paths=2, n_times=n_times)
                if not b.requires_grad:
                    ctx.violation("gradmode:loss-default-no-graph", "compute_loss() with gradients enabled returns a tensor without a graph", {"criterion": rec["crit"], "mode": mode})
                if hasattr(crit, "cash"):
                    try:
                        c = hedger.price(deriv, n_paths=2, n_times=n_times)
                    except Exception:
                        continue
                    if c.requires_grad or c.grad_fn is not None:
                        ctx.violation("gradmode:price-has-graph", "price() (default) returns a tensor that carries a graph", {"criterion": rec["crit"], "mode": mode})
        with torch.no_grad():
            ctx.count(n=1)
            d = hedger.compute_loss(deriv, n_paths=2)           # enable_grad=True is the default: the method enables gradients itself
            if not d.requires_grad:
                ctx.violation("gradmode:enable-grad-ignored", "compute_loss(enable_grad=True) inside torch.no_grad() returns a tensor without a graph", {"criterion": rec["crit"]})


def finite_differences(ctx: Ctx) -> None:
    """Criteria without an exact rational form: autograd vs central differences on the same paths (relative 1e-5)."""
    from pfhedge.instruments import BrownianStock, EuropeanOption, HestonStock
    from pfhedge.nn import EntropicLoss, EntropicRiskMeasure, ExpectedShortfall, Hedger, IsoelasticLoss, MultiLayerPerceptron, QuadraticCVaR
    from pfhedge.nn.modules.loss import OCE
    torch.manual_seed(ctx.seed + 21)
    crits = [("EntropicRiskMeasure", lambda: EntropicRiskMeasure(1.5)), ("QuadraticCVaR", lambda: QuadraticCVaR(2.0)), ("EntropicLoss", lambda: EntropicLoss(0.7)),
             ("ExpectedShortfall", lambda: ExpectedShortfall(0.3)), ("OCE", lambda: OCE(lambda z: -torch.exp(-z)).to(DT)), ("MSELoss", lambda: torch.nn.MSELoss())]
    for cname, mk in crits:
        for feats in (["log_moneyness", "time_to_maturity", "volatility"], ["log_moneyness", "time_to_maturity", "volatility", "prev_hedge"]):
            for cost in (0.0, 1e-2):
                for mode in ("train", "eval"):
                    for H in (1, 2):
                        stock = HestonStock(cost=cost, dt=1 / 20, dtype=DT)
                        deriv = EuropeanOption(stock, maturity=6 / 20)
                        deriv.simulate(n_paths=24)
                        hedge = None
                        if H == 2:
                            other = EuropeanOption(stock, maturity=6 / 20, strike=1.05)
                            other.list(lambda d: (d.ul().spot - 1.0) * 0.5 + 0.1, cost=cost / 2)
                            hedge = [stock, other]
                        n_in = len(feats) + (H - 1 if "prev_hedge" in feats else 0)
                        model = torch.nn.Sequential(torch.nn.Linear(n_in + 2, 5, dtype=DT), torch.nn.Tanh(), torch.nn.Linear(5, H, dtype=DT))
                        crit = mk()
                        # a trainable feature extractor (ModuleOutput): gradients must also flow through the FEATURES
                        from pfhedge.features import ModuleOutput
                        extractor = torch.nn.Sequential(torch.nn.Linear(2, 2, dtype=DT), torch.nn.Tanh())
                        hedger = Hedger(model, [ModuleOutput(extractor, ["log_moneyness", "time_to_maturity"])] + list(feats), criterion=crit)
                        hedger.extractor = extractor          # registered so that hedger.parameters() contains its parameters
                        hedger.train() if mode == "train" else hedger.eval()

                        def loss_fn() -> torch.Tensor:
                            return hedger.criterion(hedger.compute_portfolio(deriv, hedge=hedge), deriv.payoff())
                        params = [p for p in hedger.parameters()]
                        try:
                            g = torch.autograd.grad(loss_fn(), params, allow_unused=True)
                        except Exception as e:
                            ctx.violation(f"fd:raises:{cname}", f"back-propagation raised {type(e).__name__}", {"criterion": cname, "feats": feats, "H": H, "error": repr(e)[:200]})
                            continue
                        ctx.count((cname, tuple(feats), cost, mode, H), n=1)
                        worst = 0.0
                        with torch.no_grad():
                            for p, gp in zip(params, g):
                                flat = p.view(-1)
                                for i in range(0, flat.numel(), max(1, flat.numel() // 4)):
                                    old = flat[i].item()
                                    h = 1e-6
                                    flat[i] = old + h; up = loss_fn().item()
                                    flat[i] = old - h; dn = loss_fn().item()
                                    flat[i] = old
                                    fd = (up - dn) / (2 * h)
                                    ad = 0.0 if gp is None else gp.view(-1)[i].item()
                                    e_ = abs(fd - ad) / (1e-4 + abs(fd) + abs(ad))
                                    worst = max(worst, e_ if math.isfinite(e_) else float("inf"))     # (NaN compares false with everything)
                        if worst > 2e-4:
                            ctx.violation(f"fd:{cname}:{'stepwise' if 'prev_hedge' in feats else 'batched'}:{mode}", "back-propagated gradient differs from central finite differences on the same paths",
                                          {"criterion": cname, "feats": feats, "cost": cost, "module_mode": mode, "H": H, "relative_error": worst})


def _fd_compare(ctx: Ctx, key: str, what: str, loss_fn, params, detail) -> None:
    try:
        g = torch.autograd.grad(loss_fn(), params, allow_unused=True)
    except Exception as e:
        ctx.violation(f"{key}:raises", f"back-propagation raised {type(e).__name__}: {what}", {**detail, "error": repr(e)[:200]})
        return
    ctx.count(n=1)
    worst, where = 0.0, None
    with torch.no_grad():
        for pi, (p, gp) in enumerate(zip(params, g)):
            flat = p.view(-1)
            for i in range(0, flat.numel(), max(1, flat.numel() // 4)):
                old = flat[i].item()
                h = 1e-6
                flat[i] = old + h; up = loss_fn().item()
                flat[i] = old - h; dn = loss_fn().item()
                flat[i] = old
                fd = (up - dn) / (2 * h)
                ad = 0.0 if gp is None else gp.view(-1)[i].item()
                err = abs(fd - ad) / (1e-4 + abs(fd) + abs(ad))
                if not math.isfinite(err):               # a NaN / infinite gradient is not the derivative of a finite loss
                    err = float("inf")
                if err > worst:
                    worst, where = err, {"parameter": pi, "index": i, "finite_difference": fd, "autograd": ad}
    if worst > 2e-4:
        ctx.violation(key, f"back-propagated gradient differs from central finite differences on the same paths: {what}", {**detail, "relative_error": worst, **(where or {})})


def trainable_parts_outside_the_model(ctx: Ctx) -> None:
    """The trainable parameters are not where the usual example puts them: (i) the hedger's model has NO trainable parameter
    (a fixed formula; a frozen network) and the parameters sit in a ModuleOutput feature; (ii) the parameters are the BOUNDS of
    a Clamp - one learnable number used for all paths, and the no-transaction band of one single path (bounds with exactly one
    element).  In every case the gradient that back-propagation gives to those parameters is the derivative of the loss."""
    from pfhedge.features import ModuleOutput
    from pfhedge.instruments import BrownianStock, EuropeanOption
    from pfhedge.nn import Clamp, EntropicRiskMeasure, Hedger
    from pfhedge.nn.modules.loss import OCE

    class Fixed(torch.nn.Module):                   # no parameter at all
        def forward(self, x):
            return torch.tanh(x.sum(-1, keepdim=True))

    def frozen():
        m = torch.nn.Sequential(torch.nn.Linear(2, 3, dtype=DT), torch.nn.Tanh(), torch.nn.Linear(3, 1, dtype=DT))
        for p in m.parameters():
            p.requires_grad_(False)
        return m

    class LearnedBounds(torch.nn.Module):           # one learnable lower and upper bound (0-dim parameters) for every path
        def __init__(self):
            super().__init__()
            self.lin = torch.nn.Linear(2, 1, dtype=DT)
            self.lo = torch.nn.Parameter(torch.tensor(-0.05, dtype=DT))
            self.hi = torch.nn.Parameter(torch.tensor(0.35, dtype=DT))
            self.clamp = Clamp()

        def forward(self, x):
            return self.clamp(self.lin(x) * 3, self.lo, self.hi)

    class Band(torch.nn.Module):                    # no-transaction band around a learned centre: per-path bounds
        def __init__(self):
            super().__init__()
            self.lin = torch.nn.Linear(2, 2, dtype=DT)
            self.clamp = Clamp()

        def forward(self, x):
            prev = x[..., [-1]]
            c = self.lin(x[..., :2])
            centre, width = torch.sigmoid(c[..., [0]]), torch.nn.functional.softplus(c[..., [1]]) * 0.05
            return self.clamp(prev, centre - width, centre + width)

    # (iii) a built-in Black-Scholes model fed by a TRAINABLE volatility feature (a calibrated volatility surface in front of the
    # closed-form delta), evaluated for all steps at once and step by step
    from pfhedge.nn import BlackScholes, WhalleyWilmott

    class VolSurface(torch.nn.Module):
        def __init__(self):
            super().__init__()
            self.level = torch.nn.Parameter(torch.tensor(0.2, dtype=DT))
            self.skew = torch.nn.Parameter(torch.tensor(-0.05, dtype=DT))

        def forward(self, x):
            return torch.nn.functional.softplus(self.level + self.skew * x[..., :1] + 0.1 * x[..., 1:2])

    torch.manual_seed(ctx.seed + 34)
    # (BlackScholes of a lookback option is not among them: its delta is itself an automatic derivative, returned without a graph)
    for dcls, mk in ((EuropeanOption, BlackScholes), (EuropeanOption, WhalleyWilmott)):
        for stepwise in (False, True):
            stock = BrownianStock(cost=1e-2, dt=1 / 20, dtype=DT)
            deriv = dcls(stock, maturity=5 / 20, strike=1.02)
            deriv.simulate(n_paths=6)
            surface = VolSurface()
            model = mk(deriv)
            feats = [ModuleOutput(surface, ["log_moneyness", "time_to_maturity"]) if f == "volatility" else f for f in model.inputs()]
            if stepwise and "prev_hedge" not in model.inputs():
                feats = feats + ["prev_hedge"]

                class WithPrev(torch.nn.Module):        # the same model; the extra prev_hedge column forces the step-by-step evaluation
                    def __init__(self, inner):
                        super().__init__()
                        self.inner = inner

                    def forward(self, x):
                        return self.inner(x[..., :-1])
                model = WithPrev(model)
            hedger = Hedger(model, feats, criterion=EntropicRiskMeasure(1.5))

            def loss_fn() -> torch.Tensor:
                return hedger.criterion(hedger.compute_portfolio(deriv), deriv.payoff())
            _fd_compare(ctx, f"fd:trainable-volatility:{mk.__name__}", f"{mk.__name__}({dcls.__name__}) fed by a trainable volatility feature, {'step by step' if stepwise else 'all steps at once'}",
                        loss_fn, list(surface.parameters()), {"model": mk.__name__, "derivative": dcls.__name__, "stepwise": stepwise})

    torch.manual_seed(ctx.seed + 33)
    for n_paths in (1, 2, 7):
        for cname, crit in (("EntropicRiskMeasure", lambda: EntropicRiskMeasure(1.5)), ("OCE", lambda: OCE(lambda z: -torch.exp(-z)).to(DT))):
            if n_paths == 1 and cname == "EntropicRiskMeasure":
                pass
            for label, make in (("parameter-free model, trainable ModuleOutput feature", "fixed"), ("frozen model, trainable ModuleOutput feature", "frozen"),
                                ("learnable scalar Clamp bounds", "bounds"), ("no-transaction band (per-path Clamp bounds)", "band")):
                stock = BrownianStock(cost=1e-2, dt=1 / 20, dtype=DT)
                deriv = EuropeanOption(stock, maturity=5 / 20)
                deriv.simulate(n_paths=n_paths)
                if make in ("fixed", "frozen"):
                    extractor = torch.nn.Sequential(torch.nn.Linear(2, 2, dtype=DT), torch.nn.Tanh())
                    model = Fixed() if make == "fixed" else frozen()
                    hedger = Hedger(model, [ModuleOutput(extractor, ["log_moneyness", "time_to_maturity"])], criterion=crit())
                    params = list(extractor.parameters())
                elif make == "bounds":
                    model = LearnedBounds()
                    hedger = Hedger(model, ["log_moneyness", "time_to_maturity"], criterion=crit())
                    params = list(model.parameters())
                else:
                    model = Band()
                    hedger = Hedger(model, ["log_moneyness", "time_to_maturity", "prev_hedge"], criterion=crit())
                    params = list(model.parameters())
                params += [p for p in hedger.criterion.parameters()]

                def loss_fn() -> torch.Tensor:
                    return hedger.criterion(hedger.compute_portfolio(deriv), deriv.payoff())
                _fd_compare(ctx, f"fd:outside-model:{make}", f"{label}, {n_paths} path(s), {cname}", loss_fn, params, {"setup": label, "n_paths": n_paths, "criterion": cname})


def two_runs_one_graph(ctx: Ctx) -> None:
    """The loss of TWO evaluations of the same hedger (a call and a put book; equal batch shapes) back-propagated together,
    for models whose last operation keeps its output for the backward pass: gradient vs central differences."""
    from pfhedge.instruments import EuropeanOption, HestonStock
    from pfhedge.nn import EntropicRiskMeasure, ExpectedShortfall, Hedger
    torch.manual_seed(ctx.seed + 33)
    for cname, mk in (("EntropicRiskMeasure", lambda: EntropicRiskMeasure(1.5)), ("ExpectedShortfall", lambda: ExpectedShortfall(0.3))):
        for feats in (["log_moneyness", "time_to_maturity", "prev_hedge"], ["log_moneyness", "time_to_maturity", "volatility"]):
            for last in (torch.nn.Tanh, torch.nn.Sigmoid, torch.nn.ReLU):
                books = []
                for call in (True, False):
                    stock = HestonStock(cost=1e-2, dt=1 / 20, dtype=DT)
                    d = EuropeanOption(stock, call=call, maturity=6 / 20)
                    d.simulate(n_paths=16)
                    books.append(d)
                model = torch.nn.Sequential(torch.nn.Linear(len(feats), 5, dtype=DT), torch.nn.Tanh(), torch.nn.Linear(5, 1, dtype=DT), last())
                hedger = Hedger(model, list(feats), criterion=mk())

                def loss_fn() -> torch.Tensor:
                    return sum(hedger.criterion(hedger.compute_portfolio(d), d.payoff()) for d in books)
                params = list(hedger.parameters())
                try:
                    g = torch.autograd.grad(loss_fn(), params, allow_unused=True)
                except Exception as e:
                    ctx.violation(f"fd:two-runs:raises:{cname}", f"back-propagating the sum of two evaluations raised {type(e).__name__}", {"feats": feats, "last": last.__name__, "error": repr(e)[:200]})
                    continue
                ctx.count(("two-runs", cname, tuple(feats), last.__name__), n=1)
                worst = 0.0
                with torch.no_grad():
                    for p, gp in zip(params, g):
                        flat = p.view(-1)
                        for i in range(0, flat.numel(), max(1, flat.numel() // 4)):
                            old = flat[i].item()
                            flat[i] = old + 1e-6; up = loss_fn().item()
                            flat[i] = old - 1e-6; dn = loss_fn().item()
                            flat[i] = old
                            fd = (up - dn) / 2e-6
                            ad = 0.0 if gp is None else gp.view(-1)[i].item()
                            worst = max(worst, abs(fd - ad) / (1e-4 + abs(fd) + abs(ad)))
                if worst > 2e-4:
                    ctx.violation(f"fd:two-runs:{cname}:{'stepwise' if 'prev_hedge' in feats else 'batched'}", "the gradient of a loss summed over two evaluations of the same hedger differs from central finite differences",
                                  {"criterion": cname, "feats": feats, "last_operation": last.__name__, "relative_error": worst})


def lazy_first_use(ctx: Ctx) -> None:
    """The very first evaluation of a hedger whose model has lazy (not yet materialised) layers is the loss of the parameters it
    then has: it equals a second evaluation on the same paths, and its gradient equals central differences."""
    from pfhedge.instruments import BrownianStock, EuropeanOption
    from pfhedge.nn import EntropicRiskMeasure, Hedger, MultiLayerPerceptron
    for feats in (["log_moneyness", "time_to_maturity", "prev_hedge"], ["log_moneyness", "time_to_maturity", "volatility"]):
        for mk_model in (lambda: MultiLayerPerceptron(n_layers=2, n_units=4).to(DT), lambda: torch.nn.Sequential(torch.nn.LazyLinear(4, dtype=DT), torch.nn.Tanh(), torch.nn.LazyLinear(1, dtype=DT), torch.nn.Tanh())):
            torch.manual_seed(ctx.seed + 41)
            stock = BrownianStock(cost=1e-2, dt=1 / 20, dtype=DT)
            d = EuropeanOption(stock, maturity=6 / 20)
            d.simulate(n_paths=16)
            hedger = Hedger(mk_model(), list(feats), criterion=EntropicRiskMeasure(1.5))

            def loss_fn() -> torch.Tensor:
                return hedger.criterion(hedger.compute_portfolio(d), d.payoff())
            try:
                first = loss_fn()                                # materialises the lazy layers
                params = list(hedger.parameters())
                g = torch.autograd.grad(first, params, allow_unused=True)
                again = loss_fn()
            except Exception as e:
                ctx.violation("fd:lazy:raises", f"the first evaluation of a hedger with lazy layers raised {type(e).__name__}", {"feats": feats, "error": repr(e)[:200]})
                continue
            ctx.count(("lazy", tuple(feats)), n=1)
            if abs(first.item() - again.item()) > 1e-13 * (1 + abs(again.item())):
                ctx.violation("fd:lazy:first-loss", "the first loss of a hedger with lazy layers differs from a second evaluation with the same parameters on the same paths",
                              {"feats": feats, "first": first.item(), "second": again.item()})
                continue
            worst = 0.0
            with torch.no_grad():
                for p, gp in zip(params, g):
                    flat = p.view(-1)
                    for i in range(0, flat.numel(), max(1, flat.numel() // 3)):
                        old = flat[i].item()
                        flat[i] = old + 1e-6; up = loss_fn().item()
                        flat[i] = old - 1e-6; dn = loss_fn().item()
                        flat[i] = old
                        fd = (up - dn) / 2e-6
                        ad = 0.0 if gp is None else gp.view(-1)[i].item()
                        worst = max(worst, abs(fd - ad) / (1e-4 + abs(fd) + abs(ad)))
            if worst > 2e-4:
                ctx.violation("fd:lazy:gradient", "the gradient back-propagated from the first evaluation of a hedger with lazy layers differs from central finite differences",
                              {"feats": feats, "relative_error": worst})


def fit_uses_the_gradient(ctx: Ctx) -> None:
    """The update fit() makes with a plain SGD optimiser IS minus the learning rate times the gradient of the loss on that epoch's
    paths (read off the parameter change), also when the parameters already carried a gradient when fit() was entered."""
    from pfhedge.instruments import BrownianStock, EuropeanOption
    from pfhedge.nn import EntropicRiskMeasure, Hedger
    lr = 2.0 ** -4
    for feats in (["log_moneyness", "time_to_maturity", "prev_hedge"], ["log_moneyness", "time_to_maturity", "volatility"]):
        for stale in (False, True):
            torch.manual_seed(ctx.seed + 55)
            model = torch.nn.Sequential(torch.nn.Linear(3, 4, dtype=DT), torch.nn.Tanh(), torch.nn.Linear(4, 1, dtype=DT))
            hedger = Hedger(model, list(feats), criterion=EntropicRiskMeasure(1.5))
            d = EuropeanOption(BrownianStock(cost=1e-2, dt=1 / 20, dtype=DT), maturity=6 / 20)
            if stale:                                            # the user looked at gradient norms before training
                torch.manual_seed(1)
                hedger.compute_loss(d, n_paths=8).backward()
            before = [p.detach().clone() for p in model.parameters()]
            torch.manual_seed(77)
            hedger.fit(d, n_epochs=1, n_paths=16, optimizer=torch.optim.SGD(model.parameters(), lr=lr), verbose=False, validation=False)
            used = [(b - p.detach()) / lr for b, p in zip(before, model.parameters())]
            with torch.no_grad():
                for p, b in zip(model.parameters(), before):
                    p.copy_(b)
            for p in model.parameters():
                p.grad = None
            hedger.train()
            torch.manual_seed(77)
            true = torch.autograd.grad(hedger.compute_loss(d, n_paths=16), list(model.parameters()))
            ctx.count(("fit-gradient", tuple(feats), stale), n=1)
            worst = max(float((u - t).abs().max() / (1e-6 + t.abs().max())) for u, t in zip(used, true))
            if worst > 1e-8:
                ctx.violation("fit:gradient-used", "the parameter change of one fit() epoch with plain SGD is not -lr times the gradient of the loss on that epoch's paths",
                              {"feats": feats, "gradient_present_before_fit": stale, "relative_error": worst})


def stochastic_layers(ctx: Ctx) -> None:
    """A model with a stochastic layer (Dropout) in training mode: with the random stream re-seeded before every evaluation the loss
    is a deterministic function of the parameters, and its back-propagated gradient is the derivative of THAT function (the masks
    of the backward pass are the masks of the forward pass) - both evaluation branches."""
    from pfhedge.instruments import BrownianStock, EuropeanOption
    from pfhedge.nn import EntropicRiskMeasure, Hedger
    for feats in (["log_moneyness", "time_to_maturity", "volatility"], ["log_moneyness", "time_to_maturity", "prev_hedge"]):
        torch.manual_seed(ctx.seed + 61)
        stock = BrownianStock(cost=1e-2, dt=1 / 20, dtype=DT)
        deriv = EuropeanOption(stock, maturity=6 / 20)
        deriv.simulate(n_paths=16)
        model = torch.nn.Sequential(torch.nn.Linear(3, 8, dtype=DT), torch.nn.Tanh(), torch.nn.Dropout(0.5), torch.nn.Linear(8, 1, dtype=DT))
        hedger = Hedger(model, list(feats), criterion=EntropicRiskMeasure(1.5))
        hedger.train()

        def loss_fn() -> torch.Tensor:
            torch.manual_seed(977)
            return hedger.criterion(hedger.compute_portfolio(deriv), deriv.payoff())
        _fd_compare(ctx, f"fd:dropout:{'stepwise' if 'prev_hedge' in feats else 'batched'}", "a model with Dropout in training mode, the random stream re-seeded before every evaluation",
                    loss_fn, list(model.parameters()), {"feats": feats})


def failed_evaluations_restore_grad_mode(ctx: Ctx) -> None:
    """An evaluation that raises half-way - the model raises inside price() / compute_loss(enable_grad=False) / the validation
    step - leaves the thread's gradient mode as it found it: the next loss computed by the same hedger carries its graph and
    the right gradient."""
    from pfhedge.instruments import BrownianStock, EuropeanOption
    from pfhedge.nn import EntropicRiskMeasure, Hedger

    class Fault(Exception):
        pass

    for feats in (["log_moneyness", "time_to_maturity", "volatility"], ["log_moneyness", "time_to_maturity", "prev_hedge"]):
        for what in ("price", "compute_loss(enable_grad=False)", "price(enable_grad=True)", "fit"):
            torch.manual_seed(ctx.seed + 62)
            stock = BrownianStock(cost=1e-2, dt=1 / 20, dtype=DT)
            deriv = EuropeanOption(stock, maturity=6 / 20)
            model = torch.nn.Sequential(torch.nn.Linear(3, 4, dtype=DT), torch.nn.Tanh(), torch.nn.Linear(4, 1, dtype=DT))
            hedger = Hedger(model, list(feats), criterion=EntropicRiskMeasure(1.5))
            calls = {"n": 0}

            def boom(module, args):
                calls["n"] += 1
                if calls["n"] >= (3 if what == "fit" else 1):        # fit: the training pass goes through, the validation pass raises
                    raise Fault()
            handle = model.register_forward_pre_hook(boom)
            was = torch.is_grad_enabled()
            try:
                if what == "price":
                    hedger.price(deriv, n_paths=8)
                elif what.startswith("compute_loss"):
                    hedger.compute_loss(deriv, n_paths=8, enable_grad=False)
                elif what.startswith("price("):
                    hedger.price(deriv, n_paths=8, enable_grad=True)
                else:
                    if "prev_hedge" in feats:
                        calls["n"] = -4                                 # (step by step: more calls per pass)
                    hedger.fit(deriv, n_paths=8, n_epochs=2, verbose=False, optimizer=torch.optim.SGD(model.parameters(), lr=1e-3))
            except Fault:
                pass
            else:
                handle.remove()
                raise MachineryError(f"failed_evaluations_restore_grad_mode: the injected fault did not reach the caller of {what}")
            handle.remove()
            ctx.count(("failed-eval", tuple(feats), what), n=1)
            now = torch.is_grad_enabled()
            torch.set_grad_enabled(was)                                  # (do not let a leak poison the rest of this check)
            if now != was:
                ctx.violation("gradmode:leaks-after-failed-evaluation", f"after {what} raised half-way torch.is_grad_enabled() is {now}; it was {was} before the call", {"feats": feats, "call": what})
                continue
            deriv.simulate(n_paths=8)
            hedger.train()
            loss = hedger.criterion(hedger.compute_portfolio(deriv), deriv.payoff())
            if not loss.requires_grad:
                ctx.violation("gradmode:no-graph-after-failed-evaluation", f"the loss computed after {what} raised half-way carries no graph", {"feats": feats, "call": what})


def fit_uses_the_gradient_of_every_owned_parameter(ctx: Ctx) -> None:
    """... also for the parameters the supplied optimiser owns OUTSIDE the model: the w of an optimised certainty equivalent and
    the module behind a trainable ModuleOutput feature.  Their update is -lr times the gradient of the same loss, too."""
    from pfhedge.features import ModuleOutput
    from pfhedge.instruments import BrownianStock, EuropeanOption
    from pfhedge.nn import EntropicRiskMeasure, Hedger
    from pfhedge.nn.modules.loss import OCE
    lr = 2.0 ** -4
    for kind in ("oce-w", "module-output"):
        torch.manual_seed(ctx.seed + 56)
        if kind == "oce-w":
            model = torch.nn.Sequential(torch.nn.Linear(2, 4, dtype=DT), torch.nn.Tanh(), torch.nn.Linear(4, 1, dtype=DT))
            crit = OCE(lambda z: 1 - torch.exp(-z)).to(DT)
            hedger = Hedger(model, ["log_moneyness", "time_to_maturity"], criterion=crit)
            extra = list(crit.parameters())
        else:
            ext = torch.nn.Sequential(torch.nn.Linear(2, 2, dtype=DT), torch.nn.Tanh())
            model = torch.nn.Sequential(torch.nn.Linear(3, 4, dtype=DT), torch.nn.Tanh(), torch.nn.Linear(4, 1, dtype=DT))
            hedger = Hedger(model, [ModuleOutput(ext, ["log_moneyness", "volatility"]), "time_to_maturity"], criterion=EntropicRiskMeasure(1.5))
            extra = list(ext.parameters())
        owned = list(model.parameters()) + extra
        d = EuropeanOption(BrownianStock(cost=1e-2, dt=1 / 20, dtype=DT), maturity=6 / 20)
        before = [p.detach().clone() for p in owned]
        torch.manual_seed(78)
        hedger.fit(d, n_epochs=1, n_paths=16, optimizer=torch.optim.SGD(owned, lr=lr), verbose=False, validation=False)
        used = [(b - p.detach()) / lr for b, p in zip(before, owned)]
        with torch.no_grad():
            for p, b in zip(owned, before):
                p.copy_(b)
        for p in owned:
            p.grad = None
        hedger.train()
        torch.manual_seed(78)
        true = torch.autograd.grad(hedger.compute_loss(d, n_paths=16), owned, allow_unused=True)
        true = [torch.zeros_like(p) if t is None else t for p, t in zip(owned, true)]
        ctx.count(("fit-gradient-owned", kind), n=1)
        outside = slice(len(list(model.parameters())), None)
        if not any(float(t.abs().max()) > 1e-6 for t in true[outside]):
            # (by construction the loss depends on these parameters: the utility's w enters the criterion, the extractor feeds the model)
            ctx.violation("fit:gradient-used:outside-the-model:no-gradient", "the loss computed by the hedger carries no gradient for a trainable parameter outside the model that it depends on",
                          {"kind": kind})
            continue
        worst = max(float((u - t).abs().max() / (1e-6 + t.abs().max())) for u, t in zip(used, true))
        if not worst <= 1e-8:
            ctx.violation("fit:gradient-used:outside-the-model", "a parameter the supplied optimiser owns outside the model was not updated by -lr times the gradient of the loss "
                          "on that epoch's paths", {"kind": kind, "relative_error": worst, "update_of_outside_parameters": [u.flatten().tolist()[:3] for u in used[outside]],
                                                     "gradient": [t.flatten().tolist()[:3] for t in true[outside]]})


def check(ctx: Ctx) -> None:
    warnings.filterwarnings("ignore")
    res = ctx.tlc("MC_Grad", "MC_Grad_q_t3.cfg" if ctx.tier == "quick" else "MC_Grad_t_t4.cfg", workers=8, coverage=False)
    recs = res.records
    if len(recs) < 100:
        raise MachineryError("Grad.tla: too few generic cases")
    stepwise = sum(1 for r in recs if "prev_hedge" in r["cfg"]["feats"])
    if stepwise == 0 or stepwise == len(recs):
        raise MachineryError("Grad.tla: one evaluation branch not covered")
    replay(ctx, recs)
    grad_mode_protocol(ctx, recs[:: max(1, len(recs) // 24)])
    finite_differences(ctx)
    trainable_parts_outside_the_model(ctx)
    two_runs_one_graph(ctx)
    lazy_first_use(ctx)
    fit_uses_the_gradient(ctx)
    fit_uses_the_gradient_of_every_owned_parameter(ctx)
    stochastic_layers(ctx)
    failed_evaluations_restore_grad_mode(ctx)
    for r in recs:
        ctx.distinct.add(json.dumps([r["p1"], r["p2"], r["cfg"], r["crit"]]))
    ctx.sample(recs[0]); ctx.sample(recs[len(recs) // 2])
    probe = Ctx.__new__(Ctx)
    probe.__dict__.update({"_per_key": {}, "violations": [], "findings": [], "known_hits": {}, "evaluations": 0, "distinct": set()})
    bad = json.loads(json.dumps(next(r for r in recs if "prev_hedge" in r["cfg"]["feats"] and r["grad"][2][0] != 0)))
    bad["grad"][2] = [0, 1]                                # "the recurrent path was detached"
    replay(probe, [bad])
    ctx.selftest("a specification gradient with the recurrent component zeroed is rejected", any(v["key"].startswith("grad:value") for v in probe.violations))
    ctx.traces_validated = len(recs)
    ctx.exhaustive = True
    ctx.rule = ("all generic points of Grad.tla: path1 in {1,2,4}^3 x 2 fixed paths x 6 configurations (linear/ReLU, recurrent or not, costs 0..1/2) x 4 criteria; loss and every gradient "
                "component compared exactly in train and eval mode; grad-mode protocol; finite differences for 6 criteria x 2 branches x costs x modes x H in {1,2}")
    ctx.assumptions += ["non-generic points (kinks of |.|/relu at 0, ties at the expected-shortfall threshold) are excluded by the specification",
                        "criteria without an exact rational form are compared with central finite differences (relative 2e-4)"]


if __name__ == "__main__":
    raise SystemExit(run_check("C14", check))
