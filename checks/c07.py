"""C07 (partial) - the Black-Scholes pricing MODULES: where their arguments come from, which attributes reach the
formula, and how the strike enters.

BSModule.tla is the dataflow machine of one call  module.<method>(given inputs)  for every product, every way of building
the module (constructor, from_derivative, BlackScholes factory), every subset of inputs given by the caller: inputs are
acquired in the order of the code, the caller's inputs win, the rest is read from the derivative's simulated state, a
module without derivative raises.  TLC checks the step machine against the order-free reference (OutcomeIsReference,
ExplicitWins, NoPartialValue) and that each method hands the formula every attribute its value depends on
(PassesWhatIsNeeded).  Every terminal state is replayed: the module's result must equal the functional form of THIS
product evaluated at the resolved inputs with the derivative's own strike and call/put flag.

BSAlgebra.tla (homogeneous): price and Greeks are homogeneous in (spot, strike, maximum) of the degree computed from the
forms; on the lattice, scaling the strike by a power of two at fixed log-moneyness must scale the value by that power
exactly - a wrong strike scaling cannot survive.

NOT decided: that the closed forms equal the risk-neutral expectation of the payoff (an integral against the lognormal
and running-maximum laws has no exact finite model; DESIGN.md 4).  C18 decides the t -> 0 / sigma -> 0 boundary of the
same formulas and C08 the pricing equation theta = -(1/2) sigma^2 S^2 gamma through the Greeks.
"""
from __future__ import annotations

import json
from typing import Any, Dict, List, Tuple

import torch

from checks import bs_common
from lib.bsgrid import GREEKS, PATH_DEPENDENT, PUT_OFFERED, Grid, call_sig, functional
from lib.core import Ctx, run_check
from lib.tlc import MachineryError, require_actions

STRIKE = {"half": 0.5, "one": 1.0, "elevententh": 1.1, "two": 2.0}
DT = torch.float64


def classes() -> Dict[str, Tuple[Any, Any]]:
    from pfhedge.instruments import AmericanBinaryOption, EuropeanBinaryOption, EuropeanOption, LookbackOption
    from pfhedge.nn import BSAmericanBinaryOption, BSEuropeanBinaryOption, BSEuropeanOption, BSLookbackOption
    return {"european": (EuropeanOption, BSEuropeanOption), "european_binary": (EuropeanBinaryOption, BSEuropeanBinaryOption),
            "american_binary": (AmericanBinaryOption, BSAmericanBinaryOption), "lookback": (LookbackOption, BSLookbackOption)}


def make_derivative(p: str, call: bool, strike: float, heston: bool = False):
    from pfhedge.instruments import BrownianStock, HestonStock
    # (Heston: the volatility of the STOCK is the square root of the simulated variance, element by element; the model's own
    #  parameter sigma = 0.5 is the volatility of the variance and must not be mistaken for it)
    ul = HestonStock(sigma=0.5, dt=0.25, dtype=DT) if heston else BrownianStock(sigma=0.25, dt=0.25, dtype=DT)
    d = classes()[p][0](ul, call=call, strike=strike, maturity=0.5)
    d.simulate(n_paths=3)
    ul.register_buffer("spot", torch.tensor([[1.0, 1.25, 0.75], [1.0, 0.5, 1.5], [1.0, 2.0, 2.5]], dtype=DT))
    if heston:
        ul.register_buffer("variance", torch.tensor([[0.0625, 0.25, 1.0], [0.0625, 0.015625, 0.5625], [0.0625, 0.09, 0.04]], dtype=DT))
    return d


def state_of(d) -> Dict[str, torch.Tensor]:
    return {"log_moneyness": d.log_moneyness(), "max_log_moneyness": d.max_log_moneyness(), "time_to_maturity": d.time_to_maturity(), "volatility": d.ul().volatility}


def explicit_for(d) -> Dict[str, torch.Tensor]:
    s = state_of(d)
    return {"log_moneyness": s["log_moneyness"] - 0.125, "max_log_moneyness": s["max_log_moneyness"] + 0.25,
            "time_to_maturity": s["time_to_maturity"] + 0.5, "volatility": s["volatility"] * 2}


def replay_modules(ctx: Ctx, recs: List[Dict[str, Any]]) -> None:
    from pfhedge.nn import BlackScholes
    cls = classes()
    for ri, r in enumerate(recs):
        p, call, K, built, meth = r["p"], r["call"], STRIKE[r["strike"]], r["built"], r["meth"]
        given = set(r["given"])
        d = make_derivative(p, call, K, heston=(ri % 2 == 1))
        detail = {"product": p, "call": call, "strike": K, "built_by": built, "method": meth, "given": sorted(given), "underlier": type(d.ul()).__name__}
        try:
            if built == "ctor":
                m = cls[p][1](call=call, strike=K)
            elif built == "from_derivative":
                m = cls[p][1].from_derivative(d)
            else:
                m = BlackScholes(d)
        except Exception as ex:
            ctx.violation(f"module:build:{built}", f"building the pricing module ({built}) raised {type(ex).__name__}", {**detail, "error": repr(ex)[:200]})
            continue
        ctx.count(n=1)
        if type(m) is not cls[p][1]:
            ctx.violation("module:dispatch", f"BlackScholes({type(d).__name__}) built a {type(m).__name__}", detail)
            continue
        if built != "ctor" and (m.strike != d.strike or bool(m.call) != bool(d.call) or m.derivative is not d):
            ctx.violation("module:from-derivative:attributes", "the module built from a derivative does not carry that derivative's strike / call flag / the derivative itself",
                          {**detail, "module_strike": m.strike, "module_call": m.call})
            continue
        if list(m.inputs()) != list(r["inputs"]):
            ctx.violation("module:inputs", "inputs() does not list the formula's arguments in order", {**detail, "inputs": list(m.inputs()), "expected": r["inputs"]})
            continue
        explicit, state = explicit_for(d), state_of(d)
        mm = "delta" if meth == "forward" else meth
        try:
            if meth == "forward":
                got = m(torch.stack([explicit[n] for n in r["inputs"]], dim=-1))
            else:
                got = getattr(m, meth)(**{n: explicit[n].clone() for n in given})
            raised = None
        except Exception as ex:
            raised, got = ex, None
        if r["outcome"] == "ValueError":
            if not isinstance(raised, ValueError):
                ctx.violation("module:missing-input", "a module without derivative did not raise ValueError for a missing input", {**detail, "raised": repr(raised)[:200]})
            continue
        if raised is not None:
            ctx.violation(f"module:raises:{p}:{mm}", f"{type(m).__name__}.{meth} raised {type(raised).__name__} although every input is available", {**detail, "error": repr(raised)[:300]})
            continue
        resolved = {n: (explicit[n] if r["src"][n] == "explicit" else state[n]) for n in r["inputs"]}
        attrs = {a: (call if a == "call" else K) for a in r["passes"]}
        want = call_sig(functional(p, mm), **resolved, **attrs)
        if meth == "forward":
            want = want.unsqueeze(-1)
        if got.shape != want.shape:
            ctx.violation(f"module:shape:{p}:{mm}", f"{type(m).__name__}.{meth} returns shape {tuple(got.shape)}, expected {tuple(want.shape)}", detail)
            continue
        # the open parameter domain (time to maturity > 0; the boundary belongs to C18)
        interior = (resolved["time_to_maturity"] > 0) & (resolved["volatility"] > 0)
        if meth == "forward":
            interior = interior.unsqueeze(-1)
        tol = 1e-12 if r["via"] == "closed_form" else 1e-8          # automatic differentiation of the price against the closed form
        ok = bool(((((got - want).abs() <= tol * (1 + want.abs())) | (got.isnan() & want.isnan())) | ~interior).all())
        if not ok:
            ctx.violation(f"module:value:{p}:{mm}", f"{type(m).__name__}.{meth} is not the {p} formula at the caller's inputs (where given) and the derivative's state (elsewhere) "
                          "for the derivative's own strike and call/put flag", {**detail, "sources": r["src"], "attributes_passed": sorted(r["passes"]),
                                                                                "observed": got.flatten().tolist()[:4], "expected": want.flatten().tolist()[:4]})


def explicit_inputs_keep_their_dtype(ctx: Ctx) -> None:
    """A module built from a float32 derivative (already simulated) and called with float64 inputs given explicitly prices those
    inputs in float64: the derivative's state is not used, so its dtype is irrelevant."""
    from pfhedge.instruments import BrownianStock
    from pfhedge.nn import BlackScholes
    cls = classes()
    lm = torch.tensor([-0.3, -0.05, 0.0, 0.2], dtype=DT)
    kw_all = {"log_moneyness": lm, "max_log_moneyness": torch.tensor([-0.1, 0.0, 0.3, 0.2], dtype=DT), "time_to_maturity": torch.full_like(lm, 0.3), "volatility": torch.full_like(lm, 0.35)}
    for p, (dcls, mcls) in cls.items():
        ul = BrownianStock(sigma=0.25, dt=0.25, dtype=torch.float32)
        d = dcls(ul, strike=1.25, maturity=0.5)
        d.simulate(n_paths=3)
        for m in (BlackScholes(d), mcls.from_derivative(d)):
            kw = {k: v.clone() for k, v in kw_all.items() if k in m.inputs()}
            for g in GREEKS:
                try:
                    got = getattr(m, g)(**{k: v.clone() for k, v in kw.items()}).detach()
                    want = call_sig(functional(p, g), **{k: v.clone() for k, v in kw_all.items()}, call=True, strike=1.25).detach()
                except Exception as ex:
                    ctx.violation(f"module:explicit-dtype:{p}:raises", f"{type(m).__name__}.{g} raised {type(ex).__name__} for float64 inputs on a module built from a float32 derivative", {"error": repr(ex)[:200]})
                    continue
                ctx.count(n=1)
                tol = 1e-12 if not (p == "american_binary" and g in ("gamma", "vega", "theta")) else 1e-8
                if got.dtype != DT or not bool((((got - want).abs() <= tol * (1 + want.abs())) | (got.isnan() & want.isnan())).all()):
                    ctx.violation(f"module:explicit-dtype:{p}:{g}", f"{type(m).__name__}.{g} with float64 inputs given explicitly is not the float64 value of the formula "
                                  "(the module was built from a float32 derivative)", {"dtype": str(got.dtype), "observed": got.tolist(), "expected": want.tolist()})


def modules_on_lattice(ctx: Ctx, grid: Grid) -> None:
    """Every module method agrees with the functional form on the whole lattice (explicit inputs, every strike of the axis)."""
    cls = classes()
    for p, (_, mcls) in cls.items():
        for call in ([True, False] if p in PUT_OFFERED else [True]):
            for ki, K in enumerate(grid.ax["strike"]):
                m = mcls(call=call, strike=K)
                sl = (slice(None), slice(None), slice(None), ki, slice(None))
                kw = {"log_moneyness": grid.lm[sl], "time_to_maturity": grid.t[sl], "volatility": grid.v[sl]}
                if p in PATH_DEPENDENT:
                    kw["max_log_moneyness"] = grid.mlm[sl]
                for g in GREEKS:
                    try:
                        got = getattr(m, g)(**{k: v.clone() for k, v in kw.items()}).detach()
                    except Exception as ex:
                        ctx.violation(f"module:raises:{p}:{g}", f"{mcls.__name__}.{g} raised {type(ex).__name__} on the lattice", {"error": repr(ex)[:300], "strike": K, "call": call})
                        continue
                    want = grid.value(p, call, g)[sl]
                    ctx.count(n=got.numel())
                    bad = ~(((got - want).abs() <= 1e-12 * (1 + want.abs())) | (got.isnan() & want.isnan()))
                    if bool(bad.any()):
                        i = tuple(int(x) for x in bad.nonzero()[0])
                        full = (i[0], i[1], i[2], ki, i[3])
                        ctx.violation(f"module:value:{p}:{g}", f"{mcls.__name__}(strike={K}).{g} disagrees with bs_{p}_{g}", {"call": call, "at": grid.describe(full),
                                      "module": got[i].item(), "functional": want[i].item()})


def spellings(ctx: Ctx) -> None:
    """Time to maturity and volatility as 0-dim tensors or full tensors (the modules document tensors, not Python numbers);
    positional or keyword; the strike as a Python number or a 0-dim tensor; a module whose strike / call flag is changed after construction: one formula, one value."""
    cls = classes()
    lm = torch.tensor([-0.5, -0.125, 0.0, 0.25], dtype=DT)
    mlm = torch.tensor([-0.25, -0.125, 0.5, 0.25], dtype=DT)
    t, v, K = 0.25, 0.5, 1.1                  # a strike that float32 cannot represent: float64 inputs must see the double
    for p, (_, mcls) in cls.items():
        for call in ([True, False] if p in PUT_OFFERED else [True]):
            m = mcls(call=call, strike=K)
            for g in GREEKS:
                path = p in PATH_DEPENDENT
                full = {"log_moneyness": lm, "time_to_maturity": torch.full_like(lm, t), "volatility": torch.full_like(lm, v)}
                if path:
                    full["max_log_moneyness"] = mlm
                try:
                    base = getattr(m, g)(**{k: x.clone() for k, x in full.items()}).detach()
                    order = m.inputs()
                    variants = {
                        "0-dim tensors": getattr(m, g)(**{**{k: x.clone() for k, x in full.items()}, "time_to_maturity": torch.tensor(t, dtype=DT), "volatility": torch.tensor(v, dtype=DT)}),
                        "positional": getattr(m, g)(*[full[k].clone() for k in order]),
                        "0-dim strike": getattr(mcls(call=call, strike=torch.tensor(K, dtype=DT)), g)(**{k: x.clone() for k, x in full.items()}),
                    }
                    if g != "price":      # broadcasting of the volatility / time arguments is documented (and claimed by C07) for prices;
                        del variants["0-dim tensors"]     # Greeks obtained by differentiation return the gradient of the 0-dim leaf
                    late = mcls(call=True, strike=1.0)
                    late.strike = K
                    if p in PUT_OFFERED:
                        late.call = call
                    variants["strike and flag set after construction"] = getattr(late, g)(**{k: x.clone() for k, x in full.items()})
                except Exception as ex:
                    ctx.violation(f"module:spelling:{p}:raises", f"{mcls.__name__}.{g} raised {type(ex).__name__} for an admissible spelling of its arguments", {"call": call, "error": repr(ex)[:300]})
                    continue
                for label, got in variants.items():
                    got = got.detach()
                    ctx.count(n=1)
                    if got.shape != base.shape or got.dtype != base.dtype or not bool((((got - base).abs() <= 1e-12 * (1 + base.abs())) | (got.isnan() & base.isnan())).all()):
                        ctx.violation(f"module:spelling:{p}:{g}", f"{mcls.__name__}.{g}: the value changes with the spelling of the arguments ({label})",
                                      {"call": call, "variant": label, "base": base.tolist(), "observed": got.flatten().tolist()[:4], "observed_dtype": str(got.dtype)})


def check(ctx: Ctx) -> None:
    tier = "thorough" if ctx.tier == "thorough" else "quick"
    torch.set_default_dtype(torch.float64)
    res = ctx.tlc("MC_BSModule", "MC_BSModule.cfg", workers=8)
    require_actions(res, ["Acquire", "Call"])
    recs = [r for r in res.records if r.get("rec") == "bsmodule"]
    if len(recs) < 1000:
        raise MachineryError("BSModule: too few terminal states")
    if tier == "quick":
        recs = [r for k, r in enumerate(recs) if r["strike"] in ("elevententh", "two") or k % 3 == ctx.seed % 3]
    replay_modules(ctx, recs)
    forms = ctx.tlc("MC_BSAlgebra", "MC_BSAlgebra_forms.cfg", workers=2)
    if forms.violated:
        raise MachineryError(f"BSAlgebra: form identity violated in the specification itself: {forms.violated}")
    alg = ctx.tlc("MC_BSAlgebra", f"MC_BSAlgebra_{'t' if tier == 'thorough' else 'q'}_C07.cfg", workers=8)
    grid = Grid(tier)
    seen = bs_common.evaluate(ctx, grid, alg.records, "C07")
    if not seen.get("homogeneous"):
        raise MachineryError("no homogeneity obligation")
    modules_on_lattice(ctx, grid)
    explicit_inputs_keep_their_dtype(ctx)
    bs_common.positional_forms(ctx, grid)
    bs_common.batch_consistency(ctx, grid, greeks=("price",))
    bs_common.broadcasting(ctx, "price")
    bs_common.python_strike_on_lattice(ctx, grid, greeks=("price",))
    bs_common.modules_follow_the_derivative(ctx)
    torch.set_default_dtype(torch.float32)       # the library's default: float64 INPUTS must still be priced in float64
    try:
        spellings(ctx)
        bs_common.strike_spelling(ctx, "price")
    finally:
        torch.set_default_dtype(torch.float64)
    for r in recs:
        ctx.distinct.add(json.dumps([r["p"], r["call"], r["strike"], r["built"], r["meth"], sorted(r["given"])]))
    for r in alg.records:
        ctx.distinct.add(json.dumps(r["ob"], sort_keys=True))
    ctx.sample(recs[0]); ctx.sample(recs[-1]); ctx.sample(alg.records[0])
    # binding self-tests: corrupted specification records must be rejected by the replay
    probe = Ctx.__new__(Ctx)
    probe.__dict__.update({"_per_key": {}, "violations": [], "findings": [], "known_hits": {}, "evaluations": 0, "distinct": set(), "skipped": {}})
    bad = json.loads(json.dumps(next(r for r in recs if r["p"] == "european" and r["meth"] == "price" and r["built"] == "from_derivative" and r["given"] == ["volatility"])))
    bad["src"]["volatility"] = "derivative"                          # "the caller's volatility is ignored"
    replay_modules(probe, [bad])
    ctx.selftest("a record claiming the caller's volatility is ignored is rejected", any(v["key"].startswith("module:value") for v in probe.violations))
    probe.violations.clear(); probe._per_key.clear()
    bad = json.loads(json.dumps(next(r for r in recs if r["p"] == "european" and r["meth"] == "gamma" and r["strike"] == "two" and r["outcome"] == "value")))
    bad["passes"] = []                                               # "gamma does not get the strike"
    replay_modules(probe, [bad])
    ctx.selftest("a record claiming the strike does not reach the European gamma is rejected", any(v["key"].startswith("module:value") for v in probe.violations))
    probe.violations.clear(); probe._per_key.clear()
    wrong = [json.loads(json.dumps(r)) for r in alg.records if r["ob"]["p"] == "european" and r["ob"]["greek"] == "gamma"][:50]
    for w in wrong:
        w["ob"]["deg"] = 1                                           # "gamma scales like the price"
    bs_common.evaluate(probe, grid, wrong, "C07")
    ctx.selftest("a wrong homogeneity degree is rejected", any(v["key"].startswith("strike-scaling") for v in probe.violations))
    ctx.traces_validated = len(recs) + len(alg.records)
    ctx.exhaustive = True
    ctx.sections["obligations_by_kind"] = seen
    ctx.rule = ("every terminal state of BSModule.tla (4 products x call/put where offered x 4 strikes x 3 ways of building x 6 methods x every subset of inputs given) replayed into the real "
                "modules on a scripted 3x3 market (quick: strikes 1.1 and 2 in full, a third of the rest); every homogeneity obligation of BSAlgebra.tla on the lattice "
                f"{grid.sizes()} with strike scalings 1/4 and 8; every module method against the functional form on the whole lattice; distinct = distinct terminal state or obligation")
    ctx.assumptions += ["PARTIAL CLAIM: equality of the closed forms with the risk-neutral expectation of the payoff is NOT decided (no exact finite model of the lognormal / running-maximum "
                        "integrals); decided are the module dataflow, the strike scaling and the agreement of modules with functional forms"]


if __name__ == "__main__":
    raise SystemExit(run_check("C07", check))
