"""C04 - risk measures obey the convex-risk-measure axioms.

Risk.tla states every axiom of the property as an invariant over all samples / all pairs of samples of the bounded
integer lattice, in exact rational arithmetic, and TLC checks them.  Binding: (1) value conformance - every criterion
of pfhedge equals the specification's value on every lattice sample, hence satisfies the axioms there; (2) axiom
replay - the TLC-emitted pairs (and their rescalings to magnitudes 1e-6 .. 1e6, large cash shifts, mixing weights
1/2 and 1/4) are evaluated on the implementation and each axiom is checked directly.
"""
import json

from lib.core import Ctx, run_check
from checks import risk_common


def check(ctx: Ctx) -> None:
    singles, pairs = risk_common.run_risk_models(ctx, pairs=True)
    rr = risk_common.RiskReplay(ctx, "")
    rr.replay_values(singles)
    risk_common.axiom_replay(ctx, pairs, ctx.seed)
    risk_common.selftest_values(ctx, singles)
    for r in singles:
        ctx.distinct.add(json.dumps(r["x"]) + json.dumps(r["ps"]))
    for r in pairs:
        ctx.distinct.add(json.dumps([r["x"], r["y"]]))
    ctx.sample({"pair": pairs[len(pairs) // 2]})
    ctx.sample({"single": {k: singles[len(singles) // 3][k] for k in ("x", "es", "qcvar", "m2")}})
    ctx.traces_validated = len(singles) + len(pairs)
    ctx.exhaustive = True
    ctx.rule = ("TLC: all samples and all pairs of samples over the integer lattice (N <= 4 quick) with every axiom as an invariant; "
                "replay: every sample's value, and every emitted pair under 3 magnitudes x 3 cash shifts x 2 mixing weights; distinct = distinct sample or pair")
    ctx.assumptions += ["axioms on the implementation are checked with tolerance 1e-9*scale (ES, ERM) and 1e-5*scale (quadratic CVaR, its documented bisection precision)",
                        "convexity is checked at mixing weights 1/2 and 1/4"]


if __name__ == "__main__":
    raise SystemExit(run_check("C04", check))
