"""C12 - payoffs equal their contractual definitions and ordering.

Payoff.tla: contracts written from the property text, the clause pipeline as a machine (Register*; PayoffFn;
ApplyClause*) with OrderedDict replacement semantics, the ordering relations as invariants; TLC enumerates all paths over
the price lattice (T = 1..4), strikes at/between/outside lattice points, call/put, start indices and a menu of clause
registration sequences.  Replay: every terminal state into pfhedge.nn.functional.*_payoff and into the derivative classes
over injected buffers with add_clause in the emitted order.
"""
from __future__ import annotations

import json
import math
from collections import defaultdict
from concurrent.futures import ThreadPoolExecutor
from typing import Any, Dict, List

import torch

from lib.core import Ctx, run_check
from lib.doubles import LN2, fr, frf
from lib.tlc import MachineryError, require_actions

CFGS = {"quick": ["q_t1", "q_t2", "q_t3", "q_t4"], "thorough": ["q_t1", "q_t2", "q_t3", "q_t4", "t_t3ops", "t_t5"]}
DT = 0.25


# one callable OBJECT per clause kind: a kind that appears twice in a registration sequence is the same object under two names
_CLAUSES = {
    "add1": lambda d, p: p + 1,
    "scale2": lambda d, p: p * 2,
    "cap1": lambda d, p: p.clamp(max=1.0),
    "knock4": lambda d, p: torch.where(d.ul().spot.max(-1).values >= 4, torch.zeros_like(p), p),
}


def clause_fn(name: str):
    return _CLAUSES[name]


def expected(r: Dict[str, Any], key: str, T: int) -> float:
    if r["kind"] == "variance_swap" and key == "fn":
        return r["fn"][0] / r["fn"][1] * LN2 * LN2 / ((T - 1) * DT) - frf(r["strike"])
    return frf(r[key])


def replay(ctx: Ctx, recs: List[Dict[str, Any]]) -> None:
    import pfhedge.nn.functional as F
    from pfhedge.instruments import (AmericanBinaryOption, BrownianStock, EuropeanBinaryOption, EuropeanForwardStartOption,
                                     EuropeanOption, LookbackOption, VarianceSwap)
    classes = {"european": EuropeanOption, "lookback": LookbackOption, "european_binary": EuropeanBinaryOption,
               "american_binary": AmericanBinaryOption, "forward_start": EuropeanForwardStartOption, "variance_swap": VarianceSwap}
    fns = {"european": F.european_payoff, "lookback": F.lookback_payoff, "european_binary": F.european_binary_payoff,
           "american_binary": F.american_binary_payoff}
    groups: Dict[str, List[Dict[str, Any]]] = defaultdict(list)
    for r in recs:
        groups[json.dumps([r["kind"], r["call"], r["strike"], r["start"], r["ops"], len(r["path"])])].append(r)
    reused: Dict[Any, Any] = {}          # one long-lived derivative object per (kind, T, dtype): its contract terms are edited in place
    for gk, rs in groups.items():
        rs = sorted(rs, key=lambda r: r["path"])
        r0 = rs[0]
        kind, call, K, start, ops, T = r0["kind"], r0["call"], frf(r0["strike"]), r0["start"], r0["ops"], len(r0["path"])
        for dtype in (torch.float64, torch.float32):
            tol = 1e-12 if dtype == torch.float64 else 1e-5
            paths = torch.tensor([r["path"] for r in rs], dtype=dtype)
            keep = paths.clone()
            exp_fn = torch.tensor([expected(r, "fn", T) for r in rs], dtype=torch.float64)
            # ---- functional forms (no clauses)
            if not ops:
                try:
                    if kind in fns:
                        got = fns[kind](paths, call=call, strike=K)
                    elif kind == "forward_start":
                        got = F.european_forward_start_payoff(paths, strike=K, start_index=start)
                    else:
                        got = F.realized_variance(paths, dt=DT) - K
                except Exception as e:
                    ctx.violation(f"payoff:{kind}:raises", f"{kind} payoff function raised {type(e).__name__}", {"T": T, "error": repr(e)[:200]})
                    continue
                ctx.count(n=len(rs))
                if got.shape != (len(rs),) or got.dtype != dtype:
                    ctx.violation(f"payoff:{kind}:shape", f"{kind} payoff has {got.dtype}{tuple(got.shape)}; one entry per path expected", {"T": T})
                    continue
                bad = ~((got.double() - exp_fn).abs() <= tol * (1 + exp_fn.abs()))
                if bool(bad.any()):
                    i = int(bad.nonzero()[0])
                    ctx.violation(f"payoff:{kind}:value", f"{kind} {'call' if call else 'put'} payoff differs from the contract",
                                  {"path": rs[i]["path"], "strike": r0["strike"], "call": call, "start": start,
                                   "expected": exp_fn[i].item(), "observed": got[i].item()})
                if not torch.equal(paths, keep):
                    ctx.violation(f"payoff:{kind}:mutates", "payoff function modified the price tensor", {})
                    paths = keep.clone()
                # the same call with the arguments given POSITIONALLY, in the documented order of the signature
                try:
                    if kind in fns:
                        pos = fns[kind](paths, call, K)
                    elif kind == "forward_start":
                        pos = F.european_forward_start_payoff(paths, K, start)
                    else:
                        pos = F.realized_variance(paths, DT) - K
                    ctx.count(n=len(rs))
                    if pos.shape != got.shape or not torch.equal(pos, got):
                        ctx.violation(f"payoff:{kind}:positional", f"{kind} payoff function: positional arguments in the documented order give another result than the keywords",
                                      {"strike": r0["strike"], "call": call, "start": start, "keyword": got.flatten().tolist()[:4], "positional": pos.flatten().tolist()[:4]})
                except Exception as e:
                    ctx.violation(f"payoff:{kind}:positional", f"{kind} payoff function raised {type(e).__name__} for positional arguments in the documented order", {"error": repr(e)[:200]})
            # ---- derivative classes, with clauses in registration order
            stock = BrownianStock(dt=DT, dtype=dtype)
            stock.register_buffer("spot", paths.clone())
            kw: Dict[str, Any] = {"strike": K, "maturity": (T - 1) * DT}
            if kind in ("european", "lookback", "european_binary", "american_binary"):
                kw["call"] = call
            if kind == "forward_start":
                kw["start"] = start * DT
            d = classes[kind](stock, **kw)
            for name, f in ops:
                d.add_clause(name, clause_fn(f))
            try:
                pf = d.payoff_fn()
                po = d.payoff()
            except Exception as e:
                ctx.violation(f"payoff:{kind}:class-raises", f"{classes[kind].__name__}.payoff raised {type(e).__name__}", {"T": T, "ops": ops, "error": repr(e)[:200]})
                continue
            ctx.count(n=len(rs))
            if po.shape != (len(rs),):
                ctx.violation(f"payoff:{kind}:class-shape", f"{classes[kind].__name__}.payoff() has shape {tuple(po.shape)}", {"T": T})
                continue
            bad = ~((pf.double() - exp_fn).abs() <= tol * (1 + exp_fn.abs()))
            if bool(bad.any()):
                i = int(bad.nonzero()[0])
                ctx.violation(f"payoff:{kind}:class-value", f"{classes[kind].__name__}.payoff_fn() differs from the contract",
                              {"path": rs[i]["path"], "strike": r0["strike"], "call": call, "start": start, "expected": exp_fn[i].item(), "observed": pf[i].item()})
            if kind != "variance_swap":
                exp_po = torch.tensor([frf(r["payoff"]) for r in rs], dtype=torch.float64)
                bad = ~((po.double() - exp_po).abs() <= tol * (1 + exp_po.abs()))
                if bool(bad.any()):
                    i = int(bad.nonzero()[0])
                    key = "clauses" if ops else "class-payoff"
                    ctx.violation(f"payoff:{key}", f"{classes[kind].__name__}.payoff() with clauses {ops} differs from applying them in registration order",
                                  {"path": rs[i]["path"], "ops": ops, "registered": r0["registered"], "expected": exp_po[i].item(), "observed": po[i].item()})
                names = [n for n, _ in d.named_clauses()]
                if names != [c[0] for c in r0["registered"]]:
                    ctx.violation("payoff:clause-registry", f"named_clauses() order {names} differs from registration order {[c[0] for c in r0['registered']]}", {"ops": ops})
            if not torch.equal(stock.spot, keep):
                ctx.violation(f"payoff:{kind}:class-mutates", "payoff() modified the underlier's spot buffer", {})
            # a maturity that is NOT a multiple of dt: the simulated grid has the same ceil(M/dt)+1 points, and the contract
            # is still written on the terminal price
            if T >= 2:
                kw_off = dict(kw, maturity=(T - 1) * DT - DT / 4)
                d_off = classes[kind](stock, **kw_off)
                try:
                    pf_off = d_off.payoff_fn()
                except Exception as e:
                    ctx.violation(f"payoff:{kind}:class-raises", f"{classes[kind].__name__}.payoff_fn raised {type(e).__name__} for a maturity between grid points", {"T": T, "error": repr(e)[:200]})
                    pf_off = None
                if pf_off is not None:
                    ctx.count(n=len(rs))
                    bad = ~((pf_off.double() - exp_fn).abs() <= tol * (1 + exp_fn.abs())) if pf_off.shape == exp_fn.shape else torch.ones(1, dtype=torch.bool)
                    if bool(bad.any()):
                        i = int(bad.nonzero()[0]) if pf_off.shape == exp_fn.shape else 0
                        ctx.violation(f"payoff:{kind}:offgrid-maturity", f"{classes[kind].__name__} with a maturity between grid points does not pay on the terminal price of the simulated grid",
                                      {"path": rs[i]["path"], "maturity": kw_off["maturity"], "dt": DT, "strike": r0["strike"], "start": start,
                                       "expected": exp_fn[i].item(), "observed": pf_off.flatten()[i].item() if pf_off.numel() > i else None})
            # the same derivative OBJECT with its contract terms changed between payoff() calls (no re-simulation)
            if not ops:
                key = (kind, T, dtype)
                if key not in reused:
                    st2 = BrownianStock(dt=DT, dtype=dtype)
                    st2.register_buffer("spot", keep.clone())
                    reused[key] = (st2, classes[kind](st2, **kw))
                st2, d2 = reused[key]
                if torch.equal(st2.spot, keep):
                    d2.strike = K
                    if "call" in kw:
                        d2.call = call
                    if kind == "forward_start":
                        d2.start = start * DT
                    po2 = d2.payoff()
                    ctx.count(n=len(rs))
                    bad = ~((po2.double() - exp_fn).abs() <= tol * (1 + exp_fn.abs()))
                    if bool(bad.any()):
                        i = int(bad.nonzero()[0])
                        ctx.violation(f"payoff:{kind}:stale-after-contract-change", f"{classes[kind].__name__}.payoff() does not follow the contract terms set on the object (strike/call/start changed since the previous call)",
                                      {"path": rs[i]["path"], "strike": r0["strike"], "call": call, "start": start, "expected": exp_fn[i].item(), "observed": po2[i].item()})
                    # ... and with its UNDERLIER replaced by another instrument (derivative.underlier = other; the object had
                    # been used with the old one): the contract is written on the prices of the instrument it holds now
                    other = BrownianStock(dt=DT, dtype=dtype)
                    other.register_buffer("spot", keep.flip(0).clone())
                    d3 = classes[kind](st2, **kw)
                    d3.payoff()
                    d3.underlier = other
                    po3 = d3.payoff()
                    ctx.count(n=len(rs))
                    if d3.ul() is not other or not bool(((po3.double() - exp_fn.flip(0)).abs() <= tol * (1 + exp_fn.abs())).all()):
                        ctx.violation(f"payoff:{kind}:stale-after-underlier-change", f"{classes[kind].__name__}.payoff() after the underlier was replaced (derivative.underlier = other) is not the contract on the new instrument's prices",
                                      {"strike": r0["strike"], "call": call, "ul_is_new": d3.ul() is other})


def ties_at_non_dyadic_strike(ctx: Ctx) -> None:
    """A float64 path that touches / ends at the strike EXACTLY, for a strike float32 cannot represent (1.1): the binaries pay
    one ("reaches the strike"), vanilla and lookback pay zero - the strike is compared in the precision of the prices."""
    import pfhedge.nn.functional as F
    from pfhedge.instruments import AmericanBinaryOption, BrownianStock, EuropeanBinaryOption, EuropeanOption, LookbackOption
    K = 1.1
    paths = torch.tensor([[1.0, K, 0.9], [1.0, 0.9, K], [K, 1.0, 0.8], [1.0, 1.05, 1.0]], dtype=torch.float64)
    want = {"american_binary": [1.0, 1.0, 1.0, 0.0], "european_binary": [0.0, 1.0, 0.0, 0.0], "european": [0.0, 0.0, 0.0, 0.0], "lookback": [0.0, 0.0, 0.0, 0.0]}
    fns = {"american_binary": F.american_binary_payoff, "european_binary": F.european_binary_payoff, "european": F.european_payoff, "lookback": F.lookback_payoff}
    classes = {"american_binary": AmericanBinaryOption, "european_binary": EuropeanBinaryOption, "european": EuropeanOption, "lookback": LookbackOption}
    for kind in want:
        stock = BrownianStock(dt=0.25, dtype=torch.float64)
        stock.register_buffer("spot", paths.clone())
        outs = {"function": fns[kind](paths.clone(), call=True, strike=K), "class": classes[kind](stock, call=True, strike=K, maturity=0.5).payoff()}
        for how, got in outs.items():
            ctx.count(n=4)
            if got.dtype != torch.float64 or got.tolist() != want[kind]:
                ctx.violation(f"payoff:{kind}:tie-at-strike", f"{kind} payoff ({how}) on float64 prices that touch the strike 1.1 exactly: expected {want[kind]}",
                              {"observed": got.tolist(), "dtype": str(got.dtype), "paths": paths.tolist()})


def one_ulp_from_the_strike(ctx: Ctx) -> None:
    """"Reaches the strike" is exact: a terminal price (European binary) or a path extreme (American binary) ONE unit in the last
    place short of the strike does not pay, one on the strike or beyond does - calls and puts, float32 and float64, strikes 1.0
    and 1.5 (representable in both, so that the comparison is not a matter of how the strike is rounded)."""
    import pfhedge.nn.functional as F
    for dtype in (torch.float32, torch.float64):
        for K in (1.0, 1.5):
            k = torch.tensor(K, dtype=dtype)
            below = [torch.nextafter(k, torch.tensor(0.0, dtype=dtype)).item()]
            above = [torch.nextafter(k, torch.tensor(9.0, dtype=dtype)).item()]
            for _ in range(3):                                             # 1 .. 4 units in the last place away
                below.append(torch.nextafter(torch.tensor(below[-1], dtype=dtype), torch.tensor(0.0, dtype=dtype)).item())
                above.append(torch.nextafter(torch.tensor(above[-1], dtype=dtype), torch.tensor(9.0, dtype=dtype)).item())
            for call in (True, False):
                short, beyond = (below, above) if call else (above, below)
                base = 0.75 * K if call else 1.25 * K
                for j, (x_short, x_beyond) in enumerate(zip(short, beyond)):
                    paths = torch.tensor([[base, base, x_short], [base, base, K], [base, base, x_beyond], [base, x_short, base], [base, K, base], [base, x_beyond, base]], dtype=dtype)
                    want_eu = [0.0, 1.0, 1.0, 0.0, 0.0, 0.0]
                    want_am = [0.0, 1.0, 1.0, 0.0, 1.0, 1.0]
                    for name, fn, want in (("european_binary", F.european_binary_payoff, want_eu), ("american_binary", F.american_binary_payoff, want_am)):
                        got = fn(paths.clone(), call=call, strike=K)
                        ctx.count(("ulp", name, str(dtype), K, call, j), n=6)
                        if got.tolist() != want:
                            ctx.violation(f"payoff:{name}:ulp-from-strike", f"{name} payoff ({'call' if call else 'put'}, {dtype}) on prices {j + 1} unit(s) in the last place from the strike {K}: "
                                          f"expected {want} (short of the strike / on it / beyond it, at maturity and before)", {"observed": got.tolist(), "paths": paths.tolist()})


def variance_swap_units(ctx: Ctx) -> None:
    """The variance swap pays the ANNUALISED mean squared LOG-RETURN minus the strike: (i) log-returns do not depend on the unit
    the price is quoted in - the same lattice paths scaled by 2^-60 (float64; below machine epsilon) or 2^-30 (float32) and by
    2^40 pay the same; (ii) the step size may be a Python number, a 0-dim tensor or one value per path (the result has one
    entry per path and each path is annualised by its own step)."""
    import math
    import pfhedge.nn.functional as F
    from pfhedge.instruments import BrownianStock, VarianceSwap
    LN2 = math.log(2.0)
    ks = [[0, 1, 0, 2, 1], [0, 0, 0, 0, 0], [0, -1, -2, -1, -3], [0, 2, 4, 2, 0], [1, 0, 1, 0, 1], [3, 3, 2, 2, 2]]           # log2 of the prices
    base = torch.tensor(ks, dtype=torch.float64)
    sq = (base.diff(dim=-1) * LN2).square().mean(-1)                                                                            # mean squared log-return
    for dtype, shifts, tol in ((torch.float64, (0, -60, 40, -200), 1e-12), (torch.float32, (0, -30, 40), 2e-5)):
        for sh in shifts:
            paths = torch.exp2(base + sh).to(dtype)
            for dt in (0.25, 1 / 250):
                want = (sq / dt - 0.04).to(dtype)
                stock = BrownianStock(dt=dt, dtype=dtype)
                stock.register_buffer("spot", paths.clone())
                outs = {"realized_variance - strike": F.realized_variance(paths.clone(), dt=dt) - 0.04,
                        "VarianceSwap.payoff()": VarianceSwap(stock, strike=0.04, maturity=4 * dt).payoff()}
                for how, got in outs.items():
                    ctx.count(n=len(ks))
                    if got.shape != want.shape or not bool(((got - want).abs() <= tol * (1 + want.abs()) / min(1.0, dt)).all()):
                        ctx.violation("payoff:variance_swap:price-unit", f"variance swap ({how}) on prices quoted at 2^{sh} times the unit: not the annualised mean squared log-return minus the strike",
                                      {"log2_scale": sh, "dt": dt, "dtype": str(dtype), "expected": want.tolist(), "observed": got.tolist()})
    # the step size: Python number, 0-dim tensor, one value per path
    paths = torch.exp2(base)
    for N in (6, 4, 3):                                                    # 4 = T - 1: a per-path vector as long as the number of steps
        p = paths[:N]
        dts = torch.tensor([0.25, 0.5, 0.125, 1.0, 2.0, 0.0625][:N], dtype=torch.float64)
        for label, dt, want in (("a 0-dim tensor", torch.tensor(0.25, dtype=torch.float64), sq[:N] / 0.25), ("a one-element tensor", torch.tensor([0.25], dtype=torch.float64), sq[:N] / 0.25),
                                ("one step size per path", dts, sq[:N] / dts)):
            ctx.count(n=N)
            try:
                got = F.realized_variance(p.clone(), dt=dt)
                vol = F.realized_volatility(p.clone(), dt=dt)
            except Exception as e:
                ctx.violation("payoff:variance_swap:dt-spelling", f"realized_variance raised {type(e).__name__} for dt given as {label} ({N} paths, 5 time points)", {"error": repr(e)[:200]})
                continue
            if got.shape != want.shape or not bool(((got - want).abs() <= 1e-12 * (1 + want.abs())).all()) or not bool(((vol - want.sqrt()).abs() <= 1e-12 * (1 + want)).all()):
                ctx.violation("payoff:variance_swap:dt-spelling", f"realized variance with dt given as {label} ({N} paths, 5 time points) is not the mean squared log-return of each path divided by its step size",
                              {"expected": want.tolist(), "observed": got.tolist()})


def registry_replay(ctx: Ctx) -> None:
    """Registry.tla -> code: histories of add_clause / register_underlier / attribute assignment of primaries / list / delist on a
    real derivative; after EVERY operation the outcome (ok or the exception class) and the projected state (named_clauses,
    named_underliers, is_listed, cost) are compared with the machine's, and in the final state every read-only operation
    (payoff for two base payoffs, ul(i) incl. negative and out-of-range indices, spot, dtype) returns what the machine says."""
    from pfhedge.instruments import BrownianStock, EuropeanOption, HestonStock
    ex = ctx.tlc("MC_Registry", "MC_Registry_q_d2.cfg" if ctx.tier == "quick" else "MC_Registry_t_d3.cfg", workers=4, coverage=(ctx.tier == "quick"))
    graph = ctx.tlc("MC_Registry", "MC_Registry_graph.cfg", workers=4)
    require_actions(graph, ["AddClause", "RegisterUnderlier", "SetAttr", "List", "Delist"])
    sim = ctx.tlc("MC_Registry", "MC_Registry_sim.cfg", workers=4, simulate=f"num={1500 if ctx.tier == 'quick' else 12000}", depth=8, seed=ctx.seed + 2, coverage=False)
    ctx.sections["registry_graph"] = {"distinct_states": graph.distinct, "transitions": graph.transitions}
    FN = {"f1": (lambda d, x: 2 * x + 1), "f2": (lambda d, x: 3 * x)}
    PRICER = {1: (lambda d: torch.full((2, 3), 1.0)), 2: (lambda d: torch.full((2, 3), 2.0))}

    class Probe(EuropeanOption):
        base = 3.0

        def payoff_fn(self):
            return torch.full((2,), float(self.base), dtype=torch.float64)

    seen = set()
    recs = []
    for r in list(ex.records) + list(sim.records):
        k = json.dumps(r["hist"], sort_keys=True)
        if k not in seen:
            seen.add(k)
            recs.append(r)
    if len(recs) < 1000:
        raise MachineryError(f"Registry: only {len(recs)} histories")

    def project(d, prims):
        who = {id(v): k for k, v in prims.items()}
        fid = {id(v): k for k, v in FN.items()}
        return {"clauses": [[n, fid.get(id(f), "?")] for n, f in d.named_clauses()], "unders": [[n, who.get(id(u), "?")] for n, u in d.named_underliers()],
                "listed": bool(d.is_listed), "cost": 0 if d.cost == 0.0 else (1 if d.cost == 1e-3 else -1), "pricer": 0 if d.pricer is None else {id(v): k for k, v in PRICER.items()}.get(id(d.pricer), -1)}

    def replay_all(ctx, recs):
      for r in recs:
          prims = {"p1": BrownianStock(dt=0.25, dtype=torch.float64), "p2": HestonStock(dt=0.25, dtype=torch.float32)}
          d = Probe(prims["p1"], strike=1.0, maturity=0.5)
          story = []
          ok_so_far = True
          for ev in r["hist"]:
              name = 7 if ev["name"] == "<int>" else ev["name"]
              story.append([ev["op"], ev["name"], ev["arg"]])
              try:
                  if ev["op"] == "AddClause":
                      d.add_clause(name, FN[ev["arg"]])
                  elif ev["op"] == "RegisterUnderlier":
                      d.register_underlier(name, prims[ev["arg"]])
                  elif ev["op"] == "SetAttr":
                      setattr(d, name, prims[ev["arg"]])
                  elif ev["op"] == "List":
                      d.list(PRICER[int(ev["arg"])], cost=ev["post"]["cost"] * 1e-3)
                  else:
                      d.delist()
                  res = "ok"
              except (TypeError, KeyError, ValueError, AttributeError, IndexError) as e:
                  res = type(e).__name__
              ctx.count(n=1)
              if res != ev["res"]:
                  ctx.violation(f"registry:{ev['op']}:outcome", f"{ev['op']}({ev['name']!r}) after {story[:-1]}: {res}, the registry machine says {ev['res']}", {"history": story, "observed": res, "expected": ev["res"]})
                  ok_so_far = False
                  break
              got = project(d, prims)
              if got != {k: ev["post"][k] for k in got}:
                  ctx.violation(f"registry:{ev['op']}:state", f"state after {ev['op']}({ev['name']!r}) differs from the registry machine's", {"history": story, "observed": got, "expected": ev["post"]})
                  ok_so_far = False
                  break
          if not ok_so_far:
              continue
          reads = r["reads"]
          prim_of = lambda x: x                                                                      # noqa: E731
          for base, key in ((3.0, "payoff3"), (5.0, "payoff5")):
              d.base = base
              po = d.payoff()
              ctx.count(n=1)
              if po.shape != (2,) or not bool((po == float(reads[key])).all()):
                  ctx.violation("registry:payoff", f"payoff() with clauses {[c[0] for c in project(d, prims)['clauses']]} is not the base payoff passed through the clauses in registration order",
                                {"history": story, "base": base, "expected": reads[key], "observed": po.tolist()})
          for idx, key in ((0, "ul0"), (1, "ul1"), (-1, "ulm1"), (5, "ul5")):
              try:
                  u = d.ul(idx)
                  got = {id(v): k for k, v in prims.items()}.get(id(u), "?")
              except IndexError:
                  got = "IndexError"
              ctx.count(n=1)
              if got != reads[key]:
                  ctx.violation("registry:ul", f"ul({idx}) is {got}, the registry machine says {reads[key]}", {"history": story})
          for nm, want_p in reads.get("attrs", []):
              got_p = {id(v): k for k, v in prims.items()}.get(id(getattr(d, nm, None)), "?")
              ctx.count(n=1)
              if got_p != want_p:
                  ctx.violation("registry:attribute", f"derivative.{nm} is {got_p} while the instrument registered under that name (named_underliers, ul()) is {want_p}", {"history": story})
          try:
              sp = d.spot
              got_spot = int(sp[0, 0].item())
          except ValueError:
              got_spot = -1
          ctx.count(n=1)
          if got_spot != reads["spot"]:
              ctx.violation("registry:spot", f"spot of a derivative that is {'listed' if reads['listed'] else 'not listed'}: observed {got_spot} (-1 = ValueError), expected {reads['spot']}", {"history": story})
          try:
              dt_ok = d.dtype == d.ul(0).dtype
          except AttributeError:
              dt_ok = False
          ctx.count(n=1)
          if dt_ok != reads["dtype_ok"]:
              ctx.violation("registry:dtype", f"dtype of a derivative with {len(project(d, prims)['unders'])} underlier(s): {'defined' if dt_ok else 'AttributeError'}, the machine says {'defined' if reads['dtype_ok'] else 'undefined'}", {"history": story})
    replay_all(ctx, recs)
    ctx.sections["registry_histories_replayed"] = len(recs)
    # binding demonstration: the same replay rejects a history whose expected post-state has the clause order reversed, and one
    # whose expected outcome of a rejected registration is "ok"
    probe = Ctx.__new__(Ctx)
    probe.__dict__.update({"_per_key": {}, "violations": [], "findings": [], "known_hits": {}, "evaluations": 0, "distinct": set()})
    r0 = json.loads(json.dumps(next(r for r in recs if len(r["hist"][-1]["post"]["clauses"]) >= 2)))
    r0["hist"][-1]["post"]["clauses"].reverse()
    r1 = json.loads(json.dumps(next(r for r in recs if r["hist"][-1]["res"] == "KeyError")))
    r1["hist"][-1]["res"] = "ok"
    replay_all(probe, [r0, r1])
    keys = {v["key"] if isinstance(v, dict) else getattr(v, "key", "") for v in probe.violations}
    ctx.selftest("registry histories with a reversed clause order / a rejected registration expected to succeed are rejected", len(probe.violations) >= 2)


def check(ctx: Ctx) -> None:
    with ThreadPoolExecutor(max_workers=6) as ex:
        results = list(ex.map(lambda c: ctx.tlc("MC_Payoff", f"MC_Payoff_{c}.cfg", workers=4), CFGS[ctx.tier]))
    recs: List[Dict[str, Any]] = []
    for res in results:
        require_actions(res, ["Register", "PayoffFn", "ApplyClause"])
        if not res.records:
            raise MachineryError(f"{res.cfg}: no record")
        recs += res.records
    replay(ctx, recs)
    ties_at_non_dyadic_strike(ctx)
    one_ulp_from_the_strike(ctx)
    variance_swap_units(ctx)
    registry_replay(ctx)
    # forward-start index over Grid.tla's (dt, k, fraction) menu: start = (k + f) dt  ->  index floor(start/dt) = k
    from pfhedge.instruments import BrownianStock, EuropeanForwardStartOption
    grid = ctx.tlc("MC_Grid", "MC_Grid_q.cfg" if ctx.tier == "quick" else "MC_Grid_t.cfg", workers=4)
    for g in grid.records:
        dt_f = g["dt"][0] / g["dt"][1]
        for sname, s_f in (("float(start)", frf(g["maturity"])), ("(k+f)*dt", float(g["k"] + fr(g["f"])) * dt_f)):
            idx = EuropeanForwardStartOption(BrownianStock(dt=dt_f), maturity=2 * s_f + dt_f, start=s_f)._start_index()
            ctx.count(n=1)
            if idx != g["start_index"]:
                kind = "integral-ratio" if fr(g["f"]) == 0 else "fractional-ratio"
                ctx.violation(f"payoff:forward_start:start-index:{kind}", f"forward-start index for start={sname} is {idx}, floor(start/dt) = {g['start_index']}",
                              {"dt": g["dt"], "k": g["k"], "f": g["f"], "start_float": s_f})
    for r in recs:
        ctx.distinct.add(json.dumps(r, sort_keys=True))
    for r in recs[:: max(1, len(recs) // 5)]:
        ctx.sample(r, cap=5)
    probe = Ctx.__new__(Ctx)
    probe.__dict__.update({"_per_key": {}, "violations": [], "findings": [], "known_hits": {}, "evaluations": 0, "distinct": set()})
    bad = [dict(r) for r in recs if r["kind"] == "european_binary" and not r["ops"] and len(r["path"]) == 2][:30]
    for b in bad:       # expect '>' instead of '>=': flip the value on ties with the strike
        if fr(b["strike"]) == b["path"][-1]:
            b["fn"] = [0, 1]
            b["payoff"] = [0, 1]
    replay(probe, bad)
    ctx.selftest("an expected binary payoff flipped on a tie with the strike is rejected", len(probe.violations) > 0)
    from checks import suite_oracles
    suite_oracles.suite(ctx, "payoff")    # every payoff computed in the repository's own tests against the contract
    ctx.traces_validated = len(recs)
    ctx.exhaustive = True
    ctx.rule = ("every terminal state of Payoff.tla: all paths over {1,2,4}^T (T=1..4), 6 strikes (at, between, outside lattice points), "
                "call/put, start indices, 15 clause registration sequences; replayed into functional and class forms, float64/float32")
    ctx.assumptions += ["variance swap compared through ln(2)^2 (one elementary function), tolerance 1e-12 relative"]


if __name__ == "__main__":
    raise SystemExit(run_check("C12", check))
