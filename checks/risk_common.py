"""Replay of Risk.tla cases into pfhedge's criteria (shared by C04, C05, C06)."""
from __future__ import annotations

import json
import math
from collections import defaultdict
from concurrent.futures import ThreadPoolExecutor
from fractions import Fraction
from typing import Any, Callable, Dict, List, Tuple

import torch

from lib.core import Ctx
from lib.doubles import LN2, fr
from lib.tlc import MachineryError

SINGLE_CFGS = {"quick": ["q_s1", "q_s2", "q_s3", "q_s4", "q_sq3", "q_p23"],
               "thorough": ["q_s1", "q_s2", "q_s3", "q_s4", "q_s5", "q_sq3", "q_p23", "t_s6", "t_sq4"]}
PAIR_CFGS = {"quick": ["q_pairs2", "q_pairs3"], "thorough": ["q_pairs2", "q_pairs3", "t_pairs4"]}


def run_risk_models(ctx: Ctx, pairs: bool) -> Tuple[List[Dict[str, Any]], List[Dict[str, Any]]]:
    jobs = [f"MC_Risk_{c}.cfg" for c in SINGLE_CFGS[ctx.tier]]
    if pairs:
        jobs += [f"MC_Risk_{c}.cfg" for c in PAIR_CFGS[ctx.tier]]
    heavy = {"MC_Risk_q_s5.cfg", "MC_Risk_t_s6.cfg", "MC_Risk_t_pairs4.cfg", "MC_Risk_q_s4.cfg", "MC_Risk_q_pairs3.cfg"}
    with ThreadPoolExecutor(max_workers=6) as ex:
        results = list(ex.map(lambda c: ctx.tlc("MC_Risk", c, workers=4, coverage=(c not in heavy)), jobs))
    singles: List[Dict[str, Any]] = []
    prs: List[Dict[str, Any]] = []
    for res in results:
        if not res.records:
            raise MachineryError(f"{res.cfg}: no record emitted")
        for r in res.records:
            (singles if r["kind"] == "risk" else prs).append(r)
    return singles, prs


def log2frac(q: Fraction) -> float:
    return math.log2(q.numerator) - math.log2(q.denominator)


def close(a: float, b: float, rel: float, abs_: float = 0.0) -> bool:
    if not (math.isfinite(a) and math.isfinite(b)):
        return a == b
    return abs(a - b) <= abs_ + rel * max(abs(a), abs(b))


def pfloat(p: List[int]) -> float:
    return p[0] / p[1]


def is_dyadic(p: List[int]) -> bool:
    d = p[1]
    return d & (d - 1) == 0


def es_from_sorted(xs: List[int], k: int) -> Fraction:
    return -Fraction(sum(xs[:k]), k)


TOL = {torch.float64: 1e-12, torch.float32: 2e-6}


class RiskReplay:
    """Value conformance of every criterion against the exact values of Risk.tla."""

    def __init__(self, ctx: Ctx, prefix: str) -> None:
        self.ctx = ctx
        self.prefix = prefix
        import pfhedge.nn.functional as F
        import pfhedge.nn as nn
        self.F, self.nn = F, nn

    def v(self, key: str, what: str, detail: Any) -> None:
        self.ctx.violation(f"{self.prefix}{key}", what, detail)

    # ------------------------------------------------------------------ layouts
    @staticmethod
    def layouts(X: torch.Tensor):
        """X has shape (N, M): the columns are independent samples. Yield (label, tensor, dim, unpack)."""
        N, M = X.shape
        yield "(N,M) dim=0", X, 0, (lambda y: y)
        yield "(M,N) dim=1", X.t().contiguous(), 1, (lambda y: y)
        yield "(M,N) dim=-1", X.t().contiguous(), -1, (lambda y: y)
        if M % 2 == 0 and M >= 4:
            yield "(N,M/2,2) dim=0", X.reshape(N, M // 2, 2), 0, (lambda y: y.reshape(-1))
            yield "(M/2,N,2) dim=1", X.reshape(N, M // 2, 2).permute(1, 0, 2).contiguous(), 1, (lambda y: y.reshape(-1))
            yield "(M/2,2,N) dim=2", X.reshape(N, M // 2, 2).permute(1, 2, 0).contiguous(), 2, (lambda y: y.reshape(-1))

    def compare(self, key: str, what: str, got: torch.Tensor, exp: List[float], recs, rel: float, abs_: float = 0.0, extra=None) -> bool:
        self.ctx.count(n=len(exp))
        if got.numel() != len(exp):
            self.v(key + ":shape", f"{what}: result has {tuple(got.shape)} entries for {len(exp)} independent samples", extra)
            return False
        g = got.double().flatten().tolist()
        for i, (a, b) in enumerate(zip(g, exp)):
            if not (close(a, b, rel, abs_)):
                self.v(key, what, {"x": recs[i]["x"], "expected": b, "observed": a, **(extra or {})})
                return False
        return True

    # ------------------------------------------------------------------ main entry
    def replay_values(self, recs: List[Dict[str, Any]], which: str = "all") -> None:
        byN: Dict[Tuple[int, str], List[Dict[str, Any]]] = defaultdict(list)
        for r in recs:
            byN[(len(r["x"]), json.dumps([r["ps"], r["lams"]]))].append(r)
        for (N, _), rs in byN.items():
            if len(rs) % 2 == 1 and len(rs) > 4:
                rs = rs + [rs[0]]
            for dtype in (torch.float64, torch.float32):
                X = torch.tensor([r["x"] for r in rs], dtype=dtype).t().contiguous()   # (N, M)
                self._es(rs, X, N, dtype)
                self._var(rs, X, N, dtype)
                self._erm(rs, X, N, dtype)
                if dtype == torch.float64:
                    self._qcvar(rs, X, N, dtype)
                    self._utility_losses(rs, X, N, dtype)

    # ------------------------------------------------------------------ expected shortfall
    def _es(self, rs, X, N, dtype) -> None:
        F, nn = self.F, self.nn
        ps = rs[0]["ps"]
        for j, p in enumerate(ps):
            pf = pfloat(p)
            kf = math.ceil(pf * N)
            exp = []
            for r in rs:
                k = r["k"][j]
                if kf != k and not is_dyadic(p) and abs(pf * N - round(pf * N)) < 1e-9:
                    exp.append(float(es_from_sorted(sorted(r["x"]), kf)))     # borderline level: adjacent count accepted
                    self.ctx.skip("borderline quantile level: adjacent order-statistic count accepted")
                else:
                    exp.append(float(fr(r["es"][j])))
            for label, t, dim, unpack in self.layouts(X):
                try:
                    got = unpack(F.expected_shortfall(t, pf, dim=dim))
                except Exception as e:
                    self.v("es:raises", f"expected_shortfall raised {type(e).__name__} on {label}", {"p": p, "N": N, "error": repr(e)[:200]})
                    continue
                self.compare("es:value", f"expected_shortfall(p={p[0]}/{p[1]}, {label}) is not minus the mean of the ceil(pN) worst outcomes",
                             got, exp, rs, TOL[dtype], TOL[dtype], {"p": p, "layout": label, "dtype": str(dtype)})
            got = nn.ExpectedShortfall(pf)(X)
            self.compare("es:module", f"ExpectedShortfall({p[0]}/{p[1]}) module differs from the definition", got, exp, rs, TOL[dtype], TOL[dtype], {"p": p})
            tgt = torch.arange(X.size(1), dtype=dtype) - 2.0
            got = nn.ExpectedShortfall(pf)(X + tgt, target=tgt)
            self.compare("es:target", "ExpectedShortfall does not subtract the target first", got, exp, rs, 10 * TOL[dtype], 10 * TOL[dtype], {"p": p})
            got1 = torch.stack([F.expected_shortfall(X[:, i], pf) for i in range(min(X.size(1), 16))])
            self.compare("es:dim-none", "expected_shortfall(1-D sample, dim=None) differs from the definition", got1, exp[:16], rs, TOL[dtype], TOL[dtype], {"p": p})

    # ------------------------------------------------------------------ value at risk
    def _var(self, rs, X, N, dtype) -> None:
        F = self.F
        ps = rs[0]["ps"]
        prev = None
        order = sorted(range(len(ps)), key=lambda j: Fraction(*ps[j]))
        for j in order:
            p = ps[j]
            pf = pfloat(p)
            for label, t, dim, unpack in self.layouts(X):
                try:
                    got = unpack(F.value_at_risk(t, pf, dim=dim))
                except Exception as e:
                    self.v("var:raises", f"value_at_risk raised {type(e).__name__} on {label}", {"p": p, "N": N, "error": repr(e)[:200]})
                    continue
                self.ctx.count(n=len(rs))
                g = got.double().tolist()
                borderline = (not is_dyadic(p)) and abs(pf * N - round(pf * N)) < 1e-9
                for i, r in enumerate(rs):
                    if r["varfixed"][j] and not borderline:
                        e = float(fr(r["var"][j]))
                        if not close(g[i], e, TOL[dtype], TOL[dtype]):
                            self.v("var:fixed-point", f"value_at_risk(p={p[0]}/{p[1]}) is not the prescribed order statistic",
                                   {"x": r["x"], "p": p, "expected": e, "observed": g[i], "layout": label})
                            break
                    if not (r["min"] - 1e-6 <= g[i] <= r["max"] + 1e-6):
                        self.v("var:range", "value_at_risk outside [min, max] of the sample", {"x": r["x"], "p": p, "observed": g[i]})
                        break
                if dim == 0 and label.startswith("(N,M)"):
                    if prev is not None and bool((got.double() < prev - 1e-6).any()):
                        i = int((got.double() < prev - 1e-6).nonzero()[0])
                        self.v("var:monotone-in-p", "value_at_risk decreases when p increases", {"x": rs[i]["x"], "p": p})
                    prev = got.double()
                    nd = sum(1 for i, r in enumerate(rs) if not close(g[i], float(fr(r["var"][j])), 1e-5, 1e-5))
                    if nd:
                        self.ctx.sections["var_interpolation_mismatches_diagnostic"] = self.ctx.sections.get("var_interpolation_mismatches_diagnostic", 0) + nd

    # ------------------------------------------------------------------ entropic risk measure / loss
    def _erm(self, rs, X, N, dtype) -> None:
        F, nn = self.F, self.nn
        keep = [i for i, r in enumerate(rs) if r["m2"]]
        if not keep:
            return
        rs2 = [rs[i] for i in keep]
        X2 = X[:, keep]
        for ai, a2 in enumerate((1, 2)):
            a = a2 * LN2
            exp = [log2frac(fr(r["m2"][ai])) / a2 for r in rs2]
            tol = 1e-12 if dtype == torch.float64 else 1e-5
            got = F.entropic_risk_measure(X2, a=a)
            self.compare("erm:value", f"entropic_risk_measure(a={a2} ln2) is not (1/a) log mean exp(-a x)", got, exp, rs2, tol, tol, {"a2": a2})
            got = nn.EntropicRiskMeasure(a)(X2)
            self.compare("erm:module", "EntropicRiskMeasure module differs from the definition", got, exp, rs2, tol, tol, {"a2": a2})
            tgt = torch.arange(X2.size(1), dtype=dtype) * 0.5
            got = nn.EntropicRiskMeasure(a)(X2 + tgt, target=tgt)
            self.compare("erm:target", "EntropicRiskMeasure does not subtract the target first", got, exp, rs2, 10 * tol, 10 * tol, {"a2": a2})
            if dtype == torch.float64:
                # no overflow: ERM(x + c) = ERM(x) - c for |a c| in the thousands (exp would overflow naively)
                for c in (-4096.0, 8192.0):
                    got = F.entropic_risk_measure(X2 + c, a=a)
                    self.compare("erm:overflow", f"entropic_risk_measure overflows or loses cash invariance at shift {c}", got,
                                 [e - c for e in exp], rs2, 1e-12, 1e-9, {"a2": a2, "shift": c})
                # columns of very different levels in ONE tensor (a stabilising shift must be per column)
                cs = torch.tensor([(-4096.0, 0.0, 8192.0, 512.0)[i % 4] for i in range(X2.size(1))], dtype=dtype)
                got = F.entropic_risk_measure(X2 + cs, a=a)
                self.compare("erm:overflow-mixed-columns", "entropic_risk_measure is not finite/exact when columns live on very different levels",
                             got, [e - c for e, c in zip(exp, cs.tolist())], rs2, 1e-12, 1e-9, {"a2": a2})
                # scale equivariance ERM_{a/s}(s x) = s ERM_a(x): tiny and huge risk aversions
                for kexp in (20, 12, -10):
                    sc = 2.0 ** kexp
                    got = F.entropic_risk_measure(X2 * sc, a=a / sc)
                    self.compare("erm:scale", f"entropic_risk_measure(x*2^{kexp}, a/2^{kexp}) is not 2^{kexp} * ERM_a(x)", got,
                                 [e * sc for e in exp], rs2, 1e-11, 1e-12 * sc, {"a2": a2, "scale_exp": kexp})
                # large exponents (a * loss in the hundreds): the entropic LOSS is mean 2^(-a2 k x), evaluated exactly with
                # Python integers from the definition M2 of Risk.tla (TLC's 32-bit integers cannot hold these powers)
                for kk in (40, 64):
                    big = [float(sum(Fraction(2) ** (-a2 * kk * v) for v in r["x"]) / len(r["x"])) for r in rs2]
                    got = nn.EntropicLoss(a)(X2 * kk)
                    self.compare("eloss:large-exponent", f"EntropicLoss is not mean exp(-a x) when a*x reaches the hundreds (x scaled by {kk})", got, big, rs2, 1e-9, 0.0, {"a2": a2, "scale": kk})
                    got = -F.exp_utility(X2 * kk, a=a).mean(0)
                    self.compare("eloss:utility-large-exponent", "exp_utility is not -exp(-a x) for large exponents", got, big, rs2, 1e-9, 0.0, {"a2": a2, "scale": kk})
            el = [float(fr(r["m2"][ai])) for r in rs2]
            got = nn.EntropicLoss(a)(X2)
            self.compare("eloss:value", "EntropicLoss is not mean exp(-a x)", got, el, rs2, 100 * tol, 0.0, {"a2": a2})
            got = -F.exp_utility(X2, a=a).mean(0)
            self.compare("eloss:utility", "exp_utility is not -exp(-a x)", got, el, rs2, 100 * tol, 0.0, {"a2": a2})

    # ------------------------------------------------------------------ quadratic CVaR
    def _qcvar(self, rs, X, N, dtype) -> None:
        F, nn = self.F, self.nn
        for j, lam in enumerate(rs[0]["lams"]):
            exp = [float(fr(r["qcvar"][j])) for r in rs]
            calls = [(label, (lambda t=t, dim=dim, unpack=unpack: unpack(F.quadratic_cvar(t, float(lam), dim=dim))))
                     for label, t, dim, unpack in self.layouts(X)]
            calls.append(("module", lambda: nn.QuadraticCVaR(float(lam))(X)))
            n1 = min(X.size(1), 8)
            calls.append(("1-D dim=None", lambda: torch.stack([F.quadratic_cvar(X[:, i], float(lam)) for i in range(n1)])))
            for label, call in calls:
                try:
                    got = call().double().flatten().tolist()
                except Exception as e:
                    self.v("qcvar:raises", f"quadratic_cvar raised {type(e).__name__} on {label}", {"lam": lam, "N": N, "error": repr(e)[:200]})
                    continue
                self.ctx.count(n=len(got))
                reported = set()
                for i, g in enumerate(got):
                    r = rs[i]
                    if close(g, exp[i], 1e-6, 1e-6):
                        continue
                    # known finding: the search bracket [min(-x~), max(-x~)] misses the root for concentrated samples;
                    # the function then returns the objective at omega = -max(x~)
                    xs = r["x"]
                    mean = sum(xs) / len(xs)
                    conc = (max(xs) - mean) < 1.0 / (2 * lam)
                    wrong = -max(xs) + lam * sum((max(xs) - v) ** 2 for v in xs) / len(xs)
                    key = "qcvar:concentrated-sample" if conc and close(g, wrong, 1e-6, 1e-6) else "qcvar:value"
                    if (key, label) in reported:
                        continue
                    reported.add((key, label))
                    self.v(key, f"quadratic_cvar(lam={lam}) is not min_w w + lam*mean(max(-w-x,0)^2): a better w exists",
                           {"x": xs, "lam": lam, "expected": exp[i], "observed": g, "layout": label})

    # ------------------------------------------------------------------ isoelastic / OCE
    def _utility_losses(self, rs, X, N, dtype) -> None:
        F, nn = self.F, self.nn
        sq = [i for i, r in enumerate(rs) if r["iso"][0]]
        if sq:
            rs2 = [rs[i] for i in sq]
            got = nn.IsoelasticLoss(0.5)(X[:, sq])
            self.compare("iso:half", "IsoelasticLoss(0.5) is not -mean sqrt(x)", got, [float(fr(r["iso"][1])) for r in rs2], rs2, 1e-12, 1e-12)
        p2 = [i for i, r in enumerate(rs) if r["isolog"][0]]
        if p2:
            rs2 = [rs[i] for i in p2]
            got = nn.IsoelasticLoss(1.0)(X[:, p2])
            self.compare("iso:log", "IsoelasticLoss(1) is not -mean log(x)", got, [float(fr(r["isolog"][1])) * LN2 for r in rs2], rs2, 1e-12, 1e-12)

        from pfhedge.nn.modules.loss import OCE

        def u_poly(z: torch.Tensor) -> torch.Tensor:
            return z - z.square() / 4

        def u_exp2(z: torch.Tensor) -> torch.Tensor:
            return -torch.exp2(-z)

        for wi, w in enumerate((0, 1, 3)):
            oce = OCE(u_poly)
            with torch.no_grad():
                oce.w.fill_(float(w))
            got = oce(X)
            self.compare("oce:poly", f"OCE(w={w}) is not w - mean u(x + w)", got, [float(fr(r["oce"][wi])) for r in rs], rs, 1e-12, 1e-12, {"w": w})
            tgt = torch.arange(X.size(1), dtype=dtype) - 1.0
            got = oce(X + tgt, target=tgt)
            self.compare("oce:target", "OCE does not subtract the target first", got, [float(fr(r["oce"][wi])) for r in rs], rs, 1e-11, 1e-11, {"w": w})
        keep = [i for i, r in enumerate(rs) if r["ocexp"]]
        if keep:
            rs2 = [rs[i] for i in keep]
            for wi, w in enumerate((0, 2)):
                oce = OCE(u_exp2)
                with torch.no_grad():
                    oce.w.fill_(float(w))
                got = oce(X[:, keep])
                self.compare("oce:exp2", f"OCE(exponential utility, w={w}) is not w - mean u(x + w)", got, [float(fr(r["ocexp"][wi])) for r in rs2], rs2, 1e-12, 1e-12, {"w": w})


def spellings(ctx: Ctx, recs: List[Dict[str, Any]]) -> None:
    """The value of a criterion does not depend on how its arguments are spelt: integer vs float parameters, target as a Python
    number / 0-dim tensor / full tensor / omitted-and-subtracted-by-the-caller, input contiguous or a transposed view, with or
    without requires_grad."""
    import pfhedge.nn as nn
    import pfhedge.nn.functional as F
    rs = [r for r in recs if len(r["x"]) >= 3][:24]
    if not rs:
        return
    N = len(rs[0]["x"])
    rs = [r for r in rs if len(r["x"]) == N]
    X = torch.tensor([r["x"] for r in rs], dtype=torch.float64).t().contiguous()          # (N, M)
    crits = [("EntropicRiskMeasure(a=1)", nn.EntropicRiskMeasure(1), nn.EntropicRiskMeasure(1.0)), ("EntropicRiskMeasure(a=2)", nn.EntropicRiskMeasure(2), nn.EntropicRiskMeasure(2.0)),
             ("EntropicLoss(a=1)", nn.EntropicLoss(1), nn.EntropicLoss(1.0)), ("IsoelasticLoss(a=1)", nn.IsoelasticLoss(1), nn.IsoelasticLoss(1.0)),
             ("ExpectedShortfall(p=1)", nn.ExpectedShortfall(1), nn.ExpectedShortfall(1.0)), ("ExpectedShortfall(p=0.5)", nn.ExpectedShortfall(0.5), nn.ExpectedShortfall(p=0.5)),
             ("QuadraticCVaR(lam=2)", nn.QuadraticCVaR(2), nn.QuadraticCVaR(2.0))]
    for name, a, b in crits:
        Xp = X.abs() + 1.0 if name.startswith("Isoelastic") else X
        try:
            base = b(Xp)
            variants = {"integer parameter": a(Xp),
                        "target 0.0": b(Xp, 0.0), "target 0-dim": b(Xp + 1.5, torch.tensor(1.5, dtype=Xp.dtype)), "target full tensor": b(Xp + 1.5, torch.full_like(Xp, 1.5)),
                        "target Python number": b(Xp + 1.5, 1.5), "target keyword": b(Xp + 0.25, target=0.25),
                        "transposed view": b(Xp.t().contiguous().t()), "requires_grad": b(Xp.clone().requires_grad_()).detach()}
        except Exception as e:
            ctx.violation(f"spelling:{name.split('(')[0]}:raises", f"{name} raised {type(e).__name__} for an admissible spelling of its arguments", {"error": repr(e)[:200]})
            continue
        for label, got in variants.items():
            ctx.count(n=1)
            tol = 1e-9 if name.startswith("QuadraticCVaR") else 1e-12
            if got.shape != base.shape or got.dtype != base.dtype or not bool(((got - base).abs() <= tol * (1 + base.abs())).all()):
                ctx.violation(f"spelling:{name.split('(')[0]}", f"{name}: the value changes with the spelling of the arguments ({label})",
                              {"variant": label, "base": base.flatten().tolist()[:4], "observed": got.flatten().tolist()[:4]})
    # parameters are public attributes: a criterion whose parameter is reassigned after construction (a sweep re-using one
    # object) is the criterion of the new parameter
    Xpos = X.abs() + 1.0
    sweeps = [("EntropicRiskMeasure", lambda a: nn.EntropicRiskMeasure(a), "a", 1.0, 2.0, X), ("EntropicLoss", lambda a: nn.EntropicLoss(a), "a", 1.0, 0.5, X),
              ("IsoelasticLoss", lambda a: nn.IsoelasticLoss(a), "a", 0.5, 1.0, Xpos), ("IsoelasticLoss", lambda a: nn.IsoelasticLoss(a), "a", 1.0, 0.25, Xpos),
              ("ExpectedShortfall", lambda q: nn.ExpectedShortfall(q), "p", 0.5, 0.25, X), ("QuadraticCVaR", lambda l: nn.QuadraticCVaR(l), "lam", 2.0, 4.0, X)]
    for fam, mk, attr, first, then, Xs in sweeps:
        try:
            obj = mk(first)
            obj(Xs); obj.cash(Xs)                      # used once with the first value
            setattr(obj, attr, then)
            got, gotc = obj(Xs), obj.cash(Xs)
            want, wantc = mk(then)(Xs), mk(then).cash(Xs)
        except Exception as e:
            ctx.violation(f"spelling:{fam}:reassigned:raises", f"{fam} raised {type(e).__name__} after its parameter {attr} was reassigned", {"error": repr(e)[:200]})
            continue
        ctx.count(n=2)
        tol = 1e-6 if fam == "QuadraticCVaR" else 1e-12
        if not bool(((got - want).abs() <= tol * (1 + want.abs())).all()) or not bool(((gotc - wantc).abs() <= max(tol, 1e-9) * (1 + wantc.abs())).all()):
            ctx.violation(f"spelling:{fam}:reassigned", f"{fam} whose attribute {attr} was changed from {first} to {then} after construction is not the criterion of {attr} = {then}",
                          {"loss": got.flatten().tolist()[:3], "fresh": want.flatten().tolist()[:3], "cash": gotc.flatten().tolist()[:3], "fresh_cash": wantc.flatten().tolist()[:3]})
    # relative risk aversion next to (but not equal to) one: the power utility, not its a = 1 limit
    for a in (1 - 2.0 ** -33, 1 + 2.0 ** -33, 0.9999999999):
        try:
            got = nn.IsoelasticLoss(a)(Xpos) if a < 1 else None
            gotf = F.isoelastic_utility(Xpos, a=a) if a < 1 else None
        except Exception as e:
            ctx.violation("spelling:IsoelasticLoss:near-one:raises", f"IsoelasticLoss(a={a!r}) raised {type(e).__name__}", {"error": repr(e)[:200]})
            continue
        if got is None:
            continue
        want = -(Xpos.pow(1 - a)).mean(0)
        ctx.count(n=1)
        if not bool(((got - want).abs() <= 1e-9).all()) or not bool(((gotf - Xpos.pow(1 - a)).abs() <= 1e-9).all()):
            ctx.violation("spelling:IsoelasticLoss:near-one", f"IsoelasticLoss(a={a!r}) is not minus the mean of x^(1-a) (a is not equal to 1)", {"observed": got.flatten().tolist()[:3], "expected": want.flatten().tolist()[:3]})
    # functional forms: integer parameters, p / a / lam given positionally or by keyword
    try:
        pairs = [("expected_shortfall", F.expected_shortfall(X, 0.5, dim=0), F.expected_shortfall(X, p=0.5, dim=0)),
                 ("expected_shortfall p=1", F.expected_shortfall(X, 1, dim=0), F.expected_shortfall(X, 1.0, dim=0)),
                 ("value_at_risk p=1", F.value_at_risk(X, 1, dim=0), F.value_at_risk(X, 1.0, dim=0)),
                 ("entropic_risk_measure", F.entropic_risk_measure(X, 2), F.entropic_risk_measure(X, a=2.0)),
                 ("exp_utility", F.exp_utility(X, 1), F.exp_utility(X, a=1.0)),
                 ("quadratic_cvar", F.quadratic_cvar(X, 2, dim=0), F.quadratic_cvar(X, lam=2.0, dim=0))]
    except Exception as e:
        ctx.violation("spelling:functional:raises", f"a functional form raised {type(e).__name__} for an integer / keyword parameter", {"error": repr(e)[:200]})
        pairs = []
    for name, a, b in pairs:
        ctx.count(n=1)
        if a.shape != b.shape or a.dtype != b.dtype or not bool(((a - b).abs() <= 1e-9 * (1 + b.abs())).all()):
            ctx.violation(f"spelling:functional:{name}", f"{name}: integer / positional and float / keyword parameters give different values", {"a": a.flatten().tolist()[:4], "b": b.flatten().tolist()[:4]})


def levels_near_a_count(ctx: Ctx) -> None:
    """Quantile levels p with p*N close to - but MORE than the 1e-9 of the property's borderline clause away from - an integer:
    the tail has exactly ceil(pN) outcomes (k+1 just above k, k just below, one outcome for p*N just above zero); value at risk
    is the minimum for p <= 1/N."""
    import math as _m
    import pfhedge.nn.functional as F
    from pfhedge.nn import ExpectedShortfall
    for N in (1, 4, 10, 100):
        xs = [((7 * i) % N) - N / 4 + 0.5 * (i % 3) for i in range(N)]
        srt = sorted(xs)
        for k in sorted({0, 1, N // 2, N - 1}):
            for eps in (1e-7, 5e-8, 3e-7, -1e-7, -3e-7):
                p = (k + eps) / N
                if not (0 < p <= 1) or abs(p * N - round(p * N)) < 5e-9:
                    continue
                cnt = _m.ceil(p * N)
                want = -sum(srt[:cnt]) / cnt
                for dtype, tol in ((torch.float64, 1e-12), (torch.float32, 1e-5)):
                    t = torch.tensor(xs, dtype=dtype)
                    for label, fn in (("expected_shortfall", lambda: F.expected_shortfall(t, p)), ("expected_shortfall(dim=0) on (N, 2)", lambda: F.expected_shortfall(torch.stack([t, t], 1), p, dim=0)[1]),
                                      ("ExpectedShortfall", lambda: ExpectedShortfall(p)(t))):
                        ctx.count(n=1)
                        try:
                            got = float(fn())
                        except Exception as e:
                            ctx.violation("es:level-near-count", f"{label} raised {type(e).__name__} for a level with p*N = {k} {'+' if eps > 0 else '-'} {abs(eps)}", {"N": N, "p": p, "error": repr(e)[:200]})
                            continue
                        if not _m.isfinite(got) or abs(got - want) > tol * (1 + abs(want)):
                            ctx.violation("es:level-near-count", f"{label} at p*N = {k} {'+' if eps > 0 else '-'} {abs(eps)} is not minus the mean of the ceil(pN) = {cnt} worst outcomes",
                                          {"N": N, "p": p, "pN": p * N, "expected": want, "observed": got, "dtype": str(dtype)})
        for p in (1e-8, 1e-3 / N, 0.999999 / N):
            ctx.count(n=1)
            got = float(F.value_at_risk(torch.tensor(xs, dtype=torch.float64), p))
            if got != srt[0]:
                ctx.violation("var:level-near-count", "value_at_risk for p <= 1/N is not the minimum", {"N": N, "p": p, "expected": srt[0], "observed": got})


def selftest_values(ctx: Ctx, recs: List[Dict[str, Any]]) -> None:
    """Binding demonstration: corrupt one expected value; the replay must reject it."""
    probe = Ctx.__new__(Ctx)
    probe.__dict__.update({"_per_key": {}, "violations": [], "findings": [], "known_hits": {}, "evaluations": 0, "distinct": set(), "sections": {}, "skipped": {}})
    sub = [json.loads(json.dumps(r)) for r in recs if len(r["x"]) == 3][:40]
    sub[5]["es"][2] = [sub[5]["es"][2][0] + sub[5]["es"][2][1], sub[5]["es"][2][1]]   # ES + 1
    RiskReplay(probe, "").replay_values(sub)
    ctx.selftest("a corrupted expected-shortfall value is rejected", any(v["key"].startswith("es:") for v in probe.violations))


# =============================================================================================
# C04: the axioms replayed on the implementation itself (pairs and magnitudes TLC's lattice cannot hold)
# =============================================================================================
def mixed_magnitudes(ctx: Ctx) -> None:
    """Samples whose outcomes differ by eight orders of magnitude (a few huge gains next to small losses), float32 and float64:
    expected shortfall and value at risk are order statistics - they select outcomes, they do not compute them by difference - so the
    bounds, the definition and the monotonicity in p hold to the precision of the SELECTED outcomes."""
    import pfhedge.nn.functional as F
    import pfhedge.nn as nn
    from fractions import Fraction as Fr
    import math as _m
    base = [0.01, 0.02, 0.03, 0.04, 0.05, 0.06, 0.07, 1e6, 1e6, 1e6]
    for dtype in (torch.float32, torch.float64):
        for sample in (base, [-v for v in base], base[:7] + [3e5, 5e5, 1e6]):
            x = torch.tensor(sample, dtype=dtype)
            xs = sorted(Fr(float(v)) for v in x.tolist())
            prev = None
            for p in (0.1, 0.3, 0.5, 0.6, 0.7, 0.9, 1.0):
                k = _m.ceil(p * len(xs))
                want = float(-sum(xs[:k]) / k)
                tol = 4 * torch.finfo(dtype).eps * max(abs(want), max(abs(float(v)) for v in xs[:k]))
                for label, got in (("functional dim=0", F.expected_shortfall(x[:, None], p, dim=0)[0]), ("functional", F.expected_shortfall(x, p)), ("module", nn.ExpectedShortfall(p)(x))):
                    ctx.count(n=1)
                    if not (abs(got.item() - want) <= tol):
                        ctx.violation("es:mixed-magnitudes", f"expected shortfall ({label}) of a sample with outcomes of very different magnitude is not minus the mean of the ceil(pN) worst outcomes",
                                      {"sample": sample, "p": p, "dtype": str(dtype), "expected": want, "observed": got.item()})
                if prev is not None and want > prev[1] + 1e-30:
                    raise MachineryError("reference expected shortfall not monotone in p")
                prev = (p, want)


def batch_independence(ctx: Ctx) -> None:
    """The risk of a sample does not depend on what else is in the batch: columns of very different spreads (units, thousands,
    millions) evaluated in one (N, M) call give, column by column, the value of that column evaluated alone - to the accuracy
    of the column's own scale.  (All columns are dispersed enough for the quadratic CVaR's bracket: no concentrated sample.)"""
    import pfhedge.nn.functional as F
    base = torch.tensor([-2.0, -1.0, 0.0, 1.0, 3.0, -5.0, 2.5, 0.5], dtype=torch.float64)
    for scales in ((1.0, 1e3, 1e6), (1e6, 1.0), (5.0, 2e6, 40.0)):
        X = torch.stack([base * sc + 0.25 * sc for sc in scales], dim=1)
        measures = [("es(p=0.3)", lambda t: F.expected_shortfall(t, 0.3, dim=0), 1e-12), ("erm(a=1/scale)", None, 1e-10), ("qcvar(lam=1)", lambda t: F.quadratic_cvar(t, 1.0, dim=0), 1e-8),
                    ("qcvar(lam=10)", lambda t: F.quadratic_cvar(t, 10.0, dim=0), 1e-8)]
        for name, rho, tol in measures:
            if rho is None:
                continue
            try:
                together = rho(X)
                alone = torch.stack([rho(X[:, [j]])[0] for j in range(X.size(1))])
            except Exception as e:
                ctx.violation(f"axiom:{name.split('(')[0]}:batch:raises", f"{name} raised {type(e).__name__} on columns of very different spreads", {"error": repr(e)[:200]})
                continue
            ctx.count(n=X.size(1))
            sc = torch.tensor(scales, dtype=torch.float64)
            bad = ~((together - alone).abs() <= tol * sc * 8)
            if bool(bad.any()):
                j = int(bad.nonzero()[0])
                ctx.violation(f"axiom:{name.split('(')[0]}:batch-independence", f"{name} of a column evaluated together with columns of very different spreads differs from the same column evaluated alone",
                              {"scales": list(scales), "column": j, "in_batch": together[j].item(), "alone": alone[j].item()})


def axiom_replay(ctx: Ctx, pairs: List[Dict[str, Any]], seed: int) -> None:
    import pfhedge.nn.functional as F
    import pfhedge.nn as nn
    mixed_magnitudes(ctx)
    batch_independence(ctx)

    byN: Dict[int, List[Dict[str, Any]]] = defaultdict(list)
    for r in pairs:
        byN[len(r["x"])].append(r)
    ps = [1 / 8, 0.2, 0.25, 1 / 3, 0.5, 0.6, 0.75, 0.9, 1.0]
    lams = [1.0, 2.0, 10.0]
    g = torch.Generator().manual_seed(seed)

    def conc(t: torch.Tensor, lam: float) -> torch.Tensor:
        return (t.max(0).values - t.mean(0)) < 1.0 / (2 * lam) + 1e-9

    for N, rs in byN.items():
        for dtype in (torch.float64,):
            X = torch.tensor([r["x"] for r in rs], dtype=dtype).t().contiguous()
            Y = torch.tensor([r["y"] for r in rs], dtype=dtype).t().contiguous()
            # heavy-tailed mixtures of lattice points and magnitudes 1e-6 .. 1e6 (equivariances proved by TLC on the spec)
            for scale in (1.0, 1e-6, 1e6):
                Xs, Ys = X * scale, Y * scale
                measures: List[Tuple[str, Callable[[torch.Tensor], torch.Tensor], float, Any]] = []
                for p in ps:
                    measures.append((f"es(p={p:.3f})", (lambda t, p=p: F.expected_shortfall(t, p, dim=0)), 1e-9, None))
                for a in (0.5, 1.0, 2.0):
                    measures.append((f"erm(a={a}/scale)", (lambda t, a=a: F.entropic_risk_measure(t, a=a / scale)), 1e-9, None))
                for lam in lams:
                    # rho_lam(s x) = s rho_{lam s}(x): keep the effective lambda in the admissible range
                    if lam * scale >= 1.0 or scale == 1.0:
                        measures.append((f"qcvar(lam={lam})", (lambda t, lam=lam: F.quadratic_cvar(t, lam, dim=0)), 1e-5, lam))
                # ... and the criterion MODULES, as long-lived objects whose parameter is re-assigned for every level (a sweep over one
                # criterion object): the axioms hold for the criterion of the CURRENT parameter
                def via_module(mod, attr, value):
                    def rho(t):
                        setattr(mod, attr, value)
                        return mod(t)
                    return rho
                m_es, m_erm, m_q = nn.ExpectedShortfall(0.3), nn.EntropicRiskMeasure(3.0), nn.QuadraticCVaR(5.0)
                for p in ps[::2]:
                    measures.append((f"es(p={p:.3f}) [module]", via_module(m_es, "p", p), 1e-9, None))
                for a in (0.5, 2.0):
                    measures.append((f"erm(a={a}/scale) [module]", via_module(m_erm, "a", a / scale), 1e-9, None))
                for lam in lams:
                    if lam * scale >= 1.0 or scale == 1.0:
                        measures.append((f"qcvar(lam={lam}) [module]", via_module(m_q, "lam", lam), 1e-5, lam))
                for name, rho, tol, lam in measures:
                    tol_abs = tol * scale * 8
                    try:
                        rx, ry = rho(Xs), rho(Ys)
                    except Exception as e:
                        ctx.violation(f"axiom:{name.split('(')[0]}:raises", f"{name} raised {type(e).__name__} at scale {scale}", {"error": repr(e)[:200]})
                        continue
                    ctx.count(n=X.size(1))
                    known = torch.zeros(X.size(1), dtype=torch.bool)
                    if lam is not None:
                        known = conc(Xs, lam) | conc(Ys, lam)
                    fam = name.split("(")[0]

                    def report(kind: str, bad: torch.Tensor, extra: Dict[str, Any]) -> None:
                        if not bool(bad.any()):
                            return
                        fresh = bad & ~known
                        if bool((bad & known).any()) and lam is not None:
                            ctx.violation("qcvar:concentrated-sample", f"{name}: {kind} fails on a concentrated sample", {"scale": scale})
                        if bool(fresh.any()):
                            i = int(fresh.nonzero()[0])
                            ctx.violation(f"axiom:{fam}:{kind}", f"{name} violates {kind} (scale {scale})",
                                          {"x": rs[i]["x"], "y": rs[i]["y"], "scale": scale, "rho_x": rx[i].item(), "rho_y": ry[i].item(), **extra})

                    leq = (X <= Y).all(0)
                    report("monotonicity", leq & ~(ry <= rx + tol_abs), {})
                    for c in (-3.0 * scale, 2.0 * scale, 1e4 * scale):
                        rc = rho(Xs + c)
                        knc = known if lam is None else (known | conc(Xs + c, lam))
                        bad = ~((rc - (rx - c)).abs() <= tol_abs + 1e-12 * abs(c))
                        report("cash-invariance", bad & ~(knc & ~known), {"c": c})
                    for w in (0.5, 0.25):
                        mix = w * Xs + (1 - w) * Ys
                        rm = rho(mix)
                        kn2 = torch.zeros_like(known) if lam is None else conc(mix, lam)
                        bad = ~(rm <= w * rx + (1 - w) * ry + tol_abs)
                        if lam is not None and bool((bad & kn2 & ~known).any()):
                            ctx.violation("qcvar:concentrated-sample", f"{name}: convexity fails on a concentrated mixture", {"scale": scale})
                            bad = bad & ~kn2
                        report("convexity", bad, {"w": w})
                    lo, hi, mean = Xs.min(0).values, Xs.max(0).values, Xs.mean(0)
                    shift = 0.0 if lam is None else 1.0 / (4 * lam)
                    report("bounds", ~((rx >= -hi - shift - tol_abs) & (rx <= -lo - shift + tol_abs) & (rx >= -mean - shift - tol_abs)), {})
                    if fam == "es":
                        p = float(name[5:10])
                        for s in (2.0, 1e-3, 1e3):
                            report("positive-homogeneity", ~((F.expected_shortfall(Xs * s, p, dim=0) - s * rx).abs() <= tol_abs * s * 4), {"s": s})
                # ES non-increasing in p; ERM non-decreasing in a
                prev = None
                for p in ps:
                    cur = F.expected_shortfall(Xs, p, dim=0)
                    if prev is not None and bool((cur > prev + 1e-9 * scale * 8).any()):
                        i = int((cur > prev + 1e-9 * scale * 8).nonzero()[0])
                        ctx.violation("axiom:es:monotone-in-p", "expected shortfall increases with the quantile level", {"x": rs[i]["x"], "p": p, "scale": scale})
                    prev = cur
                prev = None
                for a in (0.1, 0.5, 1.0, 2.0, 10.0):
                    cur = F.entropic_risk_measure(Xs, a=a / scale)
                    if prev is not None and bool((cur < prev - 1e-9 * scale * 8).any()):
                        i = int((cur < prev - 1e-9 * scale * 8).nonzero()[0])
                        ctx.violation("axiom:erm:monotone-in-a", "entropic risk decreases when the risk aversion increases", {"x": rs[i]["x"], "a": a, "scale": scale})
                    prev = cur
            # expected-utility losses: monotone and convex (isoelastic on positive samples)
            Xp, Yp = X + 3.0, Y + 3.0
            losses = [("EntropicLoss(1)", nn.EntropicLoss(1.0), X, Y), ("EntropicLoss(0.5)", nn.EntropicLoss(0.5), X, Y),
                      ("IsoelasticLoss(0.5)", nn.IsoelasticLoss(0.5), Xp, Yp), ("IsoelasticLoss(1)", nn.IsoelasticLoss(1.0), Xp, Yp)]
            for name, crit, A, B in losses:
                la, lb = crit(A), crit(B)
                ctx.count(n=A.size(1))
                leq = (A <= B).all(0)
                if bool((leq & (lb > la + 1e-12 * (1 + la.abs()))).any()):
                    i = int((leq & (lb > la + 1e-12 * (1 + la.abs()))).nonzero()[0])
                    ctx.violation(f"axiom:{name}:monotonicity", f"{name} is not monotone", {"x": rs[i]["x"], "y": rs[i]["y"]})
                for w in (0.5, 0.25):
                    lm = crit(w * A + (1 - w) * B)
                    bad = lm > w * la + (1 - w) * lb + 1e-12 * (1 + la.abs() + lb.abs())
                    if bool(bad.any()):
                        i = int(bad.nonzero()[0])
                        ctx.violation(f"axiom:{name}:convexity", f"{name} is not convex under mixing", {"x": rs[i]["x"], "y": rs[i]["y"], "w": w})


# =============================================================================================
# C06: cash() is the certainty equivalent
# =============================================================================================
def user_criteria():
    """Criteria that rely on HedgeLoss' default search for cash()."""
    from pfhedge.nn import HedgeLoss

    class MeanLoss(HedgeLoss):                      # risk neutral: CE = mean
        def forward(self, input, target=0.0):
            return -(input - target).mean(0)

    class QuadUtilityLoss(HedgeLoss):               # u(z) = z - z^2/16, increasing and concave for z < 8
        def forward(self, input, target=0.0):
            z = input - target
            return -(z - z.square() / 16).mean(0)

    class Exp2Loss(HedgeLoss):                      # the entropic loss in base 2 without a closed-form cash()
        def forward(self, input, target=0.0):
            return torch.exp2(-(input - target)).mean(0)

    return MeanLoss, QuadUtilityLoss, Exp2Loss


def flat_criterion():
    """A risk-averse user criterion with a FLAT region: the expected shortfall below the level 0 (first lower partial moment).
    Every constant at or above the level is as good as a sample without outcomes below it; the amount reported must still lie
    in [worst, best] and not exceed the mean."""
    from pfhedge.nn import HedgeLoss

    class LowerPartialMoment(HedgeLoss):
        def forward(self, input, target=0.0):
            return torch.relu(-(input - target)).mean(0)

    return LowerPartialMoment


def sum_criterion():
    """A user criterion with reduction 'sum': its value on a constant sample depends on the number of paths, its certainty
    equivalent does not (it is the one of Exp2Loss)."""
    from pfhedge.nn import HedgeLoss

    class SumExp2Loss(HedgeLoss):
        def forward(self, input, target=0.0):
            return torch.exp2(-(input - target)).sum(0)

    return SumExp2Loss


def cash_replay(ctx: Ctx, recs: List[Dict[str, Any]]) -> None:
    import pfhedge.nn as nn
    MeanLoss, QuadUtilityLoss, Exp2Loss = user_criteria()
    byN: Dict[Tuple[int, str], List[Dict[str, Any]]] = defaultdict(list)
    for r in recs:
        byN[(len(r["x"]), json.dumps([r["ps"], r["lams"]]))].append(r)
    dtype = torch.float64
    for (N, _), rs in byN.items():
        X = torch.tensor([r["x"] for r in rs], dtype=dtype).t().contiguous()      # (N, M)
        lo, hi, mean = X.min(0).values, X.max(0).values, X.mean(0)
        small = [i for i, r in enumerate(rs) if r["m2"]]
        crits: List[Tuple[str, Any, Any, bool, float, List[int]]] = []   # name, criterion, exact CE or None, risk averse, tol, columns
        allc = list(range(len(rs)))
        for j, p in enumerate(rs[0]["ps"]):
            crits.append((f"ExpectedShortfall({p[0]}/{p[1]})", nn.ExpectedShortfall(pfloat(p)),
                          [-float(fr(r["es"][j])) for r in rs], True, 1e-12, allc))
        for ai, a2 in enumerate((1, 2)):
            ce = [-log2frac(fr(rs[i]["m2"][ai])) / a2 for i in small]
            crits.append((f"EntropicRiskMeasure({a2}ln2)", nn.EntropicRiskMeasure(a2 * LN2), ce, True, 1e-12, small))
            crits.append((f"EntropicLoss({a2}ln2)", nn.EntropicLoss(a2 * LN2), ce, True, 1e-11, small))
        ce = [-log2frac(fr(rs[i]["m2"][0])) for i in small]
        crits.append(("user Exp2Loss (default search)", Exp2Loss(), ce, True, 4e-6, small))
        crits.append(("user SumExp2Loss (default search)", sum_criterion()(), ce, True, 4e-6, small))
        # the library's own criterion on the default search: the optimised certainty equivalent at its CURRENT w (not the optimal
        # one): w - E[u(x + w)] with u(z) = 1 - 2^-z has the certainty equivalent -log2 mean 2^-x whatever w is
        from pfhedge.nn.modules.loss import OCE
        for w0 in (0.0, 0.75, -1.5):
            oce = OCE(lambda z: 1 - torch.exp2(-z)).to(dtype)
            with torch.no_grad():
                oce.w.fill_(w0)
            crits.append((f"OCE(1 - 2^-z, w={w0}) (default search)", oce, ce, True, 4e-6, small))
        crits.append(("user LowerPartialMoment (default search)", flat_criterion()(), None, True, 4e-6, allc))
        crits.append(("user MeanLoss (default search)", MeanLoss(), [float(fr(r["mean"])) for r in rs], False, 4e-6, allc))
        q = [i for i, r in enumerate(rs) if r["max"] <= 4]
        ceq = []
        for i in q:
            xs = rs[i]["x"]
            mu = sum(Fraction(v) - Fraction(v * v, 16) for v in xs) / len(xs)
            ceq.append(8 - math.sqrt(64 - 16 * float(mu)))
        crits.append(("user QuadUtilityLoss (default search)", QuadUtilityLoss(), ceq, True, 4e-6, q))
        sq = [i for i, r in enumerate(rs) if r["iso"][0]]
        crits.append(("IsoelasticLoss(0.5) (default search)", nn.IsoelasticLoss(0.5), [float(fr(rs[i]["iso"][1])) ** 2 for i in sq], True, 4e-5, sq))
        p2 = [i for i, r in enumerate(rs) if r["isolog"][0]]
        crits.append(("IsoelasticLoss(1) (default search)", nn.IsoelasticLoss(1.0), [2.0 ** (-float(fr(rs[i]["isolog"][1]))) for i in p2], True, 4e-5, p2))
        for lam in rs[0]["lams"]:
            crits.append((f"QuadraticCVaR({lam})", nn.QuadraticCVaR(float(lam)), None, False, 1e-9, allc))

        for name, crit, ce, averse, tol, cols in crits:
            if not cols:
                continue
            fam = name.split("(")[0].strip()
            Xc = X[:, cols]
            # three call shapes: every column on its own, all columns at once, and with a target
            # certainty equivalents move with the sample: cash(x + c) = cash(x) + c, also for samples of large profits or large
            # losses only, where exp(-a x) leaves the range in which a naive mean-exp-log is accurate (closed forms only)
            if fam in ("EntropicRiskMeasure", "EntropicLoss") and ce is not None:
                base = torch.tensor(ce, dtype=dtype)
                # shifts keep a*(x + c) inside the range where the criterion's own value mean exp(-a x) is a normal float
                # (|a x| < 700 in float64, < 85 in float32): beyond it the expected utility itself is not representable
                shifts = [(100.0, torch.float64, 1e-9), (-100.0, torch.float64, 1e-9), (200.0, torch.float64, 1e-9), (30.0, torch.float32, 2e-5), (-30.0, torch.float32, 2e-5)]
                if fam == "EntropicRiskMeasure":
                    # the risk MEASURE is (1/a) log mean exp(-a x): finite and cash-invariant for every finite sample (C05), far beyond the
                    # range where exp(-a x) itself is representable - and so is its cash amount, minus the risk
                    shifts += [(2000.0, torch.float64, 1e-9), (-2000.0, torch.float64, 1e-9), (200.0, torch.float32, 2e-5), (-200.0, torch.float32, 2e-5)]
                for c, dt2, tol2 in shifts:
                    try:
                        got = crit.cash((Xc + c).to(dt2)).double()
                    except Exception as e:
                        ctx.violation(f"cash:{fam}:raises", f"{name}.cash raised {type(e).__name__} on a sample shifted by {c}", {"error": repr(e)[:200]})
                        continue
                    ctx.count(n=len(cols))
                    bad = ~((got - (base + c)).abs() <= tol2 * (1 + (base + c).abs()))
                    if bool(bad.any()):
                        i = int(bad.nonzero()[0])
                        ctx.violation(f"cash:{fam}:shifted-sample", f"{name}.cash of a sample shifted by {c} ({dt2}) is not the cash amount of the sample plus {c}",
                                      {"x": rs[cols[i]]["x"], "shift": c, "expected": (base[i] + c).item(), "observed": got[i].item()})
            # the amount does not depend on whether gradients are being recorded (a sample that requires grad, grad mode on)
            try:
                with torch.enable_grad():
                    with_grad = crit.cash(Xc[:, :1].clone().requires_grad_(True)).detach()
                with torch.no_grad():
                    without = crit.cash(Xc[:, :1].clone())
                ctx.count(n=1)
                if with_grad.shape != without.shape or not bool((((with_grad - without).abs() <= 1e-9 * (1 + without.abs())) | (with_grad.isnan() & without.isnan())).all()) \
                        or bool(with_grad.isnan().any()) != bool(without.isnan().any()):
                    ctx.violation(f"cash:{fam}:grad-mode", f"{name}.cash of a sample that requires grad differs from the amount without gradient recording",
                                  {"x": rs[cols[0]]["x"], "with_grad": with_grad.tolist(), "without": without.tolist()})
            except Exception as e:
                ctx.violation(f"cash:{fam}:grad-mode:raises", f"{name}.cash raised {type(e).__name__} on a sample that requires grad", {"error": repr(e)[:200]})
            modes = [("multi-column (N,M)", lambda: crit.cash(Xc)),
                     ("with target", lambda: crit.cash(Xc + 1.5, target=torch.full_like(Xc, 1.5))),
                     ("column by column", lambda: torch.stack([crit.cash(Xc[:, i]) for i in range(min(Xc.size(1), 24))]))]
            for mode, call in modes:
                ncol = Xc.size(1) if mode != "column by column" else min(Xc.size(1), 24)
                try:
                    cash = call()
                except Exception as e:
                    const = bool((Xc.min() == Xc.max()))
                    allconst = all(len(set(rs[i]["x"])) == 1 for i in cols[:ncol])
                    kind = "constant-sample" if (const or (mode == "column by column" and any(len(set(rs[i]["x"])) == 1 for i in cols[:ncol]))) else "raises"
                    ctx.violation(f"cash:{fam}:{kind}", f"{name}.cash raised {type(e).__name__} ({mode})", {"error": repr(e)[:200], "N": N, "mode": mode})
                    continue
                ctx.count(n=ncol)
                if cash.shape != (ncol,):
                    ctx.violation(f"cash:{fam}:shape", f"{name}.cash returned shape {tuple(cash.shape)} for {ncol} independent samples ({mode})", {"N": N})
                    continue
                sub = Xc[:, :ncol]
                if fam == "QuadraticCVaR":
                    # minus the risk evaluated the same way (the bisection inside quadratic_cvar shares its precision
                    # across the columns of one call, so column-wise and batched risks differ within that precision)
                    risk = crit(sub) if mode != "column by column" else torch.stack([crit(sub[:, i]) for i in range(ncol)])
                    if not torch.allclose(cash, -risk, rtol=0, atol=1e-9):
                        ctx.violation("cash:qcvar:not-minus-risk", "QuadraticCVaR.cash is not minus the risk", {"N": N, "mode": mode})
                    continue
                slo, shi, smean = sub.min(0).values, sub.max(0).values, sub.mean(0)
                lossx = crit(sub)
                lossc = crit(cash.unsqueeze(0).expand_as(sub))
                bad = ~((lossx - lossc).abs() <= 64 * tol * (1 + lossx.abs()) + 64 * tol)
                if bool(bad.any()):
                    i = int(bad.nonzero()[0])
                    ctx.violation(f"cash:{fam}:not-equivalent", f"{name}: criterion(constant cash) differs from criterion(sample) ({mode})",
                                  {"x": rs[cols[i]]["x"], "cash": cash[i].item(), "loss_sample": lossx[i].item(), "loss_cash": lossc[i].item()})
                bad = ~((cash >= slo - tol - 1e-9) & (cash <= shi + tol + 1e-9))
                if bool(bad.any()):
                    i = int(bad.nonzero()[0])
                    # a criterion with a flat region, evaluated on SEVERAL samples in one call, has its own key: the default search
                    # brackets all columns by the global minimum and maximum (known finding); one sample per call must still be right
                    suffix = ":multi-column" if (fam == "user LowerPartialMoment" and mode != "column by column") else ""
                    ctx.violation(f"cash:{fam}:outside-range{suffix}", f"{name}.cash outside [worst, best] outcome ({mode})", {"x": rs[cols[i]]["x"], "cash": cash[i].item()})
                if averse:
                    bad = ~(cash <= smean + tol + 1e-9)
                    if bool(bad.any()):
                        i = int(bad.nonzero()[0])
                        ctx.violation(f"cash:{fam}:above-mean", f"{name}.cash exceeds the mean although the criterion is risk-averse ({mode})", {"x": rs[cols[i]]["x"], "cash": cash[i].item()})
                if ce is not None:
                    exp = torch.tensor(ce[:ncol], dtype=dtype)
                    bad = ~((cash - exp).abs() <= tol * (1 + exp.abs()))
                    if bool(bad.any()):
                        i = int(bad.nonzero()[0])
                        ctx.violation(f"cash:{fam}:value", f"{name}.cash is not the certainty equivalent of the specification ({mode})",
                                      {"x": rs[cols[i]]["x"], "expected": exp[i].item(), "observed": cash[i].item()})


def cash_large_level(ctx: Ctx) -> None:
    """Samples with a LARGE LEVEL and a small spread (a book worth 1e6 whose outcomes differ by a few units; 1e3 + a few 1e-3):
    the certainty equivalent found by the default search moves with the level - it is the level plus the certainty equivalent
    of the spread for translation-equivariant criteria (mean, mean minus standard deviation) and (mean sqrt x)^2 for the
    isoelastic loss - and is not the worst outcome."""
    import pfhedge.nn as nn
    from pfhedge.nn import HedgeLoss

    class MeanLoss(HedgeLoss):
        def forward(self, input, target=0.0):
            return -(input - target).mean(0)

    class MeanStdLoss(HedgeLoss):
        def forward(self, input, target=0.0):
            z = input - target
            return -(z.mean(0) - z.std(0, unbiased=False))

    base64 = torch.tensor([[0.0, 3.0, 8.0, 1.0, 5.0, 2.0, 7.0, 4.0], [1.0, 1.0, 2.0, 6.0, 0.0, 0.0, 3.0, 3.0]], dtype=torch.float64).t()     # (8, 2)
    # (in SINGLE precision - the library's default - a level of a few tens is already "large": one unit in the last place of 32 is
    #  3.8e-6, above the absolute precision 1e-6 the search asks for by default; the amount is then right to the resolution of the dtype)
    for level, scale, dtype in ((1e6, 1.0, torch.float64), (1e3, 1e-3, torch.float64), (-1e6, 1.0, torch.float64), (1e9, 16.0, torch.float64),
                                (32.0, 1.0, torch.float32), (1000.0, 1.0, torch.float32), (-250.0, 0.5, torch.float32)):
        X64 = level + scale * base64
        X = X64.to(dtype)
        res = 0.0 if dtype == torch.float64 else 16 * torch.finfo(dtype).eps * (abs(level) + 8 * scale)
        cases = [("user MeanLoss", MeanLoss(), X64.mean(0)), ("user MeanStdLoss", MeanStdLoss(), X64.mean(0) - X64.std(0, unbiased=False))]
        if level > 0:
            cases.append(("IsoelasticLoss(0.5)", nn.IsoelasticLoss(0.5), X64.sqrt().mean(0).square()))
            cases.append(("IsoelasticLoss(1)", nn.IsoelasticLoss(1.0), X64.log().mean(0).exp()))
        for name, crit, want in cases:
            for mode, call, w in (("one sample", lambda: crit.cash(X[:, 0]), want[0]), ("two columns", lambda: crit.cash(X), want)):
                ctx.count(n=1)
                try:
                    got = call()
                except Exception as e:
                    ctx.violation(f"cash:{name}:large-level:raises", f"{name}.cash raised {type(e).__name__} on a sample of level {level} and spread {8 * scale} ({mode})", {"error": repr(e)[:200]})
                    continue
                if got.dtype != dtype:
                    ctx.violation(f"cash:{name}:large-level:dtype", f"{name}.cash of a {dtype} sample is {got.dtype}", {"level": level})
                    continue
                if got.shape != w.shape or not bool(((got.double() - w).abs() <= 2e-5 * 8 * scale + 1e-9 * abs(level) + res).all()):
                    ctx.violation(f"cash:{name}:large-level", f"{name}.cash of a sample of level {level} and spread {8 * scale} is not its certainty equivalent ({mode})",
                                  {"level": level, "spread": 8 * scale, "expected": w.tolist(), "observed": got.tolist(), "worst": X.min(0).values.tolist()})


# =============================================================================================
# C06: Hedger.price / compute_loss against PriceFlow.tla
# =============================================================================================
PRICE_CFGS = {"quick": ["q_n2t1", "q_n2t2", "q_n3t1"], "thorough": ["q_n2t1", "q_n2t2", "q_n3t1", "t_n2t1"]}


def price_replay(ctx: Ctx) -> int:
    import pfhedge.nn as nn
    from pfhedge.instruments import EuropeanOption
    from lib.doubles import ScriptedPrimary, build_hedger, frf
    from lib.tlc import require_actions

    MeanLoss, _, _ = user_criteria()
    with ThreadPoolExecutor(max_workers=5) as ex:
        results = list(ex.map(lambda c: ctx.tlc("MC_PriceFlow", f"MC_PriceFlow_{c}.cfg", workers=4), PRICE_CFGS[ctx.tier]))
    n = 0
    dtype = torch.float64
    for res in results:
        require_actions(res, ["Simulate", "Portfolio", "Cash"])
        for k, r in enumerate(res.records):
            cfg, draws, shift, crit = r["cfg"], r["draws"], r["shift"], r["crit"]
            T = len(draws[0][0])
            N = len(draws[0])
            script = [{"spot": torch.tensor(dr, dtype=dtype), "variance": torch.ones(N, T, dtype=dtype)} for dr in draws]
            stock = ScriptedPrimary(script, cost=float(cfg["cost"][0]) if cfg["cost"] else 0.0, dt=0.25, dtype=dtype)
            deriv = EuropeanOption(stock, call=cfg["call"], strike=2.0, maturity=(T - 1) * 0.25)
            if shift != 0:
                deriv.add_clause("shift", lambda d, payoff, s=shift: payoff + s)
            criterion = MeanLoss() if crit == [0, 1] else nn.ExpectedShortfall(crit[0] / crit[1])
            hedger, model = build_hedger(cfg, dtype, criterion=criterion)
            model.record = False
            tol = 4e-6 if crit == [0, 1] else 1e-12
            try:
                price = hedger.price(deriv, n_paths=N, n_times=len(draws))
                ncalls = len(stock.calls)
                stock.pos = 0
                loss = hedger.compute_loss(deriv, n_paths=N, n_times=len(draws), enable_grad=False)
            except Exception as e:
                ctx.violation("price:raises", f"Hedger.price/compute_loss raised {type(e).__name__}", {"record": r, "error": repr(e)[:200]})
                continue
            n += 1
            ctx.count(n=1)
            if k % 997 == 0:
                ctx.sample({"price_record": r})
            if ncalls != len(draws) or any(c["n_paths"] != N for c in stock.calls):
                ctx.violation("price:draws", f"price(n_times={len(draws)}, n_paths={N}) simulated {ncalls} draws with n_paths {[c['n_paths'] for c in stock.calls]}", {"record": r})
            if abs(price.item() - frf(r["price"])) > tol * (1 + abs(frf(r["price"]))):
                key = "price:shift" if shift != 0 else "price:value"
                ctx.violation(key, "Hedger.price is not minus the cash amount of (portfolio - payoff) averaged over the draws",
                              {"record": r, "observed": price.item(), "expected": frf(r["price"])})
            if abs(loss.item() - frf(r["loss"])) > 1e-12 * (1 + abs(frf(r["loss"]))):
                ctx.violation("loss:value", "Hedger.compute_loss is not the criterion of (portfolio - payoff) averaged over the draws",
                              {"record": r, "observed": loss.item(), "expected": frf(r["loss"])})
            if price.requires_grad:
                ctx.violation("price:graph", "price() result carries a graph by default", {})
            # entropic risk measure: price equals loss on the same draws (relational)
            if k % 7 == 0:
                h2, m2 = build_hedger(cfg, dtype, criterion=nn.EntropicRiskMeasure(0.5))
                m2.record = False
                stock.pos = 0
                p2 = h2.price(deriv, n_paths=N, n_times=len(draws))
                stock.pos = 0
                l2 = h2.compute_loss(deriv, n_paths=N, n_times=len(draws), enable_grad=False)
                ctx.count(n=1)
                if abs(p2.item() - l2.item()) > 1e-12 * (1 + abs(l2.item())):
                    ctx.violation("price:erm-equals-loss", "for the entropic risk measure the price differs from the loss on the same draws",
                                  {"record": r, "price": p2.item(), "loss": l2.item()})
    return n
