"""C03 - batched and stepwise evaluation agree; prev_hedge is the last output.

Hedge.tla states the three claims as invariants (AtEqualsAll, BranchesAgree/HedgeIsRef, PrevIsLastOutput) and TLC
checks them on every path/configuration of the bounded lattices.  The emitted behaviours are replayed into the
real code: every feature's get(i) against column i of get(None); the real Hedger evaluated natively and with the
step-by-step branch forced (zero-weighted prev_hedge input) - hedge, portfolio, P&L and two criteria; and the trace
of model inputs recorded by the model double is validated against the machine's `rows`/`outs`.
"""
import torch

from lib.core import Ctx, run_check
from checks import hedge_common


def inplace_first_operation(ctx: Ctx) -> None:
    """A user model whose first operation works in place on its input, fed by ONE feature that reads a simulated buffer: the
    two evaluation modes must still agree (and the all-steps mode must not hand the model the buffer itself)."""
    import torch
    from pfhedge.instruments import BrownianStock, EuropeanOption, HestonStock
    from pfhedge.nn import EntropicRiskMeasure, Hedger

    class InPlaceFirst(torch.nn.Module):          # reads column 0 only, so an extra zero-weighted prev_hedge column changes nothing
        def forward(self, x):
            x = x[..., :1]
            x.clamp_(min=0.75, max=1.5)
            return x - 0.5

    spot = torch.tensor([[1.0, 1.25, 0.5, 2.0], [1.0, 0.625, 1.75, 1.0], [1.0, 1.5, 1.5, 0.25]], dtype=torch.float64)
    var = torch.tensor([[0.25, 1.0, 0.5, 2.0], [0.25, 0.125, 1.75, 1.0], [0.25, 1.5, 0.0625, 0.25]], dtype=torch.float64)

    def market(feature: str):
        if feature == "variance":
            ul = HestonStock(dt=0.25, cost=1e-3, dtype=torch.float64)
            ul.register_buffer("spot", spot.clone()); ul.register_buffer("variance", var.clone())
        else:
            ul = BrownianStock(dt=0.25, cost=1e-3, dtype=torch.float64)
            ul.register_buffer("spot", spot.clone())
        return EuropeanOption(ul, maturity=0.75)

    for feature in ("underlier_spot", "variance"):
        d_all, d_step = market(feature), market(feature)
        h_all = Hedger(InPlaceFirst(), [feature], criterion=EntropicRiskMeasure())
        h_step = Hedger(InPlaceFirst(), [feature, "prev_hedge"], criterion=EntropicRiskMeasure())
        with torch.no_grad():
            a = {"hedge": h_all.compute_hedge(d_all), "P&L": h_all.compute_pl(d_all), "loss": h_all.criterion(h_all.compute_pl(d_all))}
            b = {"hedge": h_step.compute_hedge(d_step), "P&L": h_step.compute_pl(d_step), "loss": h_step.criterion(h_step.compute_pl(d_step))}
        ctx.count(n=3)
        for k in a:
            if not torch.equal(a[k], b[k]):
                ctx.violation(f"hedger:inplace-model:{k}", f"{k} of a hedger with one buffer-reading input ({feature}) and a model working in place differs between the all-steps and the step-by-step evaluation",
                              {"feature": feature, "all_steps": a[k].flatten().tolist()[:6], "stepwise": b[k].flatten().tolist()[:6]})
                break
        buf = d_all.ul().spot if feature == "underlier_spot" else d_all.ul().variance
        if not torch.equal(buf, spot if feature == "underlier_spot" else var):
            ctx.violation("hedger:inplace-model:buffer", f"the all-steps evaluation handed the model the simulated {feature} buffer itself: it was overwritten", {"feature": feature})


def shared_module_output(ctx: Ctx) -> None:
    """One ModuleOutput feature object that reads prev_hedge, used by TWO hedgers on the same derivative (in both orders, and
    again after a new simulation): the prev_hedge its module sees at step i is the output at step i-1 of the hedger that is
    being evaluated - zero at step 0 - not something of the other hedger."""
    from pfhedge.features import ModuleOutput
    from pfhedge.instruments import BrownianStock, EuropeanOption
    from pfhedge.nn import Hedger
    dtype = torch.float64

    class Recording(torch.nn.Module):
        def __init__(self):
            super().__init__()
            self.lin = torch.nn.Linear(2, 1, dtype=dtype)
            self.seen = []

        def forward(self, x):
            self.seen.append(x.detach().clone())
            return torch.tanh(self.lin(x))

    torch.manual_seed(ctx.seed + 3)
    ext = Recording()
    mo = ModuleOutput(ext, ["moneyness", "prev_hedge"])
    models = [torch.nn.Sequential(torch.nn.Linear(1, 1, dtype=dtype), torch.nn.Tanh()), torch.nn.Sequential(torch.nn.Linear(1, 1, dtype=dtype), torch.nn.Sigmoid())]
    hedgers = [Hedger(m, [mo]) for m in models]
    d = EuropeanOption(BrownianStock(dt=0.25, dtype=dtype), maturity=1.0)
    for rnd, order in enumerate(((0, 1), (1, 0), (1, 1, 0))):
        torch.manual_seed(ctx.seed + rnd)
        d.simulate(n_paths=3)
        for which in order:
            ext.seen.clear()
            with torch.no_grad():
                out = hedgers[which].compute_hedge(d)            # (N, 1, T)
            ctx.count(n=len(ext.seen))
            steps = [x for x in ext.seen if x.dim() == 3 and x.size(1) == 1]
            if len(steps) < out.size(-1) - 1:
                ctx.violation("prev:shared-module-output:trace", "a ModuleOutput reading prev_hedge was not evaluated step by step", {"calls": [list(x.shape) for x in ext.seen]})
                return
            for i, x in enumerate(steps[: out.size(-1) - 1]):
                want = torch.zeros_like(out[:, :, 0]) if i == 0 else out[:, :, i - 1]
                if not torch.equal(x[:, 0, 1:], want):
                    ctx.violation("prev:shared-module-output", f"hedger #{which} evaluated after the other hedger on the same derivative (shared ModuleOutput reading prev_hedge): at step {i} "
                                  "the module saw a prev_hedge that is not this hedger's output at the previous step",
                                  {"round": rnd, "order": list(order), "step": i, "seen": x[:, 0, 1:].flatten().tolist(), "expected": want.flatten().tolist()})
                    return


def stepping_by_hand(ctx: Ctx) -> None:
    """The documented way to evaluate a hedger one step at a time by hand - model(hedger.get_input(derivative, i)) for i = 0..T-2 -
    gives the columns of compute_hedge(): on first use, after a new simulation, after the contract was re-struck and after
    hedger.inputs was replaced by another feature list of the same width."""
    from pfhedge.features import FeatureList
    from pfhedge.instruments import BrownianStock, EuropeanOption
    from pfhedge.nn import Hedger
    dtype = torch.float64
    torch.manual_seed(ctx.seed + 8)
    model = torch.nn.Sequential(torch.nn.Linear(2, 3, dtype=dtype), torch.nn.Tanh(), torch.nn.Linear(3, 1, dtype=dtype))
    hedger = Hedger(model, ["log_moneyness", "time_to_maturity"])
    # (a step size that is NOT a dyadic number: a time computed through single precision on the way differs from the double)
    d = EuropeanOption(BrownianStock(dt=1 / 250, dtype=dtype), maturity=5 / 250)
    d.simulate(n_paths=3)
    from pfhedge.features import get_feature
    for fname in ("time_to_maturity", "expiry_time"):
        ft = get_feature(fname).of(d)
        full = ft.get(None)
        for i in range(full.size(1)):
            one = ft.get(i)
            ctx.count(("time-feature-double", fname), n=1)
            if one.dtype != dtype or not bool(((one - full[:, [i]]).abs() <= 8 * torch.finfo(dtype).eps * full.abs().max()).all()):
                ctx.violation(f"feature:{fname}:step-vs-all:double-precision", f"{fname}.get({i}) differs from column {i} of get(None) beyond double-precision rounding (dt = 1/250, float64)",
                              {"step": i, "single": one.flatten().tolist()[:2], "column": full[:, [i]].flatten().tolist()[:2]})
                break
    steps = [("first use", lambda: None), ("a new simulation", lambda: d.simulate(n_paths=3)), ("the contract re-struck", lambda: setattr(d, "strike", 1.25)),
             ("inputs replaced by others of the same width", lambda: setattr(hedger, "inputs", FeatureList(["moneyness", "volatility"]))),
             ("a new simulation with another number of paths", lambda: d.simulate(n_paths=2))]
    for label, act in steps:
        act()
        with torch.no_grad():
            T = d.ul().spot.size(1)
            try:
                # (by hand FIRST: whatever get_input remembers from before the re-configuration must not be served now)
                by_hand = torch.cat([model(hedger.get_input(d, i)) for i in range(T - 1)], dim=-2).transpose(-1, -2)
                all_in = hedger.get_input(d, None)
                whole = hedger.compute_hedge(d)                                # (N, 1, T)
            except Exception as e:
                ctx.violation("stepping-by-hand:raises", f"hedger.get_input raised {type(e).__name__} ({label})", {"error": repr(e)[:200]})
                continue
        ctx.count(("stepping-by-hand", label), n=T - 1)
        if by_hand.shape != whole[..., :-1].shape or not bool(((by_hand - whole[..., :-1]).abs() <= 1e-12).all()):
            ctx.violation("stepping-by-hand", f"model(hedger.get_input(derivative, i)) is not column i of compute_hedge() ({label})",
                          {"step": label, "by_hand": by_hand.flatten().tolist()[:8], "compute_hedge": whole[..., :-1].flatten().tolist()[:8]})
        elif tuple(all_in.shape) != (whole.size(0), T, 2):
            ctx.violation("stepping-by-hand:shape", f"hedger.get_input(derivative, None) has shape {tuple(all_in.shape)} ({label})", {})


def check(ctx: Ctx) -> None:
    hedge_common.replay_hedger(ctx, focus="C03")
    stepping_by_hand(ctx)
    inplace_first_operation(ctx)
    shared_module_output(ctx)
    hedge_common.c03_selftest(ctx)
    ctx.rule = ("every (path, configuration) state of Hedge.tla's bounded model; replayed per configuration with all "
                "paths stacked as one batch; distinct = distinct emitted (path, configuration) record")
    ctx.exhaustive = True
    ctx.assumptions += ["time-to-maturity forms may differ by 4*eps*(T-1)*dt (two rounded products are subtracted in the all-steps form)",
                        "models are the exact-arithmetic family (integer-weight linear / ReLU); opaque models are covered by C02's pair replay"]


if __name__ == "__main__":
    raise SystemExit(run_check("C03", check))
