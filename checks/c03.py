"""C03 - batched and stepwise evaluation agree; prev_hedge is the last output.

Hedge.tla states the three claims as invariants (AtEqualsAll, BranchesAgree/HedgeIsRef, PrevIsLastOutput) and TLC
checks them on every path/configuration of the bounded lattices.  The emitted behaviours are replayed into the
real code: every feature's get(i) against column i of get(None); the real Hedger evaluated natively and with the
step-by-step branch forced (zero-weighted prev_hedge input) - hedge, portfolio, P&L and two criteria; and the trace
of model inputs recorded by the model double is validated against the machine's `rows`/`outs`.
"""
from lib.core import Ctx, run_check
from checks import hedge_common


def check(ctx: Ctx) -> None:
    hedge_common.replay_hedger(ctx, focus="C03")
    hedge_common.c03_selftest(ctx)
    ctx.rule = ("every (path, configuration) state of Hedge.tla's bounded model; replayed per configuration with all "
                "paths stacked as one batch; distinct = distinct emitted (path, configuration) record")
    ctx.exhaustive = True
    ctx.assumptions += ["time-to-maturity forms may differ by 4*eps*(T-1)*dt (two rounded products are subtracted in the all-steps form)",
                        "models are the exact-arithmetic family (integer-weight linear / ReLU); opaque models are covered by C02's pair replay"]


if __name__ == "__main__":
    raise SystemExit(run_check("C03", check))
